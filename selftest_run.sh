#!/bin/sh
# usage: selftest_run.sh <patch.diff> <Cxx> [tier]   -- applies the patch to a scratch copy of /repo and runs the check against it
set -e
PATCH="$1"; PROP="$2"; TIER="${3:-quick}"
SCR="$(mktemp -d /tmp/vst.XXXXXX)"
rsync -a --exclude target --exclude .git /repo/ "$SCR/repo/"
( cd "$SCR/repo" && patch -p1 -s < "$PATCH" )
set +e
VERIF_EVIDENCE="$SCR/ev" VERIF_REPLAYS="$SCR/rp" VERIF_REPO="$SCR/repo" VERIF_BUILD="$SCR/build" /verif/check "$PROP" --tier "$TIER"
RC=$?
rm -rf "$SCR"
echo "exit=$RC"
exit 0
