"""Engine K driver: generates the harness crate /verif/kani/vk into $VERIF_BUILD against $VERIF_REPO, runs `cargo kani` on a
set of harnesses (one invocation, harnesses verified in parallel), and turns the results into plain records.

Verdict rules (DESIGN 2.3 / 3.4): only `Success` with zero failed / undetermined checks and every cover SATISFIED is a proof;
a failed check is a *candidate* counterexample (the property file concretises and replays it natively before anything is
reported); timeouts, OOM, CBMC errors, failed unwinding assertions, unsupported constructs and unsatisfied covers are
inconclusive.
"""
import hashlib
import json
import os
import re
import resource
import shutil
import signal
import subprocess
import time

from mirdump import REPO, BUILD, GUARD

VERIF = os.path.dirname(os.path.dirname(os.path.abspath(__file__)))
CRATE_SRC = os.path.join(VERIF, 'kani', 'vk')
MEM_KB = int(os.environ.get('VERIF_KANI_MEM_KB', str(12 * 1024 * 1024)))


class HarnessResult:
    def __init__(self, name):
        self.name = name
        self.status = 'error'        # proved | failed | unwind | unsupported | cover | error
        self.duration_s = 0.0
        self.props = {}
        self.failed = []             # dict(description, function, file, line, category)
        self.covers = []             # (description, status)
        self.error = 'no result recorded'

    def as_dict(self):
        return {'harness': self.name, 'status': self.status, 'verification_s': self.duration_s, 'properties': self.props,
                'failed_checks': self.failed[:8], 'covers': self.covers, 'error': self.error}


def crate_dir():
    tag = hashlib.sha256(REPO.encode()).hexdigest()[:8]
    return os.path.join(BUILD, 'vk-' + tag)


def target_dir():
    return os.path.join(BUILD, 'target-kani')


def prepare():
    """(re)generate the harness crate; file contents are only rewritten when they differ so cargo's fingerprints stay valid"""
    d = crate_dir()
    os.makedirs(os.path.join(d, 'src'), exist_ok=True)
    for f in os.listdir(os.path.join(CRATE_SRC, 'src')):
        src = os.path.join(CRATE_SRC, 'src', f)
        dst = os.path.join(d, 'src', f)
        if not os.path.exists(dst) or open(src, 'rb').read() != open(dst, 'rb').read():
            shutil.copy(src, dst)
    toml = open(os.path.join(CRATE_SRC, 'Cargo.toml.in')).read().replace('@REPO@', REPO)
    p = os.path.join(d, 'Cargo.toml')
    if not os.path.exists(p) or open(p).read() != toml:
        open(p, 'w').write(toml)
    # cargo rewrites the copied lock file (adds `vk`, drops unused workspace members): remember which repo lock it came from
    lock_src = os.path.join(REPO, 'Cargo.lock')
    stamp = os.path.join(d, 'Cargo.lock.from')
    h = hashlib.sha256(open(lock_src, 'rb').read()).hexdigest() if os.path.exists(lock_src) else 'none'
    if os.path.exists(lock_src) and (not os.path.exists(os.path.join(d, 'Cargo.lock')) or not os.path.exists(stamp) or open(stamp).read() != h):
        shutil.copy(lock_src, os.path.join(d, 'Cargo.lock'))
        open(stamp, 'w').write(h)
    return d


def harness_source(module, names):
    """source text of the harness module (for evidence samples): the generic body and the selected #[kani::proof] items"""
    return open(os.path.join(CRATE_SRC, 'src', module + '.rs')).read()


def _limits():
    resource.setrlimit(resource.RLIMIT_AS, (MEM_KB * 1024, MEM_KB * 1024))
    os.setsid()


def _run(cmd, cwd, log_path, wall_timeout_s):
    env = dict(os.environ)
    env['CARGO_NET_OFFLINE'] = 'true'
    env['RUSTFLAGS'] = '--cfg ' + GUARD
    env.pop('CARGO_TARGET_DIR', None)
    t0 = time.time()
    with open(log_path, 'w') as lf:
        p = subprocess.Popen(cmd, cwd=cwd, env=env, stdout=lf, stderr=subprocess.STDOUT, preexec_fn=_limits)
        try:
            rc = p.wait(timeout=wall_timeout_s)
            timed_out = False
        except subprocess.TimeoutExpired:
            timed_out = True
            try:
                os.killpg(p.pid, signal.SIGKILL)
            except ProcessLookupError:
                pass
            p.wait()
            rc = -9
    return rc, timed_out, time.time() - t0


def verify(harnesses, jobs, harness_timeout_s, wall_timeout_s, tag, stubbing=True, extra=()):
    """returns (dict name -> HarnessResult, meta).  meta['fatal'] is set when nothing could be verified (build failure ...)"""
    d = prepare()
    os.makedirs(BUILD, exist_ok=True)
    out_json = os.path.join(BUILD, 'kani-%s.json' % tag)
    log_path = os.path.join(BUILD, 'kani-%s.log' % tag)
    if os.path.exists(out_json):
        os.remove(out_json)
    cmd = ['cargo', 'kani', '--target-dir', target_dir(), '-Z', 'unstable-options', '--harness-timeout', '%ds' % harness_timeout_s,
           '-j', str(jobs), '--output-format', 'terse', '--export-json', out_json, '--exact']
    if stubbing:
        cmd += ['-Z', 'stubbing']
    cmd += list(extra)
    for h in harnesses:
        cmd += ['--harness', h]
    rc, timed_out, wall = _run(cmd, d, log_path, wall_timeout_s)
    res = {h: HarnessResult(h) for h in harnesses}
    log = open(log_path, errors='replace').read()
    meta = {'cmd': ' '.join(cmd), 'rustflags': '--cfg ' + GUARD, 'rc': rc, 'wall_s': round(wall, 1), 'log': log_path, 'fatal': None,
            'mem_limit_kb_per_process': MEM_KB, 'harness_timeout_s': harness_timeout_s}
    m = re.search(r'Finished `\w+` profile .* in ([\d.]+)s', log)
    meta['build_s'] = float(m.group(1)) if m else None
    if timed_out:
        meta['fatal'] = 'cargo kani exceeded the wall-clock limit of %ds' % wall_timeout_s
    if not os.path.exists(out_json):
        errs = [ln for ln in log.split('\n') if ln.startswith('error')]
        meta['fatal'] = meta['fatal'] or ('cargo kani produced no result file (rc=%s): %s' % (rc, ' | '.join(errs[:4]) or log[-600:]))
        for r in res.values():
            r.error = meta['fatal']
        return res, meta
    data = json.load(open(out_json))
    meta['kani'] = data.get('tools', {}).get('kani')
    meta['cbmc'] = data.get('tools', {}).get('cbmc')
    details = {x['harness_id']: x.get('property_details', {}) for x in data.get('property_details', [])}
    errors = {x['harness_id']: x for x in data.get('error_details', [])}
    stats = {x['harness_id']: x.get('cbmc_stats', {}) for x in data.get('cbmc', [])}
    for r in data.get('verification_results', {}).get('results', []):
        h = r['harness_id']
        if h not in res:
            continue
        hr = res[h]
        hr.duration_s = round(r.get('duration_ms', 0) / 1000.0, 2)
        hr.props = {k: v for k, v in details.get(h, {}).items() if v}
        hr.props.update({k: v for k, v in stats.get(h, {}).items() if k in ('vccs_generated', 'vccs_remaining', 'size_program_expression')})
        checks = r.get('checks', [])
        hr.covers = [(c['description'], c['status']) for c in checks if c.get('category') == 'cover']
        hr.failed = [{'description': c['description'].strip('"'), 'function': c.get('function'), 'file': c.get('location', {}).get('file'),
                      'line': c.get('location', {}).get('line'), 'category': c.get('category')}
                     for c in checks if c.get('status') not in ('Success', 'Unreachable', 'Satisfied', 'Unsatisfiable') and c.get('category') != 'cover']
        e = errors.get(h, {})
        pd = details.get(h, {})
        if r.get('status') == 'Success' and pd.get('failed') == 0 and not pd.get('undetermined') and not pd.get('solver_error'):
            if hr.covers and all(s == 'Satisfied' for _, s in hr.covers):
                hr.status, hr.error = 'proved', None
            else:
                hr.status = 'cover'
                hr.error = 'cover not satisfied: %s' % [c for c in hr.covers if c[1] != 'Satisfied']
        elif e.get('exit_status') == 'properties_failed' and hr.failed:
            hard = [c for c in hr.failed if c['category'] not in ('unwind', 'unsupported_construct', 'missing_definition')
                    and 'unwinding assertion' not in c['description']]
            undet = [c for c in checks if c.get('status') == 'Undetermined']
            if hard:
                hr.status, hr.error = 'failed', None
            elif any(c['category'] == 'unwind' or 'unwinding assertion' in c['description'] for c in hr.failed):
                hr.status, hr.error = 'unwind', 'only unwinding assertions failed: the loop bound of the harness is inadequate for this code'
            else:
                hr.status, hr.error = 'unsupported', 'unsupported construct reachable: %s' % hr.failed[0]['description']
            if undet and hr.status == 'failed':
                hr.error = '%d checks undetermined next to the failed ones' % len(undet)
        else:
            hr.status = 'error'
            hr.error = 'kani: status=%s exit=%s %s' % (r.get('status'), e.get('exit_status'), e.get('error_type'))
    for h, hr in res.items():
        if hr.status == 'error' and hr.error == 'no result recorded' and meta['fatal'] is None:
            hr.error = 'harness not found in the result file (renamed or filtered out?)'
    return res, meta


def playback(harness, harness_timeout_s, tag, stubbing=True):
    """re-run one failing harness with concrete playback; returns list of dict(kind, check, vals=[int little-endian], widths=[bytes])"""
    d = prepare()
    log_path = os.path.join(BUILD, 'kani-%s-playback.log' % tag)
    cmd = ['cargo', 'kani', '--target-dir', target_dir(), '-Z', 'unstable-options', '-Z', 'concrete-playback', '--concrete-playback=print',
           '--harness-timeout', '%ds' % harness_timeout_s, '--output-format', 'terse', '--exact', '--harness', harness]
    if stubbing:
        cmd += ['-Z', 'stubbing']
    rc, timed_out, wall = _run(cmd, d, log_path, harness_timeout_s + 300)
    log = open(log_path, errors='replace').read()
    tests = []
    for blk in re.finditer(r'/// Check for `(\w+)`: ([^\n]*)\n(?:(?!/// Check for).)*?let concrete_vals: Vec<Vec<u8>> = vec!\[\n(.*?)\n\s*\];', log, re.S):
        kind, check, body = blk.group(1), blk.group(2).strip().strip('"'), blk.group(3)
        vals, widths = [], []
        for ln in body.split('\n'):
            mm = re.match(r'\s*vec!\[(.*)\],?\s*$', ln)
            if mm:
                bs = [int(x) for x in mm.group(1).split(',') if x.strip()]
                vals.append(int.from_bytes(bytes(bs), 'little'))
                widths.append(len(bs))
        tests.append({'kind': kind, 'check': check, 'vals': vals, 'widths': widths})
    return tests, {'cmd': ' '.join(cmd), 'wall_s': round(wall, 1), 'timed_out': timed_out, 'log': log_path}


def fn_source(rel_path, fn_name):
    """(text, first line) of `fn <fn_name>` in a repo file by brace matching; None if absent"""
    p = os.path.join(REPO, rel_path)
    if not os.path.exists(p):
        return None
    s = open(p).read()
    m = re.search(r'^[ \t]*(?:pub(?:\([^)]*\))?\s+)?(?:const\s+)?(?:async\s+)?fn\s+' + re.escape(fn_name) + r'\b', s, re.M)
    if not m:
        return None
    i = s.index('{', m.end())
    depth, j = 0, i
    while j < len(s):
        if s[j] == '{':
            depth += 1
        elif s[j] == '}':
            depth -= 1
            if depth == 0:
                break
        j += 1
    return s[m.start():j + 1], s.count('\n', 0, m.start()) + 1


def describe_fn(rel_path, fn_name, display):
    r = fn_source(rel_path, fn_name)
    if r is None:
        return None
    text, line = r
    return {'name': display, 'file': rel_path, 'line': line, 'source_sha256': hashlib.sha256(text.encode()).hexdigest()[:16], 'lines': text.count('\n') + 1}


def record(ctx, results, meta, group):
    """map harness results onto ctx obligations / witnesses / counters; returns [(HarnessResult, obligation record)] of the failed ones"""
    failed = []
    for name, hr in results.items():
        rec = {'name': name, 'group': group, 'status': 'proved' if hr.status == 'proved' else hr.status, 'solver_s': hr.duration_s,
               'engine': 'kani', 'properties': hr.props}
        ctx.solver_s += hr.duration_s
        n_pass = hr.props.get('passed') or 0
        if hr.status == 'proved':
            ctx.queries['unsat'] += n_pass
        elif hr.status == 'failed':
            ctx.queries['unsat'] += n_pass
            ctx.queries['sat'] += len(hr.failed)
            rec['failed_checks'] = hr.failed[:8]
            failed.append((hr, rec))
        else:
            ctx.queries['unknown'] += 1
            rec['detail'] = hr.error
            ctx.inconclusive.append('kani harness %s: %s' % (name, hr.error))
        if hr.status != 'failed':
            # a failed harness is decided by replay, its covers say nothing
            for desc, st in hr.covers:
                ctx.note_witness('%s: %s' % (name, desc), st == 'Satisfied')
                if st == 'Satisfied':
                    ctx.queries['sat'] += 1
        ctx.obligations.append(rec)
    if meta.get('fatal'):
        ctx.inconclusive.append('kani run: ' + meta['fatal'])
    return failed
