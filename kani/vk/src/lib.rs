//! Kani harnesses of the verification framework (engine K). Generated into $VERIF_BUILD and built against $VERIF_REPO
//! with `--cfg slawlor_ractor_verif`; the private kernels are reached through the hook wrappers in /verif/hooks.
#![allow(clippy::all)]
#![allow(unused)]

#[cfg(kani)]
mod elect;
#[cfg(kani)]
mod frame;
#[cfg(kani)]
mod codec;
