//! C19: `checked_frame_length` for every (length, max) pair.
use ractor_cluster::verif_session_probe::verif_frame_len;

/// error paths only format a message: the text is irrelevant to the verdict
fn stub_format(_args: std::fmt::Arguments<'_>) -> String {
    String::new()
}

#[kani::proof]
#[kani::stub(alloc::fmt::format, stub_format)]
#[kani::unwind(2)]
fn frame_len_all_pairs() {
    let len: u64 = kani::any();
    let max: u64 = kani::any();
    let r = verif_frame_len(len, max);
    let fits = len <= max && len <= isize::MAX as u64;
    match r {
        Some(n) => {
            assert!(fits, "accepted frame exceeds the limit or isize::MAX");
            assert!(n as u64 == len, "accepted length differs from the wire length");
        }
        None => assert!(!fits, "frame within the limit rejected"),
    }
    kani::cover!(r.is_some() && len > 0 && len == max, "frame exactly at the limit accepted");
    kani::cover!(r.is_none() && len <= max, "frame within max rejected (isize::MAX gate)");
    kani::cover!(r.is_none() && len == max.wrapping_add(1), "frame one byte over the limit rejected");
}
