//! C18: `elect_sessions` through the hook wrapper `ractor_cluster::node::verif_probe::verif_elect`.
//!
//! A *physical connection* i has an initiator and a nonce. Node A sees it as `(pa[i], srv[i], nonce[i])`, node B sees the
//! same connection as `(pb[i], !srv[i], nonce[i])` (local actor ids are private to each node, `is_server` is flipped, the
//! nonce is the initiator's and therefore identical). Elected sets are compared as bit masks over the index i.
use ractor_cluster::node::verif_probe::verif_elect;

/// two distinct node names sharing a prefix (the comparison has to look past the first byte)
const LOW: &str = "n1";
const HIGH: &str = "n2";

struct Res {
    /// bit i set <=> the candidate with index i was elected
    mask: u8,
    /// an elected id that is not among the candidates
    foreign: bool,
    /// an id elected twice
    dup: bool,
}

fn classify<const N: usize>(pids: &[u64; N], elected: &[u64]) -> Res {
    let mut r = Res { mask: 0, foreign: elected.len() > N, dup: false };
    let mut k = 0;
    while k < N {
        if k < elected.len() {
            let e = elected[k];
            let mut hit = false;
            let mut i = 0;
            while i < N {
                if pids[i] == e {
                    hit = true;
                    if r.mask & (1 << i) != 0 {
                        r.dup = true;
                    }
                    r.mask |= 1 << i;
                }
                i += 1;
            }
            if !hit {
                r.foreign = true;
            }
        }
        k += 1;
    }
    r
}

fn distinct<const N: usize>(v: &[u64; N]) -> bool {
    let mut ok = true;
    let mut i = 0;
    while i < N {
        let mut j = i + 1;
        while j < N {
            if v[i] == v[j] {
                ok = false;
            }
            j += 1;
        }
        i += 1;
    }
    ok
}

fn all_nonzero<const N: usize>(v: &[u64; N]) -> bool {
    let mut ok = true;
    let mut i = 0;
    while i < N {
        if v[i] == 0 {
            ok = false;
        }
        i += 1;
    }
    ok
}

/// (a) the elected set does not depend on the order in which the candidates are examined (input permuted by `perm`),
/// (c) it is a non-empty, duplicate-free subset of the candidates.
fn perm_harness<const N: usize>(perm: [usize; N]) {
    let srv: [bool; N] = kani::any();
    let nonce: [u64; N] = kani::any();
    let pid: [u64; N] = kani::any();
    kani::assume(distinct(&pid));
    let this_is_low: bool = kani::any();
    let (this, peer) = if this_is_low { (LOW, HIGH) } else { (HIGH, LOW) };
    let mut c0 = [(0u64, false, 0u64); N];
    let mut i = 0;
    while i < N {
        c0[i] = (pid[i], srv[i], nonce[i]);
        i += 1;
    }
    let mut c1 = c0;
    let mut i = 0;
    while i < N {
        c1[i] = c0[perm[i]];
        i += 1;
    }
    let e0 = verif_elect(this, peer, &c0);
    let e1 = verif_elect(this, peer, &c1);
    let r0 = classify(&pid, &e0);
    let r1 = classify(&pid, &e1);
    assert!(!r0.foreign && !r1.foreign, "elected id that is not a candidate");
    assert!(!r0.dup && !r1.dup, "candidate elected twice");
    assert!(r0.mask != 0 && r1.mask != 0, "non-empty input elected nobody");
    assert!(r0.mask == r1.mask, "elected set depends on the examination order");
    // reachability: an accepting-side tie broken by actor id, the survivor is not the first candidate examined
    kani::cover!(
        r0.mask.count_ones() == 1 && r0.mask & 1 == 0 && srv[0] && nonce[0] == nonce[N - 1] && srv[N - 1],
        "accepting-side tie resolved in favour of a later candidate"
    );
    kani::cover!(r0.mask.count_ones() as usize == N, "initiator-side tie keeps every candidate");
    std::mem::forget(e0);
    std::mem::forget(e1);
}

/// (b) mirrored agreement between the two endpoints of the same multiset of physical connections.
fn mirror_harness<const N: usize>() {
    let srv: [bool; N] = kani::any(); // as seen by node A: true <=> B initiated, A accepted
    let nonce: [u64; N] = kani::any();
    let pa: [u64; N] = kani::any();
    let pb: [u64; N] = kani::any();
    kani::assume(distinct(&pa));
    kani::assume(distinct(&pb));
    let a_is_low: bool = kani::any();
    let (name_a, name_b) = if a_is_low { (LOW, HIGH) } else { (HIGH, LOW) };
    let mut ca = [(0u64, false, 0u64); N];
    let mut cb = [(0u64, false, 0u64); N];
    let mut i = 0;
    while i < N {
        ca[i] = (pa[i], srv[i], nonce[i]);
        cb[i] = (pb[i], !srv[i], nonce[i]);
        i += 1;
    }
    let ea = verif_elect(name_a, name_b, &ca);
    let eb = verif_elect(name_b, name_a, &cb);
    let ra = classify(&pa, &ea);
    let rb = classify(&pb, &eb);
    assert!(!ra.foreign && !rb.foreign && !ra.dup && !rb.dup, "malformed election result");
    assert!(ra.mask != 0 && rb.mask != 0, "a node closes every connection to its peer");

    // b1: every connection surviving at either node has the same initiator
    let union = ra.mask | rb.mask;
    let mut any_srv = false;
    let mut any_cli = false;
    let mut i = 0;
    while i < N {
        if union & (1 << i) != 0 {
            if srv[i] {
                any_srv = true;
            } else {
                any_cli = true;
            }
        }
        i += 1;
    }
    assert!(!(any_srv && any_cli), "the nodes retain connections of opposite direction");
    // the accepting endpoint of the retained direction: A if A sees them as is_server
    let (acc, ini) = if any_srv { (ra.mask, rb.mask) } else { (rb.mask, ra.mask) };
    // b2: the accepting endpoint resolves to exactly one connection ...
    assert!(acc.count_ones() == 1, "accepting endpoint does not settle on exactly one connection");
    // b3: ... which the initiating endpoint has not closed
    assert!(acc & ini == acc, "the connection kept by the accepting endpoint was closed by the initiator");
    // b4: the initiator keeps alive only what it cannot tell apart from the survivor (same nonce: repeated or legacy)
    let mut w = 0;
    let mut i = 0;
    while i < N {
        if acc & (1 << i) != 0 {
            w = i;
        }
        i += 1;
    }
    let mut i = 0;
    while i < N {
        if ini & (1 << i) != 0 {
            assert!(nonce[i] == nonce[w], "initiator keeps a connection whose nonce differs from the survivor's");
        }
        i += 1;
    }
    // b5: distinct non-zero nonces: both nodes keep the same single connection at once
    if distinct(&nonce) && all_nonzero(&nonce) {
        assert!(ra.mask == rb.mask && ra.mask.count_ones() == 1, "distinct nonces but the nodes disagree");
    }
    // reachability witnesses
    let mixed = {
        let mut s = false;
        let mut c = false;
        let mut i = 0;
        while i < N {
            if srv[i] {
                s = true;
            } else {
                c = true;
            }
            i += 1;
        }
        s && c
    };
    kani::cover!(ini.count_ones() > 1, "initiator-side tie stays alive while the accepting side has chosen");
    kani::cover!(mixed && ra.mask == rb.mask, "simultaneous dial from both sides resolved to one connection");
    std::mem::forget(ea);
    std::mem::forget(eb);
}

#[kani::proof]
#[kani::unwind(3)]
fn elect2_perm_swap() {
    perm_harness::<2>([1, 0]);
}

#[kani::proof]
#[kani::unwind(3)]
fn elect2_mirror() {
    mirror_harness::<2>();
}

#[kani::proof]
#[kani::unwind(4)]
fn elect3_perm_swap() {
    perm_harness::<3>([1, 0, 2]);
}

#[kani::proof]
#[kani::unwind(4)]
fn elect3_perm_rot() {
    perm_harness::<3>([1, 2, 0]);
}

#[kani::proof]
#[kani::unwind(4)]
fn elect3_mirror() {
    mirror_harness::<3>();
}
