//! C19: `ractor::BytesConvertable` (feature `cluster`, non-serde implementations) round-trips and decode totality.
//!
//! What the code promises for malformed input: the trait says "Panics are acceptable"; scalar `from_bytes` indexes
//! `bytes[..size_of::<T>()]`, `char` / `String` / `Vec<char>` unwrap a validity check. None of that is claimed here. The
//! vector decoders of fixed-width numerics and `bool` are written to be total (`len / size` complete elements, trailing
//! bytes ignored): that *is* claimed, for every byte string up to the bound.
//!
//! Lengths are symbolic (`len <= N`); the harness dispatches on the symbolic length to a body instantiated with that
//! length as a constant, so every path through the code under test sees concrete allocation sizes (a symbolic-size
//! `vec![0u8; len * size]` makes the SAT instance 20-50x slower: 278 s against 11 s for `Vec<u16>`, N = 4).
use ractor::BytesConvertable;

// ------------------------------------------------------------------------------------------------ scalars
macro_rules! rt_int {
    ($name:ident, $ty:ty) => {
        #[kani::proof]
        #[kani::unwind(4)]
        fn $name() {
            let v: $ty = kani::any();
            let b = <$ty as BytesConvertable>::into_bytes(v);
            assert!(b.len() == std::mem::size_of::<$ty>(), "encoded width");
            let w = <$ty as BytesConvertable>::from_bytes(b);
            assert!(w == v, "scalar round-trip");
            kani::cover!(v != 0 && w == v, "non-zero value round-trips");
        }
    };
}
rt_int!(rt_u8, u8);
rt_int!(rt_u16, u16);
rt_int!(rt_u32, u32);
rt_int!(rt_u64, u64);
rt_int!(rt_u128, u128);
rt_int!(rt_i8, i8);
rt_int!(rt_i16, i16);
rt_int!(rt_i32, i32);
rt_int!(rt_i64, i64);
rt_int!(rt_i128, i128);

macro_rules! rt_float {
    ($name:ident, $ty:ty) => {
        #[kani::proof]
        #[kani::unwind(4)]
        fn $name() {
            let v: $ty = kani::any();
            let b = <$ty as BytesConvertable>::into_bytes(v);
            assert!(b.len() == std::mem::size_of::<$ty>(), "encoded width");
            let w = <$ty as BytesConvertable>::from_bytes(b);
            assert!(w.to_bits() == v.to_bits(), "float round-trip (bit pattern, NaN payloads included)");
            kani::cover!(v.is_nan() && w.to_bits() == v.to_bits(), "NaN round-trips bit-exactly");
        }
    };
}
rt_float!(rt_f32, f32);
rt_float!(rt_f64, f64);

#[kani::proof]
#[kani::unwind(4)]
fn rt_bool_char_unit() {
    let v: bool = kani::any();
    let b = v.into_bytes();
    assert!(b.len() == 1, "bool is one byte");
    assert!(<bool as BytesConvertable>::from_bytes(b) == v, "bool round-trip");
    let c: char = kani::any();
    let b = c.into_bytes();
    assert!(b.len() == 4, "char is four bytes");
    assert!(<char as BytesConvertable>::from_bytes(b) == c, "char round-trip");
    let b = ().into_bytes();
    assert!(b.is_empty(), "unit is empty");
    <() as BytesConvertable>::from_bytes(b);
    kani::cover!(v && c as u32 > 0xFFFF, "true and a supplementary-plane char");
}

// ------------------------------------------------------------------------------------------------ vectors
fn eq_plain<T: PartialEq>(a: &T, b: &T) -> bool {
    a == b
}
fn eq_f32(a: &f32, b: &f32) -> bool {
    a.to_bits() == b.to_bits()
}
fn eq_f64(a: &f64, b: &f64) -> bool {
    a.to_bits() == b.to_bits()
}

/// `Vec<T>` of exactly L elements taken from `arr`: encoded length, element order and values survive the round trip
macro_rules! rt_vec_body {
    ($fname:ident, $ty:ty, $eq:expr) => {
        fn $fname<const L: usize, const N: usize>(arr: &[$ty; N]) {
            let v: Vec<$ty> = arr[..L].to_vec();
            let b = <Vec<$ty> as BytesConvertable>::into_bytes(v);
            assert!(b.len() == L * std::mem::size_of::<$ty>(), "encoded length");
            let w = <Vec<$ty> as BytesConvertable>::from_bytes(b);
            assert!(w.len() == L, "decoded element count");
            let eq: fn(&$ty, &$ty) -> bool = $eq;
            let mut i = 0;
            while i < L {
                assert!(eq(&w[i], &arr[i]), "element round-trip");
                i += 1;
            }
            std::mem::forget(w);
        }
    };
}

macro_rules! rt_vec {
    ($fname:ident, $ty:ty, $eq:expr, $h2:ident, $h4:ident) => {
        rt_vec_body!($fname, $ty, $eq);
        /// 0..=2 elements (quick tier)
        #[kani::proof]
        #[kani::unwind(5)]
        fn $h2() {
            let arr: [$ty; 2] = kani::any();
            let len: usize = kani::any();
            kani::assume(len <= 2);
            match len {
                0 => $fname::<0, 2>(&arr),
                1 => $fname::<1, 2>(&arr),
                _ => $fname::<2, 2>(&arr),
            }
            let eq: fn(&$ty, &$ty) -> bool = $eq;
            kani::cover!(len == 2 && !eq(&arr[0], &arr[1]), "full-length vector with distinct elements");
        }
        /// 0..=4 elements (thorough tier)
        #[kani::proof]
        #[kani::unwind(7)]
        fn $h4() {
            let arr: [$ty; 4] = kani::any();
            let len: usize = kani::any();
            kani::assume(len <= 4);
            match len {
                0 => $fname::<0, 4>(&arr),
                1 => $fname::<1, 4>(&arr),
                2 => $fname::<2, 4>(&arr),
                3 => $fname::<3, 4>(&arr),
                _ => $fname::<4, 4>(&arr),
            }
            let eq: fn(&$ty, &$ty) -> bool = $eq;
            kani::cover!(len == 4 && !eq(&arr[0], &arr[3]), "full-length vector with distinct ends");
        }
    };
}
rt_vec!(rtv_u8, u8, eq_plain, rtv2_u8, rtv4_u8);
rt_vec!(rtv_u16, u16, eq_plain, rtv2_u16, rtv4_u16);
rt_vec!(rtv_u32, u32, eq_plain, rtv2_u32, rtv4_u32);
rt_vec!(rtv_u64, u64, eq_plain, rtv2_u64, rtv4_u64);
rt_vec!(rtv_u128, u128, eq_plain, rtv2_u128, rtv4_u128);
rt_vec!(rtv_i8, i8, eq_plain, rtv2_i8, rtv4_i8);
rt_vec!(rtv_i16, i16, eq_plain, rtv2_i16, rtv4_i16);
rt_vec!(rtv_i32, i32, eq_plain, rtv2_i32, rtv4_i32);
rt_vec!(rtv_i64, i64, eq_plain, rtv2_i64, rtv4_i64);
rt_vec!(rtv_i128, i128, eq_plain, rtv2_i128, rtv4_i128);
rt_vec!(rtv_f32, f32, eq_f32, rtv2_f32, rtv4_f32);
rt_vec!(rtv_f64, f64, eq_f64, rtv2_f64, rtv4_f64);
rt_vec!(rtv_bool, bool, eq_plain, rtv2_bool, rtv4_bool);
rt_vec!(rtv_char, char, eq_plain, rtv2_char, rtv4_char);

/// `String` of exactly L bytes of valid UTF-8
fn rt_string_body<const L: usize, const N: usize>(arr: &[u8; N]) {
    kani::assume(std::str::from_utf8(&arr[..L]).is_ok());
    let s = String::from_utf8(arr[..L].to_vec()).unwrap();
    let b = <String as BytesConvertable>::into_bytes(s);
    assert!(b.len() == L, "encoded length");
    let t = <String as BytesConvertable>::from_bytes(b);
    assert!(t.len() == L, "decoded length");
    let tb = t.as_bytes();
    let mut i = 0;
    while i < L {
        assert!(tb[i] == arr[i], "byte round-trip");
        i += 1;
    }
    std::mem::forget(t);
}

#[kani::proof]
#[kani::unwind(5)]
fn rts2() {
    let arr: [u8; 2] = kani::any();
    let len: usize = kani::any();
    kani::assume(len <= 2);
    match len {
        0 => rt_string_body::<0, 2>(&arr),
        1 => rt_string_body::<1, 2>(&arr),
        _ => rt_string_body::<2, 2>(&arr),
    }
    kani::cover!(len == 2 && arr[0] >= 0x80, "two-byte string consisting of one multi-byte sequence");
}

#[kani::proof]
#[kani::unwind(7)]
fn rts4() {
    let arr: [u8; 4] = kani::any();
    let len: usize = kani::any();
    kani::assume(len <= 4);
    match len {
        0 => rt_string_body::<0, 4>(&arr),
        1 => rt_string_body::<1, 4>(&arr),
        2 => rt_string_body::<2, 4>(&arr),
        3 => rt_string_body::<3, 4>(&arr),
        _ => rt_string_body::<4, 4>(&arr),
    }
    kani::cover!(len == 4 && arr[0] >= 0xF0, "four-byte string consisting of one supplementary-plane char");
}

// ------------------------------------------------------------------------------------------------ decode totality
/// `Vec<T>::from_bytes` on a byte string of exactly L bytes: no panic, `L / size` elements, trailing bytes ignored, and
/// the decoder is the inverse of the encoder on the complete elements: re-encoding the result gives back the first
/// `(L / size) * size` bytes (stated without fixing the byte order, which the property does not mention)
macro_rules! total_vec_body {
    ($fname:ident, $ty:ty) => {
        fn $fname<const L: usize, const M: usize>(arr: &[u8; M]) {
            const SZ: usize = std::mem::size_of::<$ty>();
            let w = <Vec<$ty> as BytesConvertable>::from_bytes(arr[..L].to_vec());
            assert!(w.len() == L / SZ, "decoded element count = number of complete elements");
            let b = <Vec<$ty> as BytesConvertable>::into_bytes(w);
            assert!(b.len() == (L / SZ) * SZ, "re-encoded length");
            let mut k = 0;
            while k < (L / SZ) * SZ {
                assert!(b[k] == arr[k], "re-encoding the decoded elements reproduces the input bytes");
                k += 1;
            }
            std::mem::forget(b);
        }
    };
}

macro_rules! dispatch {
    ($f:ident, $len:expr, $arr:expr, $m:expr; $($l:literal),*) => {
        match $len {
            $($l => $f::<$l, $m>($arr),)*
            _ => unreachable!(),
        }
    };
}

macro_rules! total_vec {
    ($fname:ident, $ty:ty, $h6:ident, $h9:ident) => {
        total_vec_body!($fname, $ty);
        /// every byte string of 0..=6 bytes (quick tier)
        #[kani::proof]
        #[kani::unwind(10)]
        fn $h6() {
            let arr: [u8; 6] = kani::any();
            let len: usize = kani::any();
            kani::assume(len <= 6);
            dispatch!($fname, len, &arr, 6; 0, 1, 2, 3, 4, 5, 6);
            kani::cover!(len == 6, "longest buffer");
            kani::cover!(len % std::mem::size_of::<$ty>() != 0, "buffer with a trailing partial element");
        }
        /// every byte string of 0..=9 bytes (thorough tier; 9 = one complete 8-byte element and a trailing byte)
        #[kani::proof]
        #[kani::unwind(12)]
        fn $h9() {
            let arr: [u8; 9] = kani::any();
            let len: usize = kani::any();
            kani::assume(len <= 9);
            dispatch!($fname, len, &arr, 9; 0, 1, 2, 3, 4, 5, 6, 7, 8, 9);
            kani::cover!(len == 9, "longest buffer");
            kani::cover!(len % std::mem::size_of::<$ty>() != 0, "buffer with a trailing partial element");
        }
    };
}
total_vec!(tot_u16, u16, tot6_u16, tot9_u16);
total_vec!(tot_u32, u32, tot6_u32, tot9_u32);
total_vec!(tot_u64, u64, tot6_u64, tot9_u64);
total_vec!(tot_i16, i16, tot6_i16, tot9_i16);
total_vec!(tot_i32, i32, tot6_i32, tot9_i32);
total_vec!(tot_i64, i64, tot6_i64, tot9_i64);

/// `Vec<bool>` / `Vec<u8>` decoders on exactly L bytes
fn total_bool_u8_body<const L: usize, const M: usize>(arr: &[u8; M]) {
    let w = <Vec<bool> as BytesConvertable>::from_bytes(arr[..L].to_vec());
    let u = <Vec<u8> as BytesConvertable>::from_bytes(arr[..L].to_vec());
    assert!(w.len() == L && u.len() == L, "one element per byte");
    let mut i = 0;
    while i < L {
        // only the two canonical encodings are pinned down; what other bytes decode to is not part of the property
        assert!(arr[i] != 1 || w[i], "the encoding of true decodes to true");
        assert!(arr[i] != 0 || !w[i], "the encoding of false decodes to false");
        assert!(u[i] == arr[i], "u8 element is the byte");
        i += 1;
    }
    std::mem::forget(w);
    std::mem::forget(u);
}

#[kani::proof]
#[kani::unwind(10)]
fn tot6_bool_u8() {
    let arr: [u8; 6] = kani::any();
    let len: usize = kani::any();
    kani::assume(len <= 6);
    dispatch!(total_bool_u8_body, len, &arr, 6; 0, 1, 2, 3, 4, 5, 6);
    kani::cover!(len == 6 && arr[0] > 1, "longest buffer containing a non-canonical bool byte");
}

#[kani::proof]
#[kani::unwind(12)]
fn tot9_bool_u8() {
    let arr: [u8; 9] = kani::any();
    let len: usize = kani::any();
    kani::assume(len <= 9);
    dispatch!(total_bool_u8_body, len, &arr, 9; 0, 1, 2, 3, 4, 5, 6, 7, 8, 9);
    kani::cover!(len == 9 && arr[0] > 1, "longest buffer containing a non-canonical bool byte");
}

/// `Vec<char>::from_bytes` panics by contract on an invalid scalar value, so arbitrary buffers are outside the claim; what is
/// claimed: the encoding of C chars followed by T < 4 arbitrary trailing bytes decodes to exactly those C chars
fn total_char_body<const C: usize, const T: usize, const MC: usize, const MT: usize>(chars: &[char; MC], trail: &[u8; MT]) {
    let mut raw = <Vec<char> as BytesConvertable>::into_bytes(chars[..C].to_vec());
    assert!(raw.len() == 4 * C, "encoded length");
    raw.extend_from_slice(&trail[..T]);
    let w = <Vec<char> as BytesConvertable>::from_bytes(raw);
    assert!(w.len() == C, "decoded element count = number of complete elements");
    let mut i = 0;
    while i < C {
        assert!(w[i] == chars[i], "char element survives trailing bytes");
        i += 1;
    }
    std::mem::forget(w);
}

#[kani::proof]
#[kani::unwind(6)]
fn tot6_char() {
    let chars: [char; 1] = kani::any();
    let trail: [u8; 2] = kani::any();
    let c: usize = kani::any();
    let t: usize = kani::any();
    kani::assume(c <= 1 && t <= 2);
    match (c, t) {
        (0, 0) => total_char_body::<0, 0, 1, 2>(&chars, &trail),
        (0, 1) => total_char_body::<0, 1, 1, 2>(&chars, &trail),
        (0, 2) => total_char_body::<0, 2, 1, 2>(&chars, &trail),
        (1, 0) => total_char_body::<1, 0, 1, 2>(&chars, &trail),
        (1, 1) => total_char_body::<1, 1, 1, 2>(&chars, &trail),
        _ => total_char_body::<1, 2, 1, 2>(&chars, &trail),
    }
    kani::cover!(c == 1 && t == 2 && chars[0] as u32 > 0xFFFF, "supplementary-plane char followed by two stray bytes");
}

#[kani::proof]
#[kani::unwind(7)]
fn tot11_char() {
    let chars: [char; 2] = kani::any();
    let trail: [u8; 3] = kani::any();
    let c: usize = kani::any();
    let t: usize = kani::any();
    kani::assume(c <= 2 && t <= 3);
    match (c, t) {
        (0, 0) => total_char_body::<0, 0, 2, 3>(&chars, &trail),
        (0, 1) => total_char_body::<0, 1, 2, 3>(&chars, &trail),
        (0, 2) => total_char_body::<0, 2, 2, 3>(&chars, &trail),
        (0, 3) => total_char_body::<0, 3, 2, 3>(&chars, &trail),
        (1, 0) => total_char_body::<1, 0, 2, 3>(&chars, &trail),
        (1, 1) => total_char_body::<1, 1, 2, 3>(&chars, &trail),
        (1, 2) => total_char_body::<1, 2, 2, 3>(&chars, &trail),
        (1, 3) => total_char_body::<1, 3, 2, 3>(&chars, &trail),
        (2, 0) => total_char_body::<2, 0, 2, 3>(&chars, &trail),
        (2, 1) => total_char_body::<2, 1, 2, 3>(&chars, &trail),
        (2, 2) => total_char_body::<2, 2, 2, 3>(&chars, &trail),
        _ => total_char_body::<2, 3, 2, 3>(&chars, &trail),
    }
    kani::cover!(c == 2 && t == 3 && chars[0] != chars[1], "two distinct chars followed by three stray bytes");
}
