//! one or more `choose_target_worker` calls on a real router with explicit state (C14 replays)
use crate::Args;
use ractor::factory::routing::verif_probe as rp;

pub fn run(a: &Args) {
    let router = a.str("router").to_string();
    let deque: Vec<usize> = a.list_u128("deque").into_iter().map(|x| x as usize).collect();
    let flags: Vec<bool> = a.list_u128("flags").into_iter().map(|x| x == 1).collect();
    let pool: Vec<(usize, String)> = a.str("pool").split('+').filter(|s| !s.is_empty()).map(|s| { let (w, k) = s.split_once('=').unwrap(); (w.parse().unwrap(), k.to_string()) }).collect();
    let hint = a.opt_u128("hint").map(|x| x as usize);
    let rt = tokio::runtime::Builder::new_current_thread().enable_time().build().unwrap();
    let out = rt.block_on(rp::choose(&router, &deque, &flags, a.usize("last"), a.usize("hash"), a.u64("key"), a.usize("pool_size"), hint, &pool, a.usize("calls")));
    println!("out={}", out.replace('=', ":"));
}

/// route_kp workers=<wid:q.q:c.c;..> key=<k> pool_size=<n> hint=<w|none>
pub fn route_kp(a: &Args) {
    let lst = |s: &str| -> Vec<u64> { s.split('.').filter(|x| !x.is_empty()).map(|x| x.parse().unwrap()).collect() };
    let workers: Vec<(usize, Vec<u64>, Vec<u64>)> = a
        .str("workers")
        .split(';')
        .filter(|s| !s.is_empty())
        .map(|s| {
            let p: Vec<&str> = s.split(':').collect();
            (p[0].parse().unwrap(), lst(p[1]), lst(p[2]))
        })
        .collect();
    let hint = a.opt_u128("hint").map(|x| x as usize);
    let rt = tokio::runtime::Builder::new_current_thread().enable_time().build().unwrap();
    let router = if a.str("router").is_empty() { "key_persistent" } else { a.str("router") };
    let out = rt.block_on(rp::route_step(router, &workers, a.u64("key"), a.usize("pool_size"), hint));
    println!("out={}", out.replace('=', "~"));
}

/// dead_window router=<key_persistent|sticky>
pub fn dead_window(a: &Args) {
    let rt = tokio::runtime::Builder::new_current_thread().enable_time().build().unwrap();
    let out = rt.block_on(rp::dead_worker_window(a.str("router")));
    println!("out={}", out.replace('=', "~"));
}
