//! Schedule replay of the exit path against waiters (C06): a real registered ActorCell with a supervisor, a child and a
//! process-group membership; exiter = lifecycle guard `finish`, waiters = `ActorProperties::wait()` on OS threads.
use crate::Args;
use ractor::verif_hooks as vh;
use ractor::verif_hooks::lifecycle as lc;
use std::sync::mpsc;
use std::time::Duration;

pub fn run(a: &Args) {
    let n_waiters = a.usize("waiters");
    let second = a.u64("second") == 1;
    let status0 = a.u64("status0") as u8;
    let schedule: Vec<(usize, String)> = a.labelled_schedule("schedule");
    let name = format!("c06-replay-{}", std::process::id());
    let group = format!("c06-group-{}", std::process::id());
    let sup = lc::husk(None, 2);
    let child = lc::husk(None, 2);
    let mut actor = lc::husk(Some(name.clone()), status0);
    actor.cell.link(sup.cell.clone());
    child.cell.link(actor.cell.clone());
    ractor::pg::join(group.clone(), vec![actor.cell.clone()]);
    let sup_ports = sup.ports();
    let child_ports = child.ports();
    let n_writers = 1 + second as usize;
    if n_waiters == 0 {
        // start-up transitions racing with drain(): thread 0 = set_status(Starting), set_status(Running); thread 1 = drain()
        actor.forget_guard();
        vh::install_labelled_schedule(schedule, 2);
        let cell = actor.cell.clone();
        let j = std::thread::spawn(move || {
            vh::enter_thread(1);
            let _ = cell.drain();
            vh::leave_thread();
        });
        vh::enter_thread(0);
        lc::verif_set_status(&actor.cell, 1);
        lc::verif_set_status(&actor.cell, 2);
        vh::leave_thread();
        let _ = j.join();
        let log = vh::take_log();
        println!("final_status={}", actor.cell.get_status() as u8);
        println!("log={}", log.iter().map(|(t, l)| format!("{}:{}", if *t == usize::MAX { 99 } else { *t }, l)).collect::<Vec<_>>().join(","));
        std::process::exit(0);
    }
    let threads = n_writers + n_waiters;
    vh::install_labelled_schedule(schedule, threads);
    {
        let c = actor.cell.clone();
        vh::set_observer(Box::new(move || lc::verif_raw_status(&c) as u64));
    }
    let (tx, rx) = mpsc::channel::<(usize, String)>();
    let mut joins = Vec::new();
    for w in 0..n_waiters {
        let cell = actor.cell.clone();
        let tx = tx.clone();
        let name = name.clone();
        let group = group.clone();
        let sup_ports = sup_ports.clone();
        let child_cell = child.cell.clone();
        let idx = n_writers + w;
        joins.push(std::thread::spawn(move || {
            vh::enter_thread(idx);
            lc::verif_wait_blocking(&cell);
            // observations at the moment wait() returned
            let status = cell.get_status() as u8;
            let named = ractor::registry::where_is(name).is_some();
            let in_group = ractor::pg::get_members(&group).iter().any(|c| c.get_id() == cell.get_id());
            let sup_told = sup_ports.supervision_len() > 0;
            let child_killed = lc::verif_signal_taken(&child_cell);
            let has_sup = cell.try_get_supervisor().is_some();
            vh::leave_thread();
            let _ = tx.send((w, format!("status={} named={} in_group={} sup_told={} child_killed={} has_sup={}", status, named as u8, in_group as u8, sup_told as u8, child_killed as u8, has_sup as u8)));
        }));
    }
    let writer2 = if second {
        let cell = actor.cell.clone();
        Some(std::thread::spawn(move || {
            vh::enter_thread(1);
            let _ = cell.drain();
            vh::leave_thread();
        }))
    } else {
        None
    };
    vh::enter_thread(0);
    lc::verif_set_status(&actor.cell, 5);
    actor.finish();
    vh::leave_thread();
    if let Some(j) = writer2 {
        let _ = j.join();
    }
    drop(tx);
    let mut seen = vec![false; n_waiters];
    let deadline = std::time::Instant::now() + Duration::from_secs(4);
    loop {
        let left = deadline.saturating_duration_since(std::time::Instant::now());
        match rx.recv_timeout(left) {
            Ok((w, obs)) => {
                seen[w] = true;
                println!("waiter{}={}", w, obs.replace(' ', ";"));
            }
            Err(_) => break,
        }
        if seen.iter().all(|x| *x) {
            break;
        }
    }
    for (w, s) in seen.iter().enumerate() {
        if !*s {
            println!("waiter{}=STUCK", w);
        }
    }
    let log = vh::take_log();
    println!("final_status={}", actor.cell.get_status() as u8);
    println!("status_samples={}", vh::take_samples().iter().map(|x| x.to_string()).collect::<Vec<_>>().join(","));
    println!("sup_events={}", sup_ports.supervision_len());
    println!("child_signalled={}", child_ports.signalled() as u8);
    println!("log={}", log.iter().map(|(t, l)| format!("{}:{}", if *t == usize::MAX { 99 } else { *t }, l)).collect::<Vec<_>>().join(","));
    // stuck waiter threads are detached: exit the process without joining them
    std::process::exit(0);
}
