//! C06 wrapper slice: the public wait wrappers on real actors.
use crate::Args;
use ractor::{Actor, ActorProcessingErr, ActorRef, ActorStatus};
use std::sync::atomic::{AtomicUsize, Ordering};
use std::sync::Arc;
use std::time::Duration;

struct Slow {
    handled: Arc<AtomicUsize>,
    post_stop_ms: u64,
}
impl Actor for Slow {
    type Msg = u64;
    type State = ();
    type Arguments = ();
    async fn pre_start(&self, _: ActorRef<u64>, _: ()) -> Result<(), ActorProcessingErr> {
        Ok(())
    }
    async fn handle(&self, _: ActorRef<u64>, m: u64, _: &mut ()) -> Result<(), ActorProcessingErr> {
        tokio::time::sleep(Duration::from_millis(m)).await;
        self.handled.fetch_add(1, Ordering::SeqCst);
        Ok(())
    }
    async fn post_stop(&self, _: ActorRef<u64>, _: &mut ()) -> Result<(), ActorProcessingErr> {
        tokio::time::sleep(Duration::from_millis(self.post_stop_ms)).await;
        Ok(())
    }
}

/// wait_wrappers : each wrapper once without and once with a timeout that fires; prints one `<case>=<result>/<status at return>/<status later>/<handled>` line per case
pub fn run(_a: &Args) {
    let rt = tokio::runtime::Builder::new_current_thread().enable_time().build().unwrap();
    rt.block_on(async {
        let mk = |ms: u64| async move {
            let handled = Arc::new(AtomicUsize::new(0));
            let (a, h) = Actor::spawn(None, Slow { handled: handled.clone(), post_stop_ms: ms }, ()).await.unwrap();
            (a, h, handled)
        };
        let st = |a: &ActorRef<u64>| a.get_status() as u8;
        // plain wait with a timeout on a running actor: reports the timeout, the actor keeps running
        let (a, _h, n) = mk(0).await;
        let r = a.wait(Some(Duration::from_millis(20))).await;
        let s0 = st(&a);
        let _ = a.cast(1);
        tokio::time::sleep(Duration::from_millis(30)).await;
        println!("wait_timeout={}/{}/{}/{}", if r.is_err() { "timeout" } else { "ok" }, s0, st(&a), n.load(Ordering::SeqCst));
        a.stop(None);
        // stop_and_wait without a timeout: Ok only once the actor is Stopped
        let (a, _h, n) = mk(40).await;
        let r = a.stop_and_wait(Some("why".to_string()), None).await;
        println!("stop_and_wait={}/{}/{}/{}", if r.is_ok() { "ok" } else { "err" }, st(&a), st(&a), n.load(Ordering::SeqCst));
        // stop_and_wait with a timeout shorter than post_stop: Timeout now, the stop still goes through on its own
        let (a, _h, n) = mk(80).await;
        let r = a.stop_and_wait(None, Some(Duration::from_millis(20))).await;
        let s0 = st(&a);
        tokio::time::sleep(Duration::from_millis(120)).await;
        println!("stop_and_wait_timeout={}/{}/{}/{}", match r { Err(ractor::RactorErr::Timeout) => "timeout", Ok(()) => "ok", Err(_) => "err" }, s0, st(&a), n.load(Ordering::SeqCst));
        // kill_and_wait: Ok only once Stopped
        let (a, _h, n) = mk(0).await;
        let r = a.kill_and_wait(None).await;
        println!("kill_and_wait={}/{}/{}/{}", if r.is_ok() { "ok" } else { "err" }, st(&a), st(&a), n.load(Ordering::SeqCst));
        // drain_and_wait: the queued messages are handled first
        let (a, _h, n) = mk(0).await;
        let _ = a.cast(5);
        let _ = a.cast(5);
        let r = a.drain_and_wait(None).await;
        println!("drain_and_wait={}/{}/{}/{}", if r.is_ok() { "ok" } else { "err" }, st(&a), st(&a), n.load(Ordering::SeqCst));
        // a second stop_and_wait on the stopped actor: an error (nothing to stop), not a hang
        let r = tokio::time::timeout(Duration::from_millis(200), a.stop_and_wait(None, None)).await;
        println!("stop_and_wait_dead={}/{}/{}/{}", match r { Err(_) => "hang", Ok(Ok(())) => "ok", Ok(Err(_)) => "err" }, st(&a), st(&a), n.load(Ordering::SeqCst));
        let _ = ActorStatus::Stopped;
    });
}
