//! C06 wrapper slice: the public wait wrappers on real actors.
use crate::Args;
use ractor::{Actor, ActorProcessingErr, ActorRef, ActorStatus};
use std::sync::atomic::{AtomicUsize, Ordering};
use std::sync::Arc;
use std::time::Duration;

struct Slow {
    handled: Arc<AtomicUsize>,
    post_stop_ms: u64,
}
impl Actor for Slow {
    type Msg = u64;
    type State = ();
    type Arguments = ();
    async fn pre_start(&self, _: ActorRef<u64>, _: ()) -> Result<(), ActorProcessingErr> {
        Ok(())
    }
    async fn handle(&self, _: ActorRef<u64>, m: u64, _: &mut ()) -> Result<(), ActorProcessingErr> {
        tokio::time::sleep(Duration::from_millis(m)).await;
        self.handled.fetch_add(1, Ordering::SeqCst);
        Ok(())
    }
    async fn post_stop(&self, _: ActorRef<u64>, _: &mut ()) -> Result<(), ActorProcessingErr> {
        tokio::time::sleep(Duration::from_millis(self.post_stop_ms)).await;
        Ok(())
    }
}

/// wait_wrappers : each wrapper once without and once with a timeout that fires; prints one `<case>=<result>/<status at return>/<status later>/<handled>` line per case
pub fn run(_a: &Args) {
    let rt = tokio::runtime::Builder::new_current_thread().enable_time().build().unwrap();
    rt.block_on(async {
        let mk = |ms: u64| async move {
            let handled = Arc::new(AtomicUsize::new(0));
            let (a, h) = Actor::spawn(None, Slow { handled: handled.clone(), post_stop_ms: ms }, ()).await.unwrap();
            (a, h, handled)
        };
        let st = |a: &ActorRef<u64>| a.get_status() as u8;
        // plain wait with a timeout on a running actor: reports the timeout, the actor keeps running
        let (a, _h, n) = mk(0).await;
        let r = a.wait(Some(Duration::from_millis(20))).await;
        let s0 = st(&a);
        let _ = a.cast(1);
        tokio::time::sleep(Duration::from_millis(30)).await;
        println!("wait_timeout={}/{}/{}/{}", if r.is_err() { "timeout" } else { "ok" }, s0, st(&a), n.load(Ordering::SeqCst));
        a.stop(None);
        // stop_and_wait without a timeout: Ok only once the actor is Stopped
        let (a, _h, n) = mk(40).await;
        let r = a.stop_and_wait(Some("why".to_string()), None).await;
        println!("stop_and_wait={}/{}/{}/{}", if r.is_ok() { "ok" } else { "err" }, st(&a), st(&a), n.load(Ordering::SeqCst));
        // stop_and_wait with a timeout shorter than post_stop: Timeout now, the stop still goes through on its own
        let (a, _h, n) = mk(80).await;
        let r = a.stop_and_wait(None, Some(Duration::from_millis(20))).await;
        let s0 = st(&a);
        tokio::time::sleep(Duration::from_millis(120)).await;
        println!("stop_and_wait_timeout={}/{}/{}/{}", match r { Err(ractor::RactorErr::Timeout) => "timeout", Ok(()) => "ok", Err(_) => "err" }, s0, st(&a), n.load(Ordering::SeqCst));
        // kill_and_wait: Ok only once Stopped
        let (a, _h, n) = mk(0).await;
        let r = a.kill_and_wait(None).await;
        println!("kill_and_wait={}/{}/{}/{}", if r.is_ok() { "ok" } else { "err" }, st(&a), st(&a), n.load(Ordering::SeqCst));
        // drain_and_wait: the queued messages are handled first
        let (a, _h, n) = mk(0).await;
        let _ = a.cast(5);
        let _ = a.cast(5);
        let r = a.drain_and_wait(None).await;
        println!("drain_and_wait={}/{}/{}/{}", if r.is_ok() { "ok" } else { "err" }, st(&a), st(&a), n.load(Ordering::SeqCst));
        // a second stop_and_wait on the stopped actor: an error (nothing to stop), not a hang
        let r = tokio::time::timeout(Duration::from_millis(200), a.stop_and_wait(None, None)).await;
        println!("stop_and_wait_dead={}/{}/{}/{}", match r { Err(_) => "hang", Ok(Ok(())) => "ok", Ok(Err(_)) => "err" }, st(&a), st(&a), n.load(Ordering::SeqCst));
        let _ = ActorStatus::Stopped;
    });
}

/// C06 guard slice: an actor whose final state's `Drop` panics while the undeliverable terminal event is dropped inside the exit clean-up (no supervisor, or a
/// supervisor that has already stopped). Reports the status when the join handle completes and whether early / late waiters and stop_and_wait return.
struct Bomb;
impl Drop for Bomb {
    fn drop(&mut self) {
        if !std::thread::panicking() {
            panic!("final state panics on drop");
        }
    }
}
struct Fragile;
impl Actor for Fragile {
    type Msg = ();
    type State = Bomb;
    type Arguments = ();
    async fn pre_start(&self, _: ActorRef<()>, _: ()) -> Result<Bomb, ActorProcessingErr> {
        Ok(Bomb)
    }
}
struct Quiet;
impl Actor for Quiet {
    type Msg = ();
    type State = ();
    type Arguments = ();
    async fn pre_start(&self, _: ActorRef<()>, _: ()) -> Result<(), ActorProcessingErr> {
        Ok(())
    }
}

pub fn teardown_panic(a: &Args) {
    let dead_sup = a.u64("dead_sup") == 1;
    let mode = a.str("mode").to_string();
    std::panic::set_hook(Box::new(|_| {}));
    let rt = tokio::runtime::Builder::new_multi_thread().worker_threads(2).enable_all().build().unwrap();
    rt.block_on(async {
        let (actor, handle) = if dead_sup {
            let (sup, sh) = Actor::spawn(None, Quiet, ()).await.unwrap();
            let r = Actor::spawn_linked(None, Fragile, (), sup.get_cell()).await.unwrap();
            // the supervisor's mailbox is closed while the link is still in place: stop it and let its task end, then re-link is not needed - the child is
            // killed by the supervisor's exit, so instead unlink first and close the supervisor afterwards
            r.0.unlink(sup.get_cell());
            sup.stop(None);
            let _ = sh.await;
            r
        } else {
            Actor::spawn(None, Fragile, ()).await.unwrap()
        };
        let early = {
            let a = actor.clone();
            tokio::spawn(async move { a.wait(None).await.is_ok() })
        };
        tokio::task::yield_now().await;
        let req = {
            let a = actor.clone();
            let mode = mode.clone();
            tokio::spawn(async move {
                match mode.as_str() {
                    "drain" => a.drain_and_wait(None).await.is_ok(),
                    _ => a.stop_and_wait(None, None).await.is_ok(),
                }
            })
        };
        let joined = tokio::time::timeout(Duration::from_secs(3), handle).await.is_ok();
        println!("joined={}", joined as u8);
        println!("status_at_join={}", actor.get_status() as u8);
        let e = tokio::time::timeout(Duration::from_secs(3), early).await;
        println!("early_waiter={}", matches!(e, Ok(Ok(true))) as u8);
        let r = tokio::time::timeout(Duration::from_secs(3), req).await;
        println!("request_and_wait={}", matches!(r, Ok(Ok(true))) as u8);
        let l = tokio::time::timeout(Duration::from_secs(3), actor.wait(None)).await;
        println!("late_waiter={}", matches!(l, Ok(Ok(()))) as u8);
        println!("status_later={}", actor.get_status() as u8);
    });
}
