//! the default output port against real subscriber actors (C16 replays)
use crate::Args;
use ractor::{Actor, ActorProcessingErr, ActorRef, OutputPort};
use std::sync::{Arc, Mutex};
use std::time::Duration;

struct Subscriber {
    who: &'static str,
    log: Arc<Mutex<Vec<String>>>,
}
impl Actor for Subscriber {
    type Msg = u64;
    type State = ();
    type Arguments = ();
    async fn pre_start(&self, _: ActorRef<u64>, _: ()) -> Result<(), ActorProcessingErr> {
        Ok(())
    }
    async fn handle(&self, _: ActorRef<u64>, m: u64, _: &mut ()) -> Result<(), ActorProcessingErr> {
        self.log.lock().unwrap().push(format!("{}:{}", self.who, m));
        Ok(())
    }
}

async fn settle() {
    for _ in 0..50 {
        tokio::task::yield_now().await;
    }
    tokio::time::sleep(Duration::from_millis(5)).await;
}

/// outport: fixed script; values whose last digit is 9 are mapped to None by the converter
pub fn run(_a: &Args) {
    let log = Arc::new(Mutex::new(Vec::new()));
    let log2: Arc<Mutex<Vec<String>>> = Arc::new(Mutex::new(Vec::new()));
    let rt = tokio::runtime::Builder::new_current_thread().enable_time().start_paused(true).build().unwrap();
    rt.block_on(async {
        let port = OutputPort::<u64>::default();
        let conv = |v: u64| if v % 10 == 9 { None } else { Some(v) };
        let (a, ah) = Actor::spawn(None, Subscriber { who: "a", log: log.clone() }, ()).await.unwrap();
        let (b, _bh) = Actor::spawn(None, Subscriber { who: "b", log: log.clone() }, ()).await.unwrap();
        port.subscribe(a.clone(), conv);
        settle().await;
        port.send(1);
        port.send(2);
        settle().await;
        port.subscribe(b.clone(), conv);
        settle().await;
        for v in [3u64, 19, 4] {
            port.send(v);
        }
        settle().await;
        a.stop(None);
        let _ = ah.await;
        port.send(5);
        settle().await;
        port.send(6);
        settle().await;
        log.lock().unwrap().push(format!("subs_before_resubscribe:{}", port.verif_subscription_count()));
        // a third subscription prunes the finished one
        let (c, _ch) = Actor::spawn(None, Subscriber { who: "c", log: log.clone() }, ()).await.unwrap();
        port.subscribe(c.clone(), conv);
        log.lock().unwrap().push(format!("subs_after_resubscribe:{}", port.verif_subscription_count()));
        settle().await;
        // a burst larger than the channel's buffer, published without letting the forwarders run: they lag, then continue
        for v in 100u64..130 {
            port.send(v);
        }
        settle().await;
        for v in [200u64, 201] {
            port.send(v);
            settle().await;
        }
    });
    println!("log={}", log.lock().unwrap().join(","));
    starting(&log2);
    instant();
    resubscribe();
}

/// a survivor keeps receiving while others stop and new ones subscribe: subscribe a and b; stop a; publish; subscribe c (prunes a's finished forwarder); stop c;
/// publish; publish three more - b must receive every publication once, in order
fn resubscribe() {
    let log = Arc::new(Mutex::new(Vec::new()));
    let rt = tokio::runtime::Builder::new_current_thread().enable_time().start_paused(true).build().unwrap();
    rt.block_on(async {
        let port = OutputPort::<u64>::default();
        let (a, _ha) = Actor::spawn(None, Subscriber { who: "a", log: log.clone() }, ()).await.unwrap();
        let (b, _hb) = Actor::spawn(None, Subscriber { who: "b", log: log.clone() }, ()).await.unwrap();
        port.subscribe(a.clone(), Some);
        port.subscribe(b.clone(), Some);
        settle().await;
        a.stop(None);
        settle().await;
        port.send(0);
        settle().await;
        let (c, _hc) = Actor::spawn(None, Subscriber { who: "c", log: log.clone() }, ()).await.unwrap();
        port.subscribe(c.clone(), Some);
        settle().await;
        c.stop(None);
        settle().await;
        for v in [1u64, 2, 3, 4] {
            port.send(v);
            settle().await;
        }
        b.stop(None);
        settle().await;
    });
    println!("resubscribe={}", log.lock().unwrap().join(","));
}

/// two subscribers created with `spawn_instant` (their refs exist, and accept messages, before their start-up tasks were polled once) subscribe straight
/// away; publications before and after they start must reach both, once, in order
fn instant() {
    let log = Arc::new(Mutex::new(Vec::new()));
    let rt = tokio::runtime::Builder::new_current_thread().enable_time().start_paused(true).build().unwrap();
    rt.block_on(async {
        let port = OutputPort::<u64>::default();
        let (a, ha) = ractor::ActorRuntime::spawn_instant(None, Subscriber { who: "x", log: log.clone() }, ()).unwrap();
        port.subscribe(a.clone(), Some);
        let (b, hb) = ractor::ActorRuntime::spawn_instant(None, Subscriber { who: "y", log: log.clone() }, ()).unwrap();
        port.subscribe(b.clone(), Some);
        port.send(1);
        port.send(2);
        settle().await;
        let _ = ha.await;
        let _ = hb.await;
        for v in [3u64, 4, 5] {
            port.send(v);
            settle().await;
        }
        a.stop(None);
        b.stop(None);
        settle().await;
    });
    println!("instant={}", log.lock().unwrap().join(","));
}

struct LateStarter {
    log: Arc<Mutex<Vec<String>>>,
    port: Arc<OutputPort<u64>>,
    gate: Mutex<Option<tokio::sync::oneshot::Receiver<()>>>,
}
impl Actor for LateStarter {
    type Msg = u64;
    type State = ();
    type Arguments = ();
    async fn pre_start(&self, myself: ActorRef<u64>, _: ()) -> Result<(), ActorProcessingErr> {
        // subscribes itself, then takes a while to finish starting: publications arrive while its status is still Starting
        self.port.subscribe(myself, |v: u64| if v % 10 == 9 { None } else { Some(v) });
        let g = self.gate.lock().unwrap().take();
        if let Some(g) = g {
            let _ = g.await;
        }
        Ok(())
    }
    async fn handle(&self, _: ActorRef<u64>, m: u64, _: &mut ()) -> Result<(), ActorProcessingErr> {
        self.log.lock().unwrap().push(format!("s:{}", m));
        Ok(())
    }
}

/// a subscriber that is still starting when the first publications arrive must receive them (and the later ones) once it runs
fn starting(log: &Arc<Mutex<Vec<String>>>) {
    starting_with(log, &[2, 4], "starting");
    // the same with a publication the subscriber's converter filters out (9) arriving while it is still starting
    let log2 = Arc::new(Mutex::new(Vec::new()));
    starting_with(&log2, &[9, 4], "starting_filtered");
}

fn starting_with(log: &Arc<Mutex<Vec<String>>>, early: &[u64], label: &str) {
    let rt = tokio::runtime::Builder::new_current_thread().enable_time().start_paused(true).build().unwrap();
    rt.block_on(async {
        let port = Arc::new(OutputPort::<u64>::default());
        let (tx, rx) = tokio::sync::oneshot::channel();
        let actor = LateStarter { log: log.clone(), port: port.clone(), gate: Mutex::new(Some(rx)) };
        let spawn = tokio::spawn(async move { Actor::spawn(None, actor, ()).await });
        settle().await;
        for v in early {
            port.send(*v);
        }
        settle().await;
        let _ = tx.send(());
        let _ = spawn.await;
        settle().await;
        port.send(6);
        settle().await;
        port.send(8);
        settle().await;
    });
    println!("{}={}", label, log.lock().unwrap().join(","));
}
