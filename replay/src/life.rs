//! Scripted actor on the real runtime (C01 / C04 / C08 replays): every callback follows a script (actions on entry, number of
//! yields, outcome) and logs start / end / cancellation; a supervisor actor logs the supervision events it receives.
use crate::Args;
use ractor::{Actor, ActorProcessingErr, ActorRef, SupervisionEvent};
use std::collections::{HashMap, VecDeque};
use std::sync::{Arc, Mutex};

#[derive(Clone, Debug)]
struct Step {
    outcome: String, // ok | err | panic
    yields: usize,
    actions: Vec<String>, // kill | stop | stopreason | drain | msg | supevt
}

type Log = Arc<Mutex<Vec<String>>>;
type Script = Arc<Mutex<HashMap<String, VecDeque<Step>>>>;

struct Scripted {
    script: Script,
    log: Log,
    /// another live actor a callback may link this actor to (`linkobs` action)
    observer: Option<ractor::ActorCell>,
}

struct CancelGuard {
    name: &'static str,
    log: Log,
    done: bool,
}
impl Drop for CancelGuard {
    fn drop(&mut self) {
        if !self.done {
            self.log.lock().unwrap().push(format!("cancelled:{}", self.name));
        }
    }
}

/// the cell of the scripted actor (recorded when its first callback starts): lets the scenario look at an actor whose spawn never returned
static LAST_CELL: std::sync::Mutex<Option<ractor::ActorCell>> = std::sync::Mutex::new(None);

async fn run_step(script: &Script, log: &Log, observer: &Option<ractor::ActorCell>, name: &'static str, myself: &ActorRef<u64>) -> Result<(), ActorProcessingErr> {
    log.lock().unwrap().push(format!("start:{}", name));
    *LAST_CELL.lock().unwrap() = Some(myself.get_cell());
    let step = script.lock().unwrap().get_mut(name).and_then(|q| q.pop_front()).unwrap_or(Step { outcome: "ok".into(), yields: 0, actions: vec![] });
    let mut guard = CancelGuard { name, log: log.clone(), done: false };
    for a in step.actions.iter() {
        match a.as_str() {
            "kill" => myself.kill(),
            "stop" => myself.stop(None),
            "stopreason" => myself.stop(Some("the-exit-reason".to_string())),
            "drain" => {
                let _ = myself.drain();
            }
            "msg" => {
                let _ = myself.cast(1u64);
            }
            "linkobs" => {
                if let Some(o) = observer {
                    myself.link(o.clone());
                }
            }
            "supevt" => ractor::verif_hooks::lifecycle::verif_send_supervisor_evt(&myself.get_cell()),
            _ => {}
        }
    }
    let ticking = step.actions.iter().any(|a| a == "ticks");
    for _ in 0..step.yields {
        tokio::task::yield_now().await;
        if ticking {
            // the callback made progress after being resumed
            log.lock().unwrap().push(format!("tick:{}", name));
        }
    }
    guard.done = true;
    log.lock().unwrap().push(format!("end:{}:{}", name, step.outcome));
    match step.outcome.as_str() {
        "ok" => Ok(()),
        "err" => Err(From::from("scripted error")),
        _ => panic!("scripted panic"),
    }
}

impl Scripted {
    async fn run(&self, name: &'static str, myself: &ActorRef<u64>) -> Result<(), ActorProcessingErr> {
        run_step(&self.script, &self.log, &self.observer, name, myself).await
    }
}

/// the same scripted actor on the thread-local runtime (handler built by Default on the spawner thread: script and log travel in the state)
#[derive(Default)]
struct ScriptedTl;
struct TlState {
    script: Script,
    log: Log,
    observer: Option<ractor::ActorCell>,
}
impl ractor::thread_local::ThreadLocalActor for ScriptedTl {
    type Msg = u64;
    type State = TlState;
    type Arguments = TlState;
    async fn pre_start(&self, myself: ActorRef<u64>, a: TlState) -> Result<TlState, ActorProcessingErr> {
        run_step(&a.script, &a.log, &a.observer, "pre_start", &myself).await.map(|_| a)
    }
    async fn post_start(&self, myself: ActorRef<u64>, s: &mut TlState) -> Result<(), ActorProcessingErr> {
        run_step(&s.script, &s.log, &s.observer, "post_start", &myself).await
    }
    async fn post_stop(&self, myself: ActorRef<u64>, s: &mut TlState) -> Result<(), ActorProcessingErr> {
        run_step(&s.script, &s.log, &s.observer, "post_stop", &myself).await
    }
    async fn handle(&self, myself: ActorRef<u64>, _m: u64, s: &mut TlState) -> Result<(), ActorProcessingErr> {
        run_step(&s.script, &s.log, &s.observer, "handle", &myself).await
    }
    async fn handle_supervisor_evt(&self, myself: ActorRef<u64>, _m: SupervisionEvent, s: &mut TlState) -> Result<(), ActorProcessingErr> {
        run_step(&s.script, &s.log, &s.observer, "handle_supervisor_evt", &myself).await
    }
}

impl Actor for Scripted {
    type Msg = u64;
    type State = u64;
    type Arguments = ();
    async fn pre_start(&self, myself: ActorRef<u64>, _: ()) -> Result<u64, ActorProcessingErr> {
        self.run("pre_start", &myself).await.map(|_| 7)
    }
    async fn post_start(&self, myself: ActorRef<u64>, _s: &mut u64) -> Result<(), ActorProcessingErr> {
        self.run("post_start", &myself).await
    }
    async fn post_stop(&self, myself: ActorRef<u64>, _s: &mut u64) -> Result<(), ActorProcessingErr> {
        self.run("post_stop", &myself).await
    }
    async fn handle(&self, myself: ActorRef<u64>, _m: u64, _s: &mut u64) -> Result<(), ActorProcessingErr> {
        self.run("handle", &myself).await
    }
    async fn handle_supervisor_evt(&self, myself: ActorRef<u64>, _m: SupervisionEvent, _s: &mut u64) -> Result<(), ActorProcessingErr> {
        self.run("handle_supervisor_evt", &myself).await
    }
}

struct Sup {
    log: Log,
}
impl Actor for Sup {
    type Msg = ();
    type State = ();
    type Arguments = ();
    async fn pre_start(&self, _: ActorRef<()>, _: ()) -> Result<(), ActorProcessingErr> {
        Ok(())
    }
    async fn handle_supervisor_evt(&self, _myself: ActorRef<()>, m: SupervisionEvent, _s: &mut ()) -> Result<(), ActorProcessingErr> {
        let line = match m {
            SupervisionEvent::ActorStarted(_) => "supevt:ActorStarted".to_string(),
            SupervisionEvent::ActorTerminated(_, st, reason) => format!("supevt:ActorTerminated:state={}:reason={}", st.is_some() as u8, reason.unwrap_or_else(|| "-".into()).replace([' ', ':', ','], "_")),
            SupervisionEvent::ActorFailed(_, e) => format!("supevt:ActorFailed:{}", e.to_string().replace([' ', ':'], "_")),
            _ => "supevt:other".to_string(),
        };
        self.log.lock().unwrap().push(line);
        Ok(())
    }
}

fn parse_script(s: &str) -> HashMap<String, VecDeque<Step>> {
    // "pre_start/ok/0/;post_start/ok/0/msg;handle/panic/0/"
    let mut m: HashMap<String, VecDeque<Step>> = HashMap::new();
    for item in s.split(';').filter(|x| !x.is_empty()) {
        let p: Vec<&str> = item.split('/').collect();
        let step = Step {
            outcome: p[1].to_string(),
            yields: p[2].parse().unwrap(),
            actions: p.get(3).map(|a| a.split('+').filter(|x| !x.is_empty()).map(|x| x.to_string()).collect()).unwrap_or_default(),
        };
        m.entry(p[0].to_string()).or_default().push_back(step);
    }
    m
}

pub fn run(a: &Args) {
    let script: Script = Arc::new(Mutex::new(parse_script(a.str("script"))));
    let with_sup = a.u64("sup") == 1;
    let sup_dead = a.u64("sup_dead") == 1;
    let name = if a.u64("named") == 1 { Some(format!("life-replay-{}", std::process::id())) } else { None };
    let log: Log = Arc::new(Mutex::new(Vec::new()));
    std::panic::set_hook(Box::new(|_| {}));
    let rt = tokio::runtime::Builder::new_current_thread().enable_time().build().unwrap();
    rt.block_on(async {
        let (sup, sup_handle) = Actor::spawn(None, Sup { log: log.clone() }, ()).await.unwrap();
        if sup_dead {
            sup.stop(None);
            let _ = sup_handle.await;
        }
        let observer = if a.opt_u128("obs").unwrap_or(0) == 1 {
            let (o, _h) = Actor::spawn(None, Sup { log: log.clone() }, ()).await.unwrap();
            Some(o.get_cell())
        } else {
            None
        };
        let actor = Scripted { script: script.clone(), log: log.clone(), observer: observer.clone() };
        if a.opt_u128("cancel_start").unwrap_or(0) == 1 {
            // the spawning future is dropped while pre_start is still pending (the script lets pre_start yield for long)
            let cancelled = {
                let fut = async {
                    if with_sup {
                        Actor::spawn_linked(name.clone(), actor, (), sup.get_cell()).await.map(|_| ())
                    } else {
                        Actor::spawn(name.clone(), actor, ()).await.map(|_| ())
                    }
                };
                tokio::pin!(fut);
                tokio::select! {
                    biased;
                    _ = &mut fut => false,
                    _ = async { for _ in 0..5 { tokio::task::yield_now().await; } } => true,
                }
            };
            log.lock().unwrap().push(format!("start_cancelled:{}", cancelled as u8));
            for _ in 0..20 {
                tokio::task::yield_now().await;
            }
            tokio::time::sleep(std::time::Duration::from_millis(20)).await;
            if let Some(n) = name.as_ref() {
                log.lock().unwrap().push(format!("name_registered:{}", ractor::registry::where_is(n.clone()).is_some() as u8));
            }
            log.lock().unwrap().push(format!("sup_children:{}", sup.get_children().len()));
            if let Some(o) = observer.as_ref() {
                log.lock().unwrap().push(format!("obs_children:{}", o.get_children().len()));
            }
            if let Some(c) = LAST_CELL.lock().unwrap().as_ref() {
                log.lock().unwrap().push(format!("final_status:{}", c.get_status() as u8));
                log.lock().unwrap().push(format!("pid_registered:{}", ractor::registry::where_is_pid(c.get_id()).is_some() as u8));
                log.lock().unwrap().push(format!("has_supervisor:{}", c.try_get_supervisor().is_some() as u8));
                log.lock().unwrap().push(format!("send_refused:{}", ActorRef::<u64>::from(c.clone()).cast(1).is_err() as u8));
            }
            println!("log={}", log.lock().unwrap().join(","));
            return;
        }
        let res = if a.opt_u128("tl").unwrap_or(0) == 1 {
            use ractor::thread_local::{ThreadLocalActor, ThreadLocalActorSpawner};
            let spawner = ThreadLocalActorSpawner::new();
            let args = TlState { script: script.clone(), log: log.clone(), observer: observer.clone() };
            if with_sup {
                ScriptedTl::spawn_linked(name.clone(), args, sup.get_cell(), spawner).await
            } else {
                ScriptedTl::spawn(name.clone(), args, spawner).await
            }
        } else if with_sup {
            Actor::spawn_linked(name.clone(), actor, (), sup.get_cell()).await
        } else {
            Actor::spawn(name.clone(), actor, ()).await
        };
        match res {
            Err(e) => {
                let v = match e {
                    ractor::SpawnErr::StartupFailed(_) => "StartupFailed",
                    ractor::SpawnErr::ActorAlreadyStarted => "ActorAlreadyStarted",
                    ractor::SpawnErr::ActorAlreadyRegistered(_) => "ActorAlreadyRegistered",
                };
                log.lock().unwrap().push(format!("start_err:{}", v));
                if let Some(n) = name.as_ref() {
                    log.lock().unwrap().push(format!("name_registered:{}", ractor::registry::where_is(n.clone()).is_some() as u8));
                }
                log.lock().unwrap().push(format!("sup_children:{}", sup.get_children().len()));
                if let Some(o) = observer.as_ref() {
                    log.lock().unwrap().push(format!("obs_children:{}", o.get_children().len()));
                }
            }
            Ok((r, handle)) => {
                log.lock().unwrap().push("start_ok".to_string());
                if let Some(n) = a.opt_u128("kill_after_ticks") {
                    // an external kill delivered while a ticking callback is suspended between two polls of the actor task
                    for _ in 0..2000 {
                        let cnt = log.lock().unwrap().iter().filter(|l| l.starts_with("tick:")).count();
                        if cnt >= n as usize {
                            break;
                        }
                        tokio::task::yield_now().await;
                    }
                    r.kill();
                    log.lock().unwrap().push("killed_externally".to_string());
                }
                let abort_after = a.opt_u128("abort_after_entries").map(|x| x as usize);
                if let Some(n) = abort_after {
                    // abort the actor task once the log shows the first n callback entries (the task is then suspended)
                    for _ in 0..2000 {
                        let cnt = log.lock().unwrap().iter().filter(|l| l.starts_with("start:") || l.starts_with("end:")).count();
                        if cnt >= n || a.opt_u128("abort_now").unwrap_or(0) == 1 {
                            break;
                        }
                        tokio::task::yield_now().await;
                    }
                    // (abort_now=1: the very first cancellation point - no await between the spawn returning and the abort, so on this current-thread
                    // runtime the task has not been polled once)
                    if a.opt_u128("abort_now").unwrap_or(0) == 0 {
                        for _ in 0..5 {
                            tokio::task::yield_now().await;
                        }
                    }
                    handle.abort();
                    log.lock().unwrap().push("task_aborted".to_string());
                }
                match tokio::time::timeout(std::time::Duration::from_secs(3), handle).await {
                    Ok(Ok(())) => log.lock().unwrap().push("taskend:ok".to_string()),
                    Ok(Err(e)) if e.is_cancelled() => log.lock().unwrap().push("taskend:cancelled".to_string()),
                    Ok(Err(_)) => log.lock().unwrap().push("taskend:panic".to_string()),
                    Err(_) => log.lock().unwrap().push("taskend:timeout".to_string()),
                }
                log.lock().unwrap().push(format!("final_status:{}", r.get_status() as u8));
            }
        }
        // let the supervisor drain its supervision port
        for _ in 0..20 {
            tokio::task::yield_now().await;
        }
        tokio::time::sleep(std::time::Duration::from_millis(20)).await;
    });
    println!("log={}", log.lock().unwrap().join(","));
}

/// C01 / C03: a kill that lands in the await-free stretch between the loop picking up a stop request and the first poll of `post_stop` (delivered from the
/// hook point in `set_status(Stopping)`, on the actor's own thread, as a second thread pre-empting there would): `post_stop` must not be entered.
/// `kill_window mode=stop|drain`
pub fn kill_window(a: &Args) {
    use ractor::verif_hooks as vh;
    use std::sync::atomic::{AtomicBool, Ordering};
    use std::sync::Arc;
    struct W {
        log: Log,
    }
    impl Actor for W {
        type Msg = u64;
        type State = ();
        type Arguments = ();
        async fn pre_start(&self, _: ActorRef<u64>, _: ()) -> Result<(), ActorProcessingErr> {
            Ok(())
        }
        async fn handle(&self, _: ActorRef<u64>, m: u64, _: &mut ()) -> Result<(), ActorProcessingErr> {
            self.log.lock().unwrap().push(format!("handle:{}", m));
            Ok(())
        }
        async fn post_stop(&self, _: ActorRef<u64>, _: &mut ()) -> Result<(), ActorProcessingErr> {
            self.log.lock().unwrap().push("post_stop_entered".to_string());
            Ok(())
        }
    }
    let mode = a.str("mode").to_string();
    let rt = tokio::runtime::Builder::new_current_thread().enable_time().build().unwrap();
    let log: Log = Default::default();
    rt.block_on(async {
        let (sup, sup_handle) = Actor::spawn(None, Sup { log: log.clone() }, ()).await.unwrap();
        let (actor, handle) = Actor::spawn_linked(None, W { log: log.clone() }, (), sup.get_cell()).await.unwrap();
        actor.cast(1).unwrap();
        tokio::task::yield_now().await;
        tokio::task::yield_now().await;
        let armed = Arc::new(AtomicBool::new(false));
        let killed = Arc::new(AtomicBool::new(false));
        {
            let (armed, killed, cell, log) = (armed.clone(), killed.clone(), actor.get_cell(), log.clone());
            vh::set_observer(Box::new(move || {
                // first hook point the actor task passes once it is on its way out: the status is published as Stopping right there
                if armed.load(Ordering::SeqCst) && !killed.swap(true, Ordering::SeqCst) {
                    cell.kill();
                    log.lock().unwrap().push("kill_returned".to_string());
                }
                0
            }));
        }
        vh::install_schedule(vec![], 1);
        vh::enter_thread(0);
        match mode.as_str() {
            "drain" => {
                let _ = actor.drain();
            }
            _ => actor.stop(None),
        }
        armed.store(true, Ordering::SeqCst);
        let _ = tokio::time::timeout(std::time::Duration::from_secs(3), handle).await;
        vh::leave_thread();
        let _ = vh::take_log();
        for _ in 0..5 {
            tokio::task::yield_now().await;
        }
        sup.stop(None);
        let _ = sup_handle.await;
    });
    println!("log={}", log.lock().unwrap().join(","));
}

/// C08 thread-local hand-over: a thread-local spawn whose future is dropped while its request is still queued behind a busy spawner thread: once the spawner
/// has worked through its queue, the abandoned actor's pre_start must not have run and its name must be free.
pub fn tl_queued_cancel(_a: &Args) {
    use ractor::thread_local::{ThreadLocalActor, ThreadLocalActorSpawner};
    use std::sync::mpsc;
    #[derive(Default)]
    struct Blocker;
    impl ThreadLocalActor for Blocker {
        type Msg = ();
        type State = ();
        type Arguments = mpsc::Receiver<()>;
        async fn pre_start(&self, _: ActorRef<()>, gate: mpsc::Receiver<()>) -> Result<(), ActorProcessingErr> {
            // blocks the spawner thread (not just the task): every later request stays queued
            let _ = gate.recv_timeout(std::time::Duration::from_secs(5));
            Ok(())
        }
    }
    #[derive(Default)]
    struct Victim;
    impl ThreadLocalActor for Victim {
        type Msg = ();
        type State = ();
        type Arguments = Log;
        async fn pre_start(&self, _: ActorRef<()>, log: Log) -> Result<(), ActorProcessingErr> {
            log.lock().unwrap().push("victim_pre_start".to_string());
            Ok(())
        }
    }
    #[derive(Default)]
    struct Fence;
    impl ThreadLocalActor for Fence {
        type Msg = ();
        type State = ();
        type Arguments = ();
        async fn pre_start(&self, _: ActorRef<()>, _: ()) -> Result<(), ActorProcessingErr> {
            Ok(())
        }
    }
    let rt = tokio::runtime::Builder::new_multi_thread().worker_threads(2).enable_all().build().unwrap();
    let log: Log = Default::default();
    let name = format!("c08-victim-{}", std::process::id());
    rt.block_on(async {
        let spawner = ThreadLocalActorSpawner::new();
        let (open, gate) = mpsc::channel::<()>();
        let blocker = {
            let sp = spawner.clone();
            tokio::spawn(async move { Blocker::spawn(None, gate, sp).await })
        };
        tokio::time::sleep(std::time::Duration::from_millis(50)).await;
        // queued behind the blocked spawner; abandoned after 50 ms
        let abandoned = tokio::time::timeout(std::time::Duration::from_millis(50), Victim::spawn(Some(name.clone()), log.clone(), spawner.clone())).await;
        println!("spawn_abandoned={}", abandoned.is_err() as u8);
        open.send(()).unwrap();
        let b = blocker.await.unwrap();
        println!("blocker_started={}", b.is_ok() as u8);
        // the queue is FIFO: once the fence has started, the victim's request has been dealt with
        let f = Fence::spawn(None, (), spawner.clone()).await;
        println!("fence_started={}", f.is_ok() as u8);
        tokio::time::sleep(std::time::Duration::from_millis(100)).await;
        println!("victim_pre_start_ran={}", log.lock().unwrap().iter().any(|l| l == "victim_pre_start") as u8);
        println!("name_registered={}", ractor::registry::where_is(name.clone()).is_some() as u8);
        let again = tokio::time::timeout(std::time::Duration::from_secs(2), Victim::spawn(Some(name.clone()), log.clone(), spawner.clone())).await;
        println!("name_reusable={}", matches!(again, Ok(Ok(_))) as u8);
        // second cut: the spawn is abandoned while its start task is already running on the spawner thread (pre_start suspended)
        #[derive(Default)]
        struct SlowStart;
        impl ThreadLocalActor for SlowStart {
            type Msg = ();
            type State = ();
            type Arguments = Log;
            async fn pre_start(&self, _: ActorRef<()>, log: Log) -> Result<(), ActorProcessingErr> {
                log.lock().unwrap().push("slow_begin".to_string());
                tokio::time::sleep(std::time::Duration::from_millis(200)).await;
                log.lock().unwrap().push("slow_end".to_string());
                Ok(())
            }
        }
        let name2 = format!("{}-running", name);
        let abandoned2 = tokio::time::timeout(std::time::Duration::from_millis(60), SlowStart::spawn(Some(name2.clone()), log.clone(), spawner.clone())).await;
        println!("running_spawn_abandoned={}", abandoned2.is_err() as u8);
        tokio::time::sleep(std::time::Duration::from_millis(400)).await;
        println!("running_pre_start_began={}", log.lock().unwrap().iter().any(|l| l == "slow_begin") as u8);
        println!("running_pre_start_finished={}", log.lock().unwrap().iter().any(|l| l == "slow_end") as u8);
        println!("running_name_registered={}", ractor::registry::where_is(name2.clone()).is_some() as u8);
        if let Ok((a, _)) = b {
            a.stop(None);
        }
        if let Ok((a, _)) = f {
            a.stop(None);
        }
        if let Ok(Ok((a, _))) = again {
            a.stop(None);
        }
        tokio::time::sleep(std::time::Duration::from_millis(50)).await;
    });
}
