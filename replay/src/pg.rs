//! ractor::pg through its public API with real actors (C11 replays): build a state, perform one operation, report membership, the scope
//! index as seen by `which_scoped_groups`, and the notifications the monitor received for that operation.
use crate::Args;
use ractor::pg;
use ractor::{Actor, ActorCell, ActorProcessingErr, ActorRef, SupervisionEvent};
use std::sync::{Arc, Mutex};
use std::time::Duration;

struct Plain;
impl Actor for Plain {
    type Msg = ();
    type State = ();
    type Arguments = ();
    async fn pre_start(&self, _: ActorRef<()>, _: ()) -> Result<(), ActorProcessingErr> {
        Ok(())
    }
}

struct Listener {
    log: Arc<Mutex<Vec<String>>>,
    names: Arc<Mutex<Vec<(u64, &'static str)>>>,
}
impl Actor for Listener {
    type Msg = ();
    type State = ();
    type Arguments = ();
    async fn pre_start(&self, _: ActorRef<()>, _: ()) -> Result<(), ActorProcessingErr> {
        Ok(())
    }
    async fn handle_supervisor_evt(&self, _: ActorRef<()>, m: SupervisionEvent, _: &mut ()) -> Result<(), ActorProcessingErr> {
        if let SupervisionEvent::ProcessGroupChanged(ch) = m {
            let names = self.names.lock().unwrap();
            let nm = |c: &ActorCell| names.iter().find(|(p, _)| *p == c.get_id().pid()).map(|(_, n)| n.to_string()).unwrap_or_else(|| "?".to_string());
            let line = match &ch {
                pg::GroupChangeMessage::Join(s, g, who) => format!("Join/{}/{}/{}", s, g, who.iter().map(nm).collect::<Vec<_>>().join("")),
                pg::GroupChangeMessage::Leave(s, g, who) => format!("Leave/{}/{}/{}", s, g, who.iter().map(nm).collect::<Vec<_>>().join("")),
            };
            self.log.lock().unwrap().push(line);
        }
        Ok(())
    }
}

async fn settle() {
    for _ in 0..50 {
        tokio::task::yield_now().await;
    }
    tokio::time::sleep(Duration::from_millis(10)).await;
}

/// pg g1=<ab..> g2=<ab..> lg=0|1 (l monitors g1) lw=none|scope|all op=<join|leave|leave_all|demonitor_all|monitor|monitor_scope|demonitor|demonitor_scope> g=<g1|g2> who=<a|b|aa|ab|l> stopped=<names>
pub fn run(a: &Args) {
    let scope = format!("c11-{}", std::process::id());
    let log = Arc::new(Mutex::new(Vec::new()));
    let names = Arc::new(Mutex::new(Vec::new()));
    let rt = tokio::runtime::Builder::new_current_thread().enable_time().build().unwrap();
    let mut out: Vec<String> = Vec::new();
    rt.block_on(async {
        let (aa, ah) = Actor::spawn(None, Plain, ()).await.unwrap();
        let (bb, bh) = Actor::spawn(None, Plain, ()).await.unwrap();
        let (ll, lh) = Actor::spawn(None, Listener { log: log.clone(), names: names.clone() }, ()).await.unwrap();
        names.lock().unwrap().extend([(aa.get_id().pid(), "a"), (bb.get_id().pid(), "b"), (ll.get_id().pid(), "l")]);
        let cell = |n: char| match n {
            'a' => aa.get_cell(),
            'b' => bb.get_cell(),
            _ => ll.get_cell(),
        };
        // a fresh process has an empty pg state: everything lives in the default scope (group monitors exist only there)
        let sc = pg::DEFAULT_SCOPE.to_string();
        for (g, key) in [("g1", "g1"), ("g2", "g2")] {
            let who: Vec<ActorCell> = a.str(key).chars().map(cell).collect();
            if !who.is_empty() {
                pg::join_scoped(sc.clone(), g.to_string(), who);
            }
        }
        if a.u64("lg") == 1 {
            pg::monitor("g1".to_string(), ll.get_cell());
        }
        match a.str("lw") {
            "scope" => pg::monitor_scope(sc.clone(), ll.get_cell()),
            "all" => pg::monitor_scope(pg::ALL_SCOPES_NOTIFICATION.to_string(), ll.get_cell()),
            _ => {}
        }
        for n in a.str("stopped").chars() {
            match n {
                'a' => {
                    aa.stop(None);
                }
                'b' => {
                    bb.stop(None);
                }
                _ => {
                    ll.stop(None);
                }
            }
        }
        settle().await;
        log.lock().unwrap().clear();
        let g = a.str("g").to_string();
        let who: Vec<ActorCell> = a.str("who").chars().map(cell).collect();
        match a.str("op") {
            "join_scoped" => pg::join_scoped(sc.clone(), g.clone(), who),
            "leave_scoped" => pg::leave_scoped(sc.clone(), g.clone(), who),
            "monitor" => pg::monitor(g.clone(), who[0].clone()),
            "monitor_scope" => pg::monitor_scope(sc.clone(), who[0].clone()),
            "demonitor" => pg::demonitor(g.clone(), who[0].get_id()),
            "demonitor_scope" => pg::demonitor_scope(sc.clone(), who[0].get_id()),
            "exit" => {
                who[0].stop(None);
            }
            _ => {}
        }
        settle().await;
        let nm = |c: &ActorCell| names.lock().unwrap().iter().find(|(p, _)| *p == c.get_id().pid()).map(|(_, n)| n.to_string()).unwrap_or_else(|| "?".to_string());
        for g in ["g1", "g2"] {
            let mut m: Vec<String> = pg::get_scoped_members(&sc, &g.to_string()).iter().map(nm).collect();
            m.sort();
            out.push(format!("{}={}", g, m.join("")));
        }
        let mut wg = pg::which_scoped_groups(&sc);
        wg.sort();
        out.push(format!("index={}", wg.join("+")));
        out.push(format!("notes={}", log.lock().unwrap().join("+")));
        drop((ah, bh, lh));
    });
    println!("scope={}", scope);
    for l in out {
        println!("{}", l);
    }
}

/// pg_race mode=<exit|leave_join|join_leave> k=<groups> iters=<n>
///
/// Two threads work on the same groups at the same time; once both are done the scope index must list exactly the groups that have members.
/// (The C11 lock invariant - index and membership agree whenever a group's entry is released - is what makes this hold for every interleaving;
/// this scenario looks for an interleaving in which its violation becomes visible through the public API.)
static JOIN_EXIT_HELPERS: std::sync::OnceLock<Vec<ActorCell>> = std::sync::OnceLock::new();

pub fn race(a: &Args) {
    let mode = a.str("mode").to_string();
    let k = a.usize("k").max(1);
    let iters = a.usize("iters").max(1);
    let sc = format!("c11-race-{}", std::process::id());
    let rt = tokio::runtime::Builder::new_multi_thread().worker_threads(2).enable_time().build().unwrap();
    let groups: Vec<String> = (0..k).map(|i| format!("g{}", i)).collect();
    let mut bad: Vec<String> = Vec::new();
    let agree = |sc: &String, groups: &Vec<String>, tag: &str, bad: &mut Vec<String>| {
        let idx: std::collections::HashSet<String> = pg::which_scoped_groups(sc).into_iter().collect();
        for g in groups {
            let n = pg::get_scoped_members(sc, g).len();
            if (n > 0) != idx.contains(g) && bad.len() < 4 {
                bad.push(format!("{}: group {} has {} members but listed={}", tag, g, n, idx.contains(g)));
            }
        }
    };
    let (bb, _bh) = rt.block_on(Actor::spawn(None, Plain, ())).unwrap();
    for it in 0..iters {
        if !bad.is_empty() {
            break;
        }
        let (aa, ah) = rt.block_on(Actor::spawn(None, Plain, ())).unwrap();
        match mode.as_str() {
            "exit" => {
                for g in &groups {
                    pg::join_scoped(sc.clone(), g.clone(), vec![aa.get_cell()]);
                }
                let a_id = aa.get_id();
                let (sc2, groups2, b2) = (sc.clone(), groups.clone(), bb.get_cell());
                let th = std::thread::spawn(move || {
                    // keep joining b everywhere until a is gone from every group
                    loop {
                        let mut a_left = false;
                        for g in &groups2 {
                            pg::join_scoped(sc2.clone(), g.clone(), vec![b2.clone()]);
                            if pg::get_scoped_members(&sc2, g).iter().any(|c| c.get_id() == a_id) {
                                a_left = true;
                            }
                        }
                        if !a_left {
                            break;
                        }
                    }
                });
                aa.stop(None);
                rt.block_on(async {
                    let _ = ah.await;
                });
                th.join().unwrap();
                agree(&sc, &groups, &format!("iteration {} (a exits while b joins)", it), &mut bad);
                for g in &groups {
                    pg::leave_scoped(sc.clone(), g.clone(), vec![bb.get_cell()]);
                }
            }
            "leave_rejoin" => {
                // g = {h1..hk, a}; one thread makes everybody leave (a last in the list), another re-joins a as soon as it is gone; then a exits:
                // an exited actor must be in no group (its reverse index must still know the re-joined group)
                let g = groups[0].clone();
                let mut helpers = Vec::new();
                for _ in 0..k {
                    helpers.push(rt.block_on(Actor::spawn(None, Plain, ())).unwrap());
                }
                let mut everybody: Vec<ActorCell> = helpers.iter().map(|(h, _)| h.get_cell()).collect();
                everybody.push(aa.get_cell());
                pg::join_scoped(sc.clone(), g.clone(), everybody.clone());
                let a_id = aa.get_id();
                let (sc2, g2, a2) = (sc.clone(), g.clone(), aa.get_cell());
                let th = std::thread::spawn(move || {
                    for _ in 0..2_000_000 {
                        if !pg::get_scoped_members(&sc2, &g2).iter().any(|c| c.get_id() == a_id) {
                            pg::join_scoped(sc2.clone(), g2.clone(), vec![a2.clone()]);
                            return;
                        }
                    }
                });
                pg::leave_scoped(sc.clone(), g.clone(), everybody);
                th.join().unwrap();
                aa.stop(None);
                rt.block_on(async {
                    let _ = ah.await;
                });
                if pg::get_scoped_members(&sc, &g).iter().any(|c| c.get_id() == a_id) {
                    bad.push(format!("iteration {} (leave racing with a re-join, then exit): the stopped actor is still a member of {}", it, g));
                }
                for (h, hh) in helpers {
                    h.stop(None);
                    rt.block_on(async {
                        let _ = hh.await;
                    });
                }
            }
            "join_exit" => {
                // one thread joins [h1..hk, a] to g0 (a last: the helpers keep the call busy between its first look at a and a's turn) while a is asked
                // to stop; once a's exit has completed and the join has returned, a must be in no group (the join must re-check a's status under the
                // lock the exit clean-up takes, or roll back)
                let g0 = groups[0].clone();
                let a_id = aa.get_id();
                let helpers = JOIN_EXIT_HELPERS.get_or_init(|| {
                    (0..k).map(|_| rt.block_on(Actor::spawn(None, Plain, ())).unwrap().0.get_cell()).collect::<Vec<ActorCell>>()
                });
                let mut list = helpers.clone();
                list.push(aa.get_cell());
                let bar = Arc::new(std::sync::Barrier::new(2));
                let (sc2, g2, bar2) = (sc.clone(), g0.clone(), bar.clone());
                let th = std::thread::spawn(move || {
                    bar2.wait();
                    pg::join_scoped(sc2, g2, list);
                });
                bar.wait();
                if it % 2 == 0 {
                    aa.stop(None);
                } else {
                    aa.kill();
                }
                rt.block_on(async {
                    let _ = ah.await;
                });
                th.join().unwrap();
                if pg::get_scoped_members(&sc, &g0).iter().any(|c| c.get_id() == a_id) && bad.len() < 4 {
                    bad.push(format!("iteration {} (join racing with the exit): the stopped actor is still a member of {}", it, g0));
                }
                pg::leave_scoped(sc.clone(), g0.clone(), helpers.clone());
                pg::leave_scoped(sc.clone(), g0.clone(), vec![aa.get_cell()]);
            }
            "last_leave_join" => {
                // a is a member of g0 only; one thread makes it leave g0 (its last relation) while another joins it to g1; then a exits:
                // an exited actor must be in no group (the record the join wrote into must still be the one the exit clean-up finds)
                let (g0, g1) = (groups[0].clone(), groups[1 % groups.len()].clone());
                let a_id = aa.get_id();
                pg::join_scoped(sc.clone(), g0.clone(), vec![aa.get_cell()]);
                let bar = Arc::new(std::sync::Barrier::new(2));
                let (sc2, g12, bar2, a2) = (sc.clone(), g1.clone(), bar.clone(), aa.get_cell());
                let th = std::thread::spawn(move || {
                    bar2.wait();
                    pg::join_scoped(sc2, g12, vec![a2]);
                });
                bar.wait();
                pg::leave_scoped(sc.clone(), g0.clone(), vec![aa.get_cell()]);
                th.join().unwrap();
                aa.stop(None);
                rt.block_on(async {
                    let _ = ah.await;
                });
                for g in [&g0, &g1] {
                    if pg::get_scoped_members(&sc, g).iter().any(|c| c.get_id() == a_id) && bad.len() < 4 {
                        bad.push(format!("iteration {} (last leave racing with a join elsewhere, then exit): the stopped actor is still a member of {}", it, g));
                        pg::leave_scoped(sc.clone(), g.clone(), vec![aa.get_cell()]);
                    }
                }
            }
            "leave_join" | "join_leave" => {
                let lj = mode == "leave_join";
                for g in &groups {
                    if lj {
                        pg::join_scoped(sc.clone(), g.clone(), vec![aa.get_cell()]);
                    }
                    let bar = Arc::new(std::sync::Barrier::new(2));
                    let (sc2, g2, bar2) = (sc.clone(), g.clone(), bar.clone());
                    let other = if lj { bb.get_cell() } else { aa.get_cell() };
                    let th = std::thread::spawn(move || {
                        bar2.wait();
                        if lj {
                            pg::join_scoped(sc2, g2, vec![other]);
                        } else {
                            pg::leave_scoped(sc2, g2, vec![other]);
                        }
                    });
                    bar.wait();
                    if lj {
                        pg::leave_scoped(sc.clone(), g.clone(), vec![aa.get_cell()]);
                    } else {
                        pg::join_scoped(sc.clone(), g.clone(), vec![aa.get_cell()]);
                    }
                    th.join().unwrap();
                }
                agree(&sc, &groups, &format!("iteration {} ({})", it, mode), &mut bad);
                for g in &groups {
                    pg::leave_scoped(sc.clone(), g.clone(), vec![aa.get_cell(), bb.get_cell()]);
                }
                aa.stop(None);
                rt.block_on(async {
                    let _ = ah.await;
                });
            }
            _ => {}
        }
    }
    println!("disagreements={}", bad.len());
    println!("detail={}", bad.join(" | "));
}
