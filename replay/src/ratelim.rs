use crate::Args;
use ractor::factory::ratelim::verif_probe as probe;
use ractor::factory::ratelim::RateLimiter;

fn opt(v: Option<u128>) -> String {
    v.map(|x| x.to_string()).unwrap_or_else(|| "none".into())
}

/// single `refresh` step from an explicit pre-state
pub fn refresh(a: &Args) {
    let rt = tokio::runtime::Builder::new_current_thread().enable_time().start_paused(true).build().unwrap();
    rt.block_on(async {
        let base = tokio::time::Instant::now();
        let mut l = probe::make(base, a.usize("refill"), a.u128("interval"), a.usize("max"), a.usize("balance"), a.opt_u128("deadline"));
        println!("pre_deadline={}", opt(probe::deadline_off(&l, base)));
        let r = std::panic::catch_unwind(std::panic::AssertUnwindSafe(|| probe::refresh_at(&mut l, base, a.u128("now"))));
        println!("panicked={}", r.is_err());
        println!("balance={}", l.balance);
        println!("deadline={}", opt(probe::deadline_off(&l, base)));
    });
}

/// k calls of check()/bump() on the paused tokio clock: times = absolute offsets (non-decreasing), one per call
pub fn window(a: &Args) {
    let rt = tokio::runtime::Builder::new_current_thread().enable_time().start_paused(true).build().unwrap();
    rt.block_on(async {
        let base = tokio::time::Instant::now();
        let mut l = probe::make(base, a.usize("refill"), a.u128("interval"), a.usize("max"), a.usize("balance"), a.opt_u128("deadline"));
        let mut admitted = 0u64;
        let mut last = 0u128;
        for t in a.list_u128("times") {
            let d = t - last;
            last = t;
            tokio::time::advance(std::time::Duration::new((d / 1_000_000_000) as u64, (d % 1_000_000_000) as u32)).await;
            let now_off = tokio::time::Instant::now().saturating_duration_since(base).as_nanos();
            if l.check() {
                l.bump();
                admitted += 1;
            }
            println!("step now={} balance={} deadline={}", now_off, l.balance, opt(probe::deadline_off(&l, base)));
        }
        println!("admitted={}", admitted);
    });
}
