//! Native replay of single supervision-tree operations (C05 sequential slice) on real cells.
use crate::Args;
use ractor::verif_hooks::lifecycle as lc;

fn opt_list(s: &str) -> Vec<Option<usize>> {
    s.split(',').filter(|x| !x.is_empty()).map(|x| if x == "-" { None } else { Some(x.parse().unwrap()) }).collect()
}

pub fn run(a: &Args) {
    let n = a.usize("n");
    let sup = opt_list(a.str("sup"));
    let closed: Vec<usize> = a.list_u128("closed").into_iter().map(|x| x as usize).collect();
    let statuses: Vec<u8> = a.list_u128("statuses").into_iter().map(|x| x as u8).collect();
    let op = a.str("op").to_string();
    let x = a.usize("a");
    let y = a.opt_u128("b").map(|v| v as usize);
    // remote=i:j : cell i carries a remote id (node 7) whose pid equals cell j's pid (j < i)
    let remote: Option<(usize, usize)> = a.str("remote").split_once(':').map(|(i, j)| (i.parse().unwrap(), j.parse().unwrap()));
    let mut husks: Vec<lc::Husk> = Vec::new();
    for i in 0..n {
        match remote {
            Some((ri, rj)) if ri == i => {
                let pid = husks[rj].cell.get_id().pid();
                husks.push(lc::husk_remote(7, pid, 2));
            }
            _ => husks.push(lc::husk(None, 2)),
        }
    }
    for h in husks.iter_mut() {
        h.forget_guard();
    }
    // build the shape while every cell is Running, then close sets and set statuses
    for (c, s) in sup.iter().enumerate() {
        if let Some(s) = s {
            assert!(lc::verif_link(&husks[c].cell, &husks[*s].cell), "shape construction failed");
        }
    }
    for c in closed.iter() {
        let taken = lc::verif_take_children(&husks[*c].cell);
        assert!(taken.is_empty());
    }
    for (i, s) in statuses.iter().enumerate() {
        lc::verif_force_status(&husks[i].cell, *s);
    }
    let ids: Vec<ractor::ActorId> = husks.iter().map(|h| h.cell.get_id()).collect();
    let idx = |id: ractor::ActorId| ids.iter().position(|p| *p == id).map(|i| i.to_string()).unwrap_or_else(|| "?".into());
    let mut ret = String::from("-");
    match op.as_str() {
        "link" => ret = (lc::verif_link(&husks[x].cell, &husks[y.unwrap()].cell) as u8).to_string(),
        "unlink" => husks[x].cell.unlink(husks[y.unwrap()].cell.clone()),
        "take" => {
            let mut v: Vec<String> = lc::verif_take_children(&husks[x].cell).iter().map(|c| idx(c.get_id())).collect();
            v.sort();
            ret = v.join("+");
        }
        "terminate" => lc::verif_terminate(&husks[x].cell),
        _ => panic!("unknown op"),
    }
    println!("ret={}", ret);
    for i in 0..n {
        let kids = match lc::verif_children(&husks[i].cell) {
            None => "closed".to_string(),
            Some(mut v) => {
                let mut k: Vec<String> = v.drain(..).map(|c| idx(c.get_id())).collect();
                k.sort();
                k.join("+")
            }
        };
        let s = husks[i].cell.try_get_supervisor().map(|c| idx(c.get_id())).unwrap_or_else(|| "-".into());
        println!("cell{}=children:{};sup:{};killed:{};status:{}", i, kids, s, lc::verif_signal_taken(&husks[i].cell) as u8, husks[i].cell.get_status() as u8);
    }
}

/// link_race : a `link` of another thread is parked on the tree lock while the child goes through its exit (status Stopping, then Stopped - the steps of
/// ActorLifecycleGuard::cleanup that need no lock; the child has neither children nor supervisor, so the locked steps do nothing); then the lock is released.
/// A link that decided on statuses read before it held the lock now links a stopped actor.
pub fn link_race(_a: &Args) {
    let mut child = lc::husk(None, 2);
    let mut sup = lc::husk(None, 2);
    child.forget_guard();
    sup.forget_guard();
    let guard = lc::verif_lock_tree();
    let (c2, s2) = (child.cell.clone(), sup.cell.clone());
    let th = std::thread::spawn(move || lc::verif_link(&c2, &s2));
    std::thread::sleep(std::time::Duration::from_millis(150));
    lc::verif_set_status(&child.cell, 5);
    lc::verif_set_status(&child.cell, 6);
    drop(guard);
    let linked = th.join().unwrap();
    let kids = lc::verif_children(&sup.cell).map(|v| v.len()).unwrap_or(0);
    println!("link_ret={}", linked as u8);
    println!("child_status={}", child.cell.get_status() as u8);
    println!("child_has_supervisor={}", child.cell.try_get_supervisor().is_some() as u8);
    println!("sup_children={}", kids);
}

/// C04 delivery slice: a supervisor that is Draining (parked inside a handler, backlog behind it) while one linked child panics and another is stopped:
/// both terminal events must reach it before it exits through the drain marker.
pub fn draining_supervisor(_a: &Args) {
    use ractor::{Actor, ActorProcessingErr, ActorRef, SupervisionEvent};
    use std::sync::{Arc, Mutex};
    type Log = Arc<Mutex<Vec<String>>>;
    struct S {
        log: Log,
        gate: Arc<tokio::sync::Semaphore>,
    }
    impl Actor for S {
        type Msg = u64;
        type State = ();
        type Arguments = ();
        async fn pre_start(&self, _: ActorRef<u64>, _: ()) -> Result<(), ActorProcessingErr> {
            Ok(())
        }
        async fn handle(&self, _: ActorRef<u64>, m: u64, _: &mut ()) -> Result<(), ActorProcessingErr> {
            self.log.lock().unwrap().push(format!("handle:{}", m));
            if m == 1 {
                self.gate.acquire().await.unwrap().forget();
            }
            Ok(())
        }
        async fn handle_supervisor_evt(&self, _: ActorRef<u64>, m: SupervisionEvent, _: &mut ()) -> Result<(), ActorProcessingErr> {
            match m {
                SupervisionEvent::ActorFailed(_, e) => self.log.lock().unwrap().push(format!("failed:{}", e)),
                SupervisionEvent::ActorTerminated(_, _, r) => self.log.lock().unwrap().push(format!("terminated:{}", r.unwrap_or_default())),
                _ => {}
            }
            Ok(())
        }
    }
    struct C;
    impl Actor for C {
        type Msg = u64;
        type State = ();
        type Arguments = ();
        async fn pre_start(&self, _: ActorRef<u64>, _: ()) -> Result<(), ActorProcessingErr> {
            Ok(())
        }
        async fn handle(&self, _: ActorRef<u64>, _m: u64, _: &mut ()) -> Result<(), ActorProcessingErr> {
            panic!("child exploded");
        }
    }
    std::panic::set_hook(Box::new(|_| {}));
    let rt = tokio::runtime::Builder::new_multi_thread().worker_threads(2).enable_all().build().unwrap();
    let log: Log = Default::default();
    let gate = Arc::new(tokio::sync::Semaphore::new(0));
    rt.block_on(async {
        let (sup, sh) = Actor::spawn(None, S { log: log.clone(), gate: gate.clone() }, ()).await.unwrap();
        let (c1, h1) = Actor::spawn_linked(None, C, (), sup.get_cell()).await.unwrap();
        let (c2, h2) = Actor::spawn_linked(None, C, (), sup.get_cell()).await.unwrap();
        sup.cast(1).unwrap();
        sup.cast(2).unwrap();
        for _ in 0..2000 {
            if log.lock().unwrap().iter().any(|l| l == "handle:1") {
                break;
            }
            tokio::task::yield_now().await;
        }
        let drained = sup.drain().is_ok();
        println!("drain_ok={}", drained as u8);
        println!("status_when_children_exit={}", sup.get_status() as u8);
        c1.cast(0).unwrap();
        c2.stop(Some("done".to_string()));
        let _ = tokio::time::timeout(std::time::Duration::from_secs(3), h1).await;
        let _ = tokio::time::timeout(std::time::Duration::from_secs(3), h2).await;
        gate.add_permits(4);
        let ended = tokio::time::timeout(std::time::Duration::from_secs(3), sh).await.is_ok();
        println!("ended={}", ended as u8);
    });
    println!("log={}", log.lock().unwrap().join(","));
}
