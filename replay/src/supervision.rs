//! Native replay of single supervision-tree operations (C05 sequential slice) on real cells.
use crate::Args;
use ractor::verif_hooks::lifecycle as lc;

fn opt_list(s: &str) -> Vec<Option<usize>> {
    s.split(',').filter(|x| !x.is_empty()).map(|x| if x == "-" { None } else { Some(x.parse().unwrap()) }).collect()
}

pub fn run(a: &Args) {
    let n = a.usize("n");
    let sup = opt_list(a.str("sup"));
    let closed: Vec<usize> = a.list_u128("closed").into_iter().map(|x| x as usize).collect();
    let statuses: Vec<u8> = a.list_u128("statuses").into_iter().map(|x| x as u8).collect();
    let op = a.str("op").to_string();
    let x = a.usize("a");
    let y = a.opt_u128("b").map(|v| v as usize);
    let mut husks: Vec<lc::Husk> = (0..n).map(|_| lc::husk(None, 2)).collect();
    for h in husks.iter_mut() {
        h.forget_guard();
    }
    // build the shape while every cell is Running, then close sets and set statuses
    for (c, s) in sup.iter().enumerate() {
        if let Some(s) = s {
            assert!(lc::verif_link(&husks[c].cell, &husks[*s].cell), "shape construction failed");
        }
    }
    for c in closed.iter() {
        let taken = lc::verif_take_children(&husks[*c].cell);
        assert!(taken.is_empty());
    }
    for (i, s) in statuses.iter().enumerate() {
        lc::verif_force_status(&husks[i].cell, *s);
    }
    let pids: Vec<u64> = husks.iter().map(|h| h.cell.get_id().pid()).collect();
    let idx = |pid: u64| pids.iter().position(|p| *p == pid).map(|i| i.to_string()).unwrap_or_else(|| "?".into());
    let mut ret = String::from("-");
    match op.as_str() {
        "link" => ret = (lc::verif_link(&husks[x].cell, &husks[y.unwrap()].cell) as u8).to_string(),
        "unlink" => husks[x].cell.unlink(husks[y.unwrap()].cell.clone()),
        "take" => {
            let mut v: Vec<String> = lc::verif_take_children(&husks[x].cell).iter().map(|c| idx(c.get_id().pid())).collect();
            v.sort();
            ret = v.join("+");
        }
        "terminate" => lc::verif_terminate(&husks[x].cell),
        _ => panic!("unknown op"),
    }
    println!("ret={}", ret);
    for i in 0..n {
        let kids = match lc::verif_children(&husks[i].cell) {
            None => "closed".to_string(),
            Some(mut v) => {
                let mut k: Vec<String> = v.drain(..).map(|c| idx(c.get_id().pid())).collect();
                k.sort();
                k.join("+")
            }
        };
        let s = husks[i].cell.try_get_supervisor().map(|c| idx(c.get_id().pid())).unwrap_or_else(|| "-".into());
        println!("cell{}=children:{};sup:{};killed:{};status:{}", i, kids, s, lc::verif_signal_taken(&husks[i].cell) as u8, husks[i].cell.get_status() as u8);
    }
}
