//! Native replay of solver counterexamples / translator validation against the real build (guard on).
//! usage: vreplay <scenario> key=value ...     output: key=value lines on stdout
use std::collections::HashMap;

mod auth;
mod cluster;
mod decode;
mod waitw;
mod derive;
mod life;
mod mailbox;
mod outport;
mod pg;
mod ratelim;
mod registry;
mod routing;
mod rpc;
mod select;
mod shutdown;
mod supervision;
mod timers;
mod worker;

pub struct Args(HashMap<String, String>);
impl Args {
    pub fn u128(&self, k: &str) -> u128 {
        self.0.get(k).unwrap_or_else(|| panic!("missing arg {k}")).parse().unwrap()
    }
    pub fn usize(&self, k: &str) -> usize {
        self.u128(k) as usize
    }
    pub fn u64(&self, k: &str) -> u64 {
        self.u128(k) as u64
    }
    pub fn opt_u128(&self, k: &str) -> Option<u128> {
        match self.0.get(k).map(|s| s.as_str()) {
            None | Some("none") => None,
            Some(v) => Some(v.parse().unwrap()),
        }
    }
    pub fn str(&self, k: &str) -> &str {
        self.0.get(k).map(|s| s.as_str()).unwrap_or("")
    }
    /// "0:status.load,1:message.send" or plain "0,1" (label "*")
    pub fn labelled_schedule(&self, k: &str) -> Vec<(usize, String)> {
        self.str(k)
            .split(',')
            .filter(|s| !s.is_empty())
            .map(|s| match s.split_once(':') {
                Some((t, l)) => (t.parse().unwrap(), l.to_string()),
                None => (s.parse().unwrap(), "*".to_string()),
            })
            .collect()
    }
    pub fn list_u128(&self, k: &str) -> Vec<u128> {
        self.str(k).split(',').filter(|s| !s.is_empty()).map(|s| s.parse().unwrap()).collect()
    }
}

fn main() {
    let mut it = std::env::args().skip(1);
    let scenario = it.next().expect("scenario");
    let mut m = HashMap::new();
    for a in it {
        if let Some((k, v)) = a.split_once('=') {
            m.insert(k.to_string(), v.to_string());
        }
    }
    let args = Args(m);
    match scenario.as_str() {
        "ratelim_refresh" => ratelim::refresh(&args),
        "ratelim_window" => ratelim::window(&args),
        "mailbox" => mailbox::run(&args),
        "shutdown" => shutdown::run(&args),
        "registry" => registry::run(&args),
        "name_reuse" => registry::name_reuse(&args),
        "name_clash" => registry::name_clash(&args),
        "life" => life::run(&args),
        "kill_window" => life::kill_window(&args),
        "tl_queued_cancel" => life::tl_queued_cancel(&args),
        "worker_enqueue" => worker::run(&args),
        "worker_books" => worker::books(&args),
        "worker_fates" => worker::fates(&args),
        "factory_step" => worker::factory_step(&args),
        "factory_finished" => worker::factory_finished(&args),
        "factory_pool" => worker::factory_pool(&args),
        "routing" => routing::run(&args),
        "route_kp" => routing::route_kp(&args),
        "dead_window" => routing::dead_window(&args),
        "factory_drain" => worker::factory_drain(&args),
        "factory_queuer" => worker::factory_queuer(&args),
        "factory_stale" => worker::factory_stale(&args),
        "factory_stop" => worker::factory_stop(&args),
        "outport" => outport::run(&args),
        "pg" => pg::run(&args),
        "pg_race" => pg::race(&args),
        "decode_drop" => decode::run(&args),
        "wait_wrappers" => waitw::run(&args),
        "teardown_panic" => waitw::teardown_panic(&args),
        "job_meta" => decode::job_meta(&args),
        "derive_decode" => derive::decode(&args),
        "derive_roundtrip" => derive::roundtrip(&args),
        "rpc" => rpc::run(&args),
        "timers" => timers::run(&args),
        "timer_stopping_target" => timers::stopping_target(&args),
        "select_listen" => select::listen(&args),
        "select_rws" => select::rws(&args),
        "supervision" => supervision::run(&args),
        "link_race" => supervision::link_race(&args),
        "draining_supervisor" => supervision::draining_supervisor(&args),
        "typegate" => mailbox::typegate(&args),
        "dequeue" => mailbox::dequeue(&args),
        "request" => mailbox::request(&args),
        "marker_window" => mailbox::marker_window(&args),
        "auth_fsm" => auth::fsm(&args),
        "auth_session" => auth::session(&args),
        "remote_proxy" => auth::proxy(&args),
        "node_sessions" => auth::sessions(&args),
        "node_commit" => auth::commit(&args),
        "node_check" => auth::check_candidate(&args),
        "node_check_session" => auth::check_session(&args),
        "node_ready" => auth::ready(&args),
        "session_mirror" => auth::mirror(&args),
        "session_announce" => auth::announce(&args),
        "session_child_exit" => auth::child_exit(&args),
        "elect" => cluster::elect(&args),
        "elect_search" => cluster::elect_search(&args),
        "frame_len" => cluster::frame_len(&args),
        "codec" => cluster::codec(&args),
        "read_n" => cluster::read_n(&args),
        "reader_actor" => cluster::reader_actor(&args),
        "frame_limit" => cluster::frame_limit(&args),
        "write_backlog" => cluster::write_backlog(&args),
        other => {
            eprintln!("unknown scenario {other}");
            std::process::exit(3);
        }
    }
}
