//! real `call` / `call_and_forward` against a scripted callee on tokio's paused clock (C09 replays)
use crate::Args;
use ractor::{Actor, ActorProcessingErr, ActorRef, RpcReplyPort};
use std::sync::{Arc, Mutex};
use std::time::Duration;

enum Ask {
    Q(RpcReplyPort<u64>),
}
impl ractor::Message for Ask {}

struct Callee {
    mode: String,
    log: Arc<Mutex<Vec<String>>>,
}
impl Actor for Callee {
    type Msg = Ask;
    type State = Vec<RpcReplyPort<u64>>;
    type Arguments = ();
    async fn pre_start(&self, _: ActorRef<Ask>, _: ()) -> Result<Self::State, ActorProcessingErr> {
        Ok(Vec::new())
    }
    async fn handle(&self, _: ActorRef<Ask>, m: Ask, held: &mut Self::State) -> Result<(), ActorProcessingErr> {
        let Ask::Q(port) = m;
        self.log.lock().unwrap().push(format!("port_timeout:{}", port.get_timeout().map(|d| d.as_millis() as i64).unwrap_or(-1)));
        let mode = self.mode.clone();
        if let Some(v) = mode.strip_prefix("reply:") {
            let _ = port.send(v.parse().unwrap());
        } else if mode == "drop" {
            drop(port);
        } else if mode == "hold" {
            held.push(port);
        } else if let Some(ms) = mode.strip_prefix("late:") {
            let ms: u64 = ms.parse().unwrap();
            tokio::spawn(async move {
                tokio::time::sleep(Duration::from_millis(ms)).await;
                let _ = port.send(9);
            });
        }
        Ok(())
    }
}

struct Fwd {
    log: Arc<Mutex<Vec<String>>>,
    who: &'static str,
}
impl Actor for Fwd {
    type Msg = u64;
    type State = ();
    type Arguments = ();
    async fn pre_start(&self, _: ActorRef<u64>, _: ()) -> Result<(), ActorProcessingErr> {
        Ok(())
    }
    async fn handle(&self, _: ActorRef<u64>, m: u64, _: &mut ()) -> Result<(), ActorProcessingErr> {
        self.log.lock().unwrap().push(format!("forwarded:{}:{}", self.who, m));
        Ok(())
    }
}

/// rpc which=call|derived|forward mode=<callee behaviour> timeout_ms=<n|none> dead=0|1
pub fn run(a: &Args) {
    let which = a.str("which").to_string();
    let timeout = a.opt_u128("timeout_ms").map(|x| Duration::from_millis(x as u64));
    let dead = a.u64("dead") == 1;
    let log = Arc::new(Mutex::new(Vec::new()));
    let rt = tokio::runtime::Builder::new_current_thread().enable_time().start_paused(true).build().unwrap();
    rt.block_on(async {
        let t0 = tokio::time::Instant::now();
        let (callee, ch) = Actor::spawn(None, Callee { mode: a.str("mode").to_string(), log: log.clone() }, ()).await.unwrap();
        let (fwd, _fh) = Actor::spawn(None, Fwd { log: log.clone(), who: "target" }, ()).await.unwrap();
        if dead {
            callee.stop(None);
            let _ = ch.await;
        }
        let fmt = |r: &ractor::rpc::CallResult<u64>| match r {
            ractor::rpc::CallResult::Success(v) => format!("Success:{v}"),
            ractor::rpc::CallResult::Timeout => "Timeout".to_string(),
            ractor::rpc::CallResult::SenderError => "SenderError".to_string(),
        };
        let res = match which.as_str() {
            "call" => match tokio::time::timeout(Duration::from_secs(3600), callee.call(Ask::Q, timeout)).await {
                Err(_) => "hang".to_string(),
                Ok(Ok(r)) => fmt(&r),
                Ok(Err(_)) => "SendErr".to_string(),
            },
            "derived" => {
                let d: ractor::DerivedActorRef<Ask> = callee.get_derived();
                match tokio::time::timeout(Duration::from_secs(3600), d.call(Ask::Q, timeout)).await {
                    Err(_) => "hang".to_string(),
                    Ok(Ok(r)) => fmt(&r),
                    Ok(Err(_)) => "SendErr".to_string(),
                }
            }
            "forward" => match callee.call_and_forward(Ask::Q, &fwd, |v: u64| v + 1000, timeout) {
                Err(_) => "SendErr".to_string(),
                Ok(h) => match tokio::time::timeout(Duration::from_secs(3600), h).await {
                    Err(_) => "hang".to_string(),
                    Ok(Ok(ractor::rpc::CallResult::Success(Ok(())))) => "Success:forwarded".to_string(),
                    Ok(Ok(ractor::rpc::CallResult::Success(Err(_)))) => "Success:forward_failed".to_string(),
                    Ok(Ok(ractor::rpc::CallResult::Timeout)) => "Timeout".to_string(),
                    Ok(Ok(ractor::rpc::CallResult::SenderError)) => "SenderError".to_string(),
                    Ok(Err(_)) => "join_error".to_string(),
                },
            },
            "multi" => {
                let (callee2, _ch2) = Actor::spawn(None, Callee { mode: a.str("mode2").to_string(), log: log.clone() }, ()).await.unwrap();
                match tokio::time::timeout(Duration::from_secs(3600), ractor::rpc::multi_call(&[callee.clone(), callee2], Ask::Q, timeout)).await {
                    Err(_) => "hang".to_string(),
                    Ok(Ok(v)) => v.iter().map(fmt).collect::<Vec<_>>().join("|"),
                    Ok(Err(_)) => "SendErr".to_string(),
                }
            }
            other => panic!("unknown rpc scenario {other}"),
        };
        log.lock().unwrap().push(format!("result:{}@{}", res, t0.elapsed().as_millis()));
        tokio::time::sleep(Duration::from_millis(500)).await;
    });
    println!("log={}", log.lock().unwrap().join(","));
}
