//! C19 derive slice: the real decoder / encoder generated for the probe enum of /verif/derive_probe (the same source the MIR is taken from).
use crate::Args;
use ractor::message::SerializedMessage;

#[allow(dead_code)]
#[path = "/verif/derive_probe/src/lib.rs"]
mod probe;
use probe::Probe;

fn show(p: &Probe) -> String {
    match p {
        Probe::Unit => "Unit".to_string(),
        Probe::One(a) => format!("One/{}", a),
        Probe::Two(a, b) => format!("Two/{}/{}", a, b.as_bytes().iter().map(|x| x.to_string()).collect::<Vec<_>>().join(".")),
        Probe::Named { a, b } => format!("Named/{}/{}", a, b.iter().map(|x| x.to_string()).collect::<Vec<_>>().join(".")),
        Probe::Ask(_) => "Ask".to_string(),
        Probe::AskWith(a, _) => format!("AskWith/{}", a),
        Probe::PortFirst(_, a) => format!("PortFirst/{}", a),
        Probe::NamedAsk { x, .. } => format!("NamedAsk/{}", x),
    }
}

/// derive_decode kind=cast|call|reply tag=<string> args=<bytes>
pub fn decode(a: &Args) {
    std::panic::set_hook(Box::new(|_| {}));
    let args: Vec<u8> = a.list_u128("args").iter().map(|x| *x as u8).collect();
    let tag = a.str("tag").to_string();
    let kind = a.str("kind").to_string();
    let rt = tokio::runtime::Builder::new_current_thread().enable_time().build().unwrap();
    rt.block_on(async {
        let msg = match kind.as_str() {
            "cast" => SerializedMessage::Cast { variant: tag, args, metadata: None },
            "call" => {
                let (tx, _rx) = ractor::concurrency::oneshot();
                SerializedMessage::Call { variant: tag, args, reply: tx.into(), metadata: None }
            }
            _ => SerializedMessage::CallReply(7, args),
        };
        match std::panic::catch_unwind(std::panic::AssertUnwindSafe(|| probe::decode(msg))) {
            Err(_) => println!("result=panicked"),
            Ok(Err(_)) => println!("result=err"),
            Ok(Ok(p)) => {
                println!("result=ok");
                println!("value={}", show(&p));
            }
        }
    });
}

/// derive_roundtrip : every variant with a few field values through encode then decode
pub fn roundtrip(_a: &Args) {
    std::panic::set_hook(Box::new(|_| {}));
    let rt = tokio::runtime::Builder::new_current_thread().enable_time().build().unwrap();
    rt.block_on(async {
        fn port<T>() -> ractor::RpcReplyPort<T> {
            let (tx, _rx) = ractor::concurrency::oneshot();
            ractor::RpcReplyPort::from(tx)
        }
        let mut vals: Vec<Probe> = vec![Probe::Unit];
        for x in [0u64, 1, 0x0102030405060708, u64::MAX] {
            vals.push(Probe::One(x));
            vals.push(Probe::PortFirst(port(), x));
            vals.push(Probe::NamedAsk { x, reply: port() });
        }
        for (x, s) in [(0u32, ""), (7, "a"), (u32::MAX, "h\u{e9}llo")] {
            vals.push(Probe::Two(x, s.to_string()));
        }
        for (x, v) in [(0u16, vec![]), (258, vec![0u8]), (u16::MAX, vec![1, 2, 3, 255])] {
            vals.push(Probe::Named { a: x, b: v });
        }
        vals.push(Probe::Ask(port()));
        for x in [0u8, 9, 255] {
            vals.push(Probe::AskWith(x, port()));
        }
        let mut bad = Vec::new();
        let n = vals.len();
        for v in vals {
            let before = show(&v);
            let r = std::panic::catch_unwind(std::panic::AssertUnwindSafe(|| probe::encode(v).and_then(probe::decode)));
            let after = match r {
                Err(_) => "panicked".to_string(),
                Ok(Err(_)) => "err".to_string(),
                Ok(Ok(p)) => show(&p),
            };
            if after != before {
                bad.push(format!("{}->{}", before, after));
            }
        }
        println!("values={}", n);
        println!("bad={}", bad.join(","));
    });
}
