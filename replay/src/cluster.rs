//! Native replay of engine-K (Kani) counterexamples for C18 / C19: the same hook wrappers the harnesses call, on the
//! real build. Oracles are re-evaluated by the property files on the printed `key=value` lines.
use crate::Args;
use ractor::BytesConvertable;
use ractor_cluster::node::verif_probe::verif_elect;
use ractor_cluster::verif_session_probe::verif_frame_len;

fn join<T: ToString>(v: &[T]) -> String {
    v.iter().map(|x| x.to_string()).collect::<Vec<_>>().join(",")
}

/// elect this=<name> peer=<name> pids=.. srv=0|1,.. nonces=..   ->  elected=<pids>
pub fn elect(a: &Args) {
    let pids = a.list_u128("pids");
    let srv = a.list_u128("srv");
    let nonces = a.list_u128("nonces");
    let cands: Vec<(u64, bool, u64)> = (0..pids.len()).map(|i| (pids[i] as u64, srv[i] != 0, nonces[i] as u64)).collect();
    let r = std::panic::catch_unwind(|| verif_elect(a.str("this"), a.str("peer"), &cands));
    match r {
        Ok(e) => {
            println!("panicked=false");
            println!("elected={}", join(&e));
        }
        Err(_) => println!("panicked=true"),
    }
}

fn mask(pids: &[u64], elected: &[u64]) -> Option<u32> {
    let mut m = 0u32;
    for e in elected {
        let i = pids.iter().position(|p| p == e)?;
        if m & (1 << i) != 0 {
            return None;
        }
        m |= 1 << i;
    }
    Some(m)
}

/// The C18 oracle on one concrete instance (same formulation as /verif/kani/vk/src/elect.rs); returns the violated clause
fn elect_oracle(srv: &[bool], nonce: &[u64], pa: &[u64], pb: &[u64], a_is_low: bool) -> Option<&'static str> {
    let n = srv.len();
    let (na, nb) = if a_is_low { ("n1", "n2") } else { ("n2", "n1") };
    let ca: Vec<(u64, bool, u64)> = (0..n).map(|i| (pa[i], srv[i], nonce[i])).collect();
    let cb: Vec<(u64, bool, u64)> = (0..n).map(|i| (pb[i], !srv[i], nonce[i])).collect();
    let ea = verif_elect(na, nb, &ca);
    let eb = verif_elect(nb, na, &cb);
    let (ma, mb) = match (mask(pa, &ea), mask(pb, &eb)) {
        (Some(x), Some(y)) if x != 0 && y != 0 => (x, y),
        _ => return Some("c_nonempty_subset"),
    };
    // (a) order independence at A: swap of the first two, rotation
    if n >= 2 {
        let mut sw = ca.clone();
        sw.swap(0, 1);
        let mut ro = ca.clone();
        ro.rotate_left(1);
        for c in [sw, ro] {
            match mask(pa, &verif_elect(na, nb, &c)) {
                Some(m) if m == ma => {}
                _ => return Some("a_order_independent"),
            }
        }
    }
    let union = ma | mb;
    let any_srv = (0..n).any(|i| union & (1 << i) != 0 && srv[i]);
    let any_cli = (0..n).any(|i| union & (1 << i) != 0 && !srv[i]);
    if any_srv && any_cli {
        return Some("b1_same_direction");
    }
    let (acc, ini) = if any_srv { (ma, mb) } else { (mb, ma) };
    if acc.count_ones() != 1 {
        return Some("b2_acceptor_elects_one");
    }
    if acc & ini != acc {
        return Some("b3_survivor_kept_by_initiator");
    }
    let w = acc.trailing_zeros() as usize;
    if (0..n).any(|i| ini & (1 << i) != 0 && nonce[i] != nonce[w]) {
        return Some("b4_initiator_ties_share_nonce");
    }
    let distinct = (0..n).all(|i| nonce[i] != 0 && (0..i).all(|j| nonce[j] != nonce[i]));
    if distinct && !(ma == mb && ma.count_ones() == 1) {
        return Some("b5_distinct_nonces_equal_singletons");
    }
    None
}

/// elect_search n=<2|3> : bounded native search for an oracle violation (fallback when a Kani trace cannot be
/// concretised): srv in {0,1}^n, nonce in {0,1,2,3}^n, every order of local ids at both nodes, both name orders
pub fn elect_search(a: &Args) {
    let n = a.usize("n");
    let perms: Vec<Vec<u64>> = permutations(n);
    let mut examined = 0u64;
    for sbits in 0..(1u32 << n) {
        let srv: Vec<bool> = (0..n).map(|i| sbits & (1 << i) != 0).collect();
        for code in 0..4u32.pow(n as u32) {
            let nonce: Vec<u64> = (0..n).map(|i| ((code >> (2 * i)) & 3) as u64).collect();
            for p1 in &perms {
                let pa: Vec<u64> = p1.iter().map(|x| 10 + x).collect();
                for p2 in &perms {
                    let pb: Vec<u64> = p2.iter().map(|x| 20 + x).collect();
                    for a_is_low in [false, true] {
                        examined += 1;
                        if let Some(clause) = elect_oracle(&srv, &nonce, &pa, &pb, a_is_low) {
                            println!("found=true");
                            println!("clause={clause}");
                            println!("srv={}", join(&srv.iter().map(|b| *b as u8).collect::<Vec<_>>()));
                            println!("nonces={}", join(&nonce));
                            println!("pa={}", join(&pa));
                            println!("pb={}", join(&pb));
                            println!("a_is_low={}", a_is_low as u8);
                            println!("examined={examined}");
                            return;
                        }
                    }
                }
            }
        }
    }
    println!("found=false");
    println!("examined={examined}");
}

fn permutations(n: usize) -> Vec<Vec<u64>> {
    fn rec(cur: &mut Vec<u64>, n: usize, out: &mut Vec<Vec<u64>>) {
        if cur.len() == n {
            out.push(cur.clone());
            return;
        }
        for x in 0..n as u64 {
            if !cur.contains(&x) {
                cur.push(x);
                rec(cur, n, out);
                cur.pop();
            }
        }
    }
    let mut out = Vec::new();
    rec(&mut Vec::new(), n, &mut out);
    out
}

/// frame_len len=<u64> max=<u64>  ->  result=none|<n>
pub fn frame_len(a: &Args) {
    match verif_frame_len(a.u64("len"), a.u64("max")) {
        Some(n) => println!("result={n}"),
        None => println!("result=none"),
    }
}

macro_rules! scalar_arm {
    ($ty:ty, $vals:expr, $dec:expr) => {{
        // values are unsigned bit patterns of the type's width
        let v = $vals[0] as $ty;
        let b = <$ty as BytesConvertable>::into_bytes(v);
        println!("bytes={}", join(&b));
        let w = <$ty as BytesConvertable>::from_bytes(b);
        println!("back={}", w as u128 & (u128::MAX >> (128 - 8 * std::mem::size_of::<$ty>() as u32)));
    }};
}

macro_rules! vec_arm {
    ($ty:ty, $a:expr) => {{
        let mask = u128::MAX >> (128 - 8 * std::mem::size_of::<$ty>() as u32);
        if $a.str("op") == "decode" {
            let raw: Vec<u8> = $a.list_u128("bytes").into_iter().map(|x| x as u8).collect();
            let w = <Vec<$ty> as BytesConvertable>::from_bytes(raw);
            println!("back={}", join(&w.iter().map(|x| *x as u128 & mask).collect::<Vec<_>>()));
        } else {
            let v: Vec<$ty> = $a.list_u128("values").into_iter().map(|x| x as $ty).collect();
            let b = <Vec<$ty> as BytesConvertable>::into_bytes(v);
            println!("bytes={}", join(&b));
            let w = <Vec<$ty> as BytesConvertable>::from_bytes(b);
            println!("back={}", join(&w.iter().map(|x| *x as u128 & mask).collect::<Vec<_>>()));
        }
    }};
}

/// codec ty=<u8|..|i128|f32|f64|bool|char|unit|string|vec_<elem>> op=<rt|decode> values=<bit patterns> | bytes=<..>
///   rt:     into_bytes then from_bytes      -> bytes=.. back=<bit patterns>
///   decode: from_bytes on the given bytes   -> back=<bit patterns>
/// a panic anywhere prints panicked=true
pub fn codec(a: &Args) {
    let ty = a.str("ty").to_string();
    let r = std::panic::catch_unwind(std::panic::AssertUnwindSafe(|| {
        let vals = a.list_u128("values");
        match ty.as_str() {
            "u8" => scalar_arm!(u8, vals, 0),
            "u16" => scalar_arm!(u16, vals, 0),
            "u32" => scalar_arm!(u32, vals, 0),
            "u64" => scalar_arm!(u64, vals, 0),
            "u128" => scalar_arm!(u128, vals, 0),
            "i8" => scalar_arm!(i8, vals, 0),
            "i16" => scalar_arm!(i16, vals, 0),
            "i32" => scalar_arm!(i32, vals, 0),
            "i64" => scalar_arm!(i64, vals, 0),
            "i128" => scalar_arm!(i128, vals, 0),
            "f32" => {
                let b = f32::from_bits(vals[0] as u32).into_bytes();
                println!("bytes={}", join(&b));
                println!("back={}", <f32 as BytesConvertable>::from_bytes(b).to_bits());
            }
            "f64" => {
                let b = f64::from_bits(vals[0] as u64).into_bytes();
                println!("bytes={}", join(&b));
                println!("back={}", <f64 as BytesConvertable>::from_bytes(b).to_bits());
            }
            "bool" => {
                let b = (vals[0] != 0).into_bytes();
                println!("bytes={}", join(&b));
                println!("back={}", <bool as BytesConvertable>::from_bytes(b) as u8);
            }
            "char" => {
                let b = char::from_u32(vals[0] as u32).expect("valid scalar value").into_bytes();
                println!("bytes={}", join(&b));
                println!("back={}", <char as BytesConvertable>::from_bytes(b) as u32);
            }
            "unit" => {
                let b = ().into_bytes();
                println!("bytes={}", join(&b));
                <() as BytesConvertable>::from_bytes(b);
                println!("back=");
            }
            "string" => {
                let raw: Vec<u8> = vals.iter().map(|x| *x as u8).collect();
                let s = String::from_utf8(raw).expect("replay input is valid UTF-8");
                let b = <String as BytesConvertable>::into_bytes(s);
                println!("bytes={}", join(&b));
                let t = <String as BytesConvertable>::from_bytes(b);
                println!("back={}", join(t.as_bytes()));
            }
            "vec_u8" => vec_arm!(u8, a),
            "vec_u16" => vec_arm!(u16, a),
            "vec_u32" => vec_arm!(u32, a),
            "vec_u64" => vec_arm!(u64, a),
            "vec_u128" => vec_arm!(u128, a),
            "vec_i8" => vec_arm!(i8, a),
            "vec_i16" => vec_arm!(i16, a),
            "vec_i32" => vec_arm!(i32, a),
            "vec_i64" => vec_arm!(i64, a),
            "vec_i128" => vec_arm!(i128, a),
            "vec_f32" => {
                if a.str("op") == "decode" {
                    let raw: Vec<u8> = a.list_u128("bytes").into_iter().map(|x| x as u8).collect();
                    let w = <Vec<f32> as BytesConvertable>::from_bytes(raw);
                    println!("back={}", join(&w.iter().map(|x| x.to_bits()).collect::<Vec<_>>()));
                } else {
                    let v: Vec<f32> = vals.iter().map(|x| f32::from_bits(*x as u32)).collect();
                    let b = v.into_bytes();
                    println!("bytes={}", join(&b));
                    let w = <Vec<f32> as BytesConvertable>::from_bytes(b);
                    println!("back={}", join(&w.iter().map(|x| x.to_bits()).collect::<Vec<_>>()));
                }
            }
            "vec_f64" => {
                if a.str("op") == "decode" {
                    let raw: Vec<u8> = a.list_u128("bytes").into_iter().map(|x| x as u8).collect();
                    let w = <Vec<f64> as BytesConvertable>::from_bytes(raw);
                    println!("back={}", join(&w.iter().map(|x| x.to_bits()).collect::<Vec<_>>()));
                } else {
                    let v: Vec<f64> = vals.iter().map(|x| f64::from_bits(*x as u64)).collect();
                    let b = v.into_bytes();
                    println!("bytes={}", join(&b));
                    let w = <Vec<f64> as BytesConvertable>::from_bytes(b);
                    println!("back={}", join(&w.iter().map(|x| x.to_bits()).collect::<Vec<_>>()));
                }
            }
            "vec_bool" => {
                if a.str("op") == "decode" {
                    let raw: Vec<u8> = a.list_u128("bytes").into_iter().map(|x| x as u8).collect();
                    let w = <Vec<bool> as BytesConvertable>::from_bytes(raw);
                    println!("back={}", join(&w.iter().map(|x| *x as u8).collect::<Vec<_>>()));
                } else {
                    let v: Vec<bool> = vals.iter().map(|x| *x != 0).collect();
                    let b = v.into_bytes();
                    println!("bytes={}", join(&b));
                    let w = <Vec<bool> as BytesConvertable>::from_bytes(b);
                    println!("back={}", join(&w.iter().map(|x| *x as u8).collect::<Vec<_>>()));
                }
            }
            "vec_char" => {
                if a.str("op") == "decode" {
                    let raw: Vec<u8> = a.list_u128("bytes").into_iter().map(|x| x as u8).collect();
                    let w = <Vec<char> as BytesConvertable>::from_bytes(raw);
                    println!("back={}", join(&w.iter().map(|x| *x as u32).collect::<Vec<_>>()));
                } else {
                    let v: Vec<char> = vals.iter().map(|x| char::from_u32(*x as u32).expect("valid scalar value")).collect();
                    let b = v.into_bytes();
                    println!("bytes={}", join(&b));
                    let w = <Vec<char> as BytesConvertable>::from_bytes(b);
                    println!("back={}", join(&w.iter().map(|x| *x as u32).collect::<Vec<_>>()));
                }
            }
            other => {
                eprintln!("unknown codec type {other}");
                std::process::exit(3);
            }
        }
    }));
    println!("panicked={}", r.is_err());
}

/// read_n len=<n> total=<n> chunks=<sizes>
pub fn read_n(a: &Args) {
    let chunks: Vec<usize> = a.list_u128("chunks").iter().map(|x| *x as usize).collect();
    let rt = tokio::runtime::Builder::new_current_thread().enable_time().build().unwrap();
    match rt.block_on(ractor_cluster::verif_session_probe::verif_read_n(a.usize("len"), a.usize("total"), &chunks)) {
        Ok((n, intact)) => {
            println!("result=ok");
            println!("n={}", n);
            println!("intact={}", intact as u8);
        }
        Err(k) => {
            println!("result=err");
            println!("kind={}", k);
        }
    }
}

/// reader_actor good=<n> tail=<bytes> piece=<n> max=<n>
pub fn reader_actor(a: &Args) {
    let tail: Vec<u8> = a.list_u128("tail").iter().map(|x| *x as u8).collect();
    let rt = tokio::runtime::Builder::new_current_thread().enable_time().build().unwrap();
    let (n, status, sink_alive) =
        rt.block_on(ractor_cluster::verif_session_probe::verif_reader_actor(a.usize("good"), tail, a.usize("piece"), a.opt_u128("max").unwrap_or(1 << 20) as u64));
    println!("frames={}", n);
    println!("reader_status={}", status);
    println!("session_alive={}", sink_alive as u8);
}

/// C19 limit plumbing: a NodeServer configured with a small inbound frame limit; a connection injected over an external transport sends only the 8-byte
/// header of a frame. `frame_limit limit=<n> declared=<n>` prints closed=1 if the node closed the connection from the header alone.
pub fn frame_limit(a: &Args) {
    use ractor::Actor;
    use ractor_cluster::{BoxRead, BoxWrite, ClusterBidiStream, NodeServer, NodeServerMessage};
    use tokio::io::{AsyncReadExt, AsyncWriteExt};
    struct Duplex(tokio::io::DuplexStream);
    impl ClusterBidiStream for Duplex {
        fn split(self: Box<Self>) -> (BoxRead, BoxWrite) {
            let (r, w) = tokio::io::split(self.0);
            (Box::new(r), Box::new(w))
        }
        fn peer_label(&self) -> Option<String> {
            Some("peer".to_string())
        }
        fn local_label(&self) -> Option<String> {
            Some("local".to_string())
        }
    }
    let limit = a.u64("limit");
    let declared = a.u64("declared");
    let rt = tokio::runtime::Builder::new_multi_thread().worker_threads(2).enable_all().build().unwrap();
    rt.block_on(async {
        let server = NodeServer::new(0, "cookie".to_string(), format!("limit-node-{}", std::process::id()), "localhost".to_string(), None, None).with_max_inbound_frame_size(limit);
        let (node, node_handle) = Actor::spawn(None, server, ()).await.expect("node server starts");
        let (ours, theirs) = tokio::io::duplex(64 * 1024);
        node.cast(NodeServerMessage::ConnectionOpenedExternal { stream: Box::new(Duplex(theirs)), is_server: true }).expect("connection accepted");
        let (mut read, mut write) = tokio::io::split(ours);
        write.write_all(&declared.to_be_bytes()).await.expect("header written");
        write.flush().await.expect("flushed");
        let mut sink = [0u8; 64];
        let closed = matches!(tokio::time::timeout(std::time::Duration::from_millis(1500), read.read(&mut sink)).await, Ok(Ok(0)) | Ok(Err(_)));
        println!("closed={}", closed as u8);
        node.stop(None);
        let _ = tokio::time::timeout(std::time::Duration::from_secs(3), node_handle).await;
    });
}

/// write_backlog frames=<n> size=<bytes>
pub fn write_backlog(a: &Args) {
    let rt = tokio::runtime::Builder::new_multi_thread().worker_threads(2).enable_all().build().unwrap();
    let (got, intact) = rt.block_on(ractor_cluster::verif_session_probe::verif_write_backlog(a.usize("frames"), a.usize("size")));
    println!("got={}", got.iter().map(|x| x.to_string()).collect::<Vec<_>>().join(","));
    println!("intact={}", intact as u8);
}
