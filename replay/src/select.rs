//! one poll of the real select!-based port functions from given port contents (C03)
use crate::Args;
use ractor::verif_hooks::lifecycle as lc;

pub fn listen(a: &Args) {
    let b = |k: &str| a.u64(k) == 1;
    let runs = a.usize("runs");
    let mut kinds = std::collections::BTreeSet::new();
    for _ in 0..runs {
        kinds.insert(lc::verif_poll_listen(b("sig_full"), b("sig_drop"), b("stop_full"), b("stop_drop"), b("sup_has"), b("msg_has"), b("closed")));
    }
    println!("kinds={}", kinds.into_iter().collect::<Vec<_>>().join(","));
}

pub fn rws(a: &Args) {
    let b = |k: &str| a.u64(k) == 1;
    let runs = a.usize("runs");
    let mut kinds = std::collections::BTreeSet::new();
    for _ in 0..runs {
        kinds.insert(lc::verif_poll_rws(b("sig_full"), b("sig_drop"), b("fut_ready")));
    }
    println!("kinds={}", kinds.into_iter().collect::<Vec<_>>().join(","));
}
