//! C19: an actor receives a message in serialized form (as a remote node would send it) that its message type decodes, refuses to decode, or whose
//! decoder panics. Reports what happened to the actor and whether it still handles the next message.
use crate::Args;
use ractor::message::{BoxedDowncastErr, SerializedMessage};
use ractor::{Actor, ActorProcessingErr, ActorRef, ActorStatus, Message};
use std::sync::atomic::{AtomicUsize, Ordering};
use std::sync::Arc;
use std::time::Duration;

pub struct DMsg(Arc<AtomicUsize>);
impl Message for DMsg {
    fn serializable() -> bool {
        true
    }
    fn serialize(self) -> Result<SerializedMessage, BoxedDowncastErr> {
        Ok(SerializedMessage::Cast { variant: "ok".to_string(), args: vec![], metadata: None })
    }
    fn deserialize(m: SerializedMessage) -> Result<Self, BoxedDowncastErr> {
        match m {
            SerializedMessage::Cast { variant, .. } if variant == "ok" => Ok(DMsg(Arc::new(AtomicUsize::new(0)))),
            SerializedMessage::Cast { variant, .. } if variant == "panic" => panic!("decoder panics"),
            _ => Err(BoxedDowncastErr),
        }
    }
}

struct Plain;
impl Actor for Plain {
    type Msg = DMsg;
    type State = Arc<AtomicUsize>;
    type Arguments = Arc<AtomicUsize>;
    async fn pre_start(&self, _: ActorRef<DMsg>, a: Arc<AtomicUsize>) -> Result<Arc<AtomicUsize>, ActorProcessingErr> {
        Ok(a)
    }
    async fn handle(&self, _: ActorRef<DMsg>, _m: DMsg, s: &mut Arc<AtomicUsize>) -> Result<(), ActorProcessingErr> {
        s.fetch_add(1, Ordering::SeqCst);
        Ok(())
    }
}
#[derive(Default)]
struct PlainTl;
impl ractor::thread_local::ThreadLocalActor for PlainTl {
    type Msg = DMsg;
    type State = Arc<AtomicUsize>;
    type Arguments = Arc<AtomicUsize>;
    async fn pre_start(&self, _: ActorRef<DMsg>, a: Arc<AtomicUsize>) -> Result<Arc<AtomicUsize>, ActorProcessingErr> {
        Ok(a)
    }
    async fn handle(&self, _: ActorRef<DMsg>, _m: DMsg, s: &mut Arc<AtomicUsize>) -> Result<(), ActorProcessingErr> {
        s.fetch_add(1, Ordering::SeqCst);
        Ok(())
    }
}

/// decode_drop tl=0|1 decoder=ok|err|panic
pub fn run(a: &Args) {
    std::panic::set_hook(Box::new(|_| {}));
    let rt = tokio::runtime::Builder::new_current_thread().enable_time().build().unwrap();
    let handled = Arc::new(AtomicUsize::new(0));
    let decoder = a.str("decoder").to_string();
    rt.block_on(async {
        let (actor, _h) = if a.opt_u128("tl").unwrap_or(0) == 1 {
            use ractor::thread_local::{ThreadLocalActor, ThreadLocalActorSpawner};
            PlainTl::spawn(None, handled.clone(), ThreadLocalActorSpawner::new()).await.unwrap()
        } else {
            Actor::spawn(None, Plain, handled.clone()).await.unwrap()
        };
        let sent = actor.get_cell().send_serialized(SerializedMessage::Cast { variant: decoder.clone(), args: vec![1, 2, 3], metadata: None });
        println!("sent={}", sent.is_ok() as u8);
        tokio::time::sleep(Duration::from_millis(60)).await;
        println!("handled_after_first={}", handled.load(Ordering::SeqCst));
        println!("alive_after_first={}", (actor.get_status() == ActorStatus::Running) as u8);
        let again = actor.cast(DMsg(Arc::new(AtomicUsize::new(0))));
        tokio::time::sleep(Duration::from_millis(60)).await;
        println!("second_accepted={}", again.is_ok() as u8);
        println!("handled_after_second={}", handled.load(Ordering::SeqCst));
        println!("status={:?}", actor.get_status());
    });
}

/// job_meta meta=<bytes> none=0|1 : a factory job that arrives serialized with the given metadata (key type Vec<u8>: the key is the bytes after the options)
pub fn job_meta(a: &Args) {
    use ractor::factory::Job;
    std::panic::set_hook(Box::new(|_| {}));
    let meta: Vec<u8> = a.list_u128("meta").iter().map(|x| *x as u8).collect();
    let metadata = if a.opt_u128("none").unwrap_or(0) == 1 { None } else { Some(meta) };
    let msg = SerializedMessage::Cast { variant: "ok".to_string(), args: vec![], metadata };
    match std::panic::catch_unwind(std::panic::AssertUnwindSafe(|| <Job<Vec<u8>, DMsg> as Message>::deserialize(msg))) {
        Err(_) => println!("result=panicked"),
        Ok(Err(_)) => println!("result=err"),
        Ok(Ok(job)) => {
            println!("result=ok");
            println!("key={}", job.key.iter().map(|x| x.to_string()).collect::<Vec<_>>().join("."));
            let sub = job.options.submit_time().duration_since(std::time::UNIX_EPOCH).map(|d| d.as_nanos()).unwrap_or(u128::MAX);
            println!("submit={}", sub);
            println!("ttl={}", job.options.ttl().map(|d| d.as_nanos().to_string()).unwrap_or_else(|| "none".to_string()));
        }
    }
}
