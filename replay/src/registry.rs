//! Schedule replay of name-registry races (C10): spawners = real `ActorCell::new` with a name, exiter = the two status
//! transitions of a registered holder, looker = `where_is`.
use crate::Args;
use ractor::verif_hooks as vh;
use ractor::verif_hooks::lifecycle as lc;

pub fn run(a: &Args) {
    let roles: Vec<String> = a.str("roles").split('+').map(|s| s.to_string()).collect();
    let schedule = a.labelled_schedule("schedule");
    let name = format!("c10-replay-{}", std::process::id());
    let has_holder = roles.iter().any(|r| r == "exiter");
    let mut holder = if has_holder { Some(lc::husk(Some(name.clone()), 2)) } else { None };
    if let Some(h) = holder.as_mut() {
        h.forget_guard();
        println!("holder_pid={}", h.cell.get_id().pid());
    }
    vh::install_labelled_schedule(schedule, roles.len());
    let barrier = std::sync::Arc::new(std::sync::Barrier::new(roles.len()));
    let mut joins = Vec::new();
    for (idx, role) in roles.iter().enumerate() {
        let barrier = barrier.clone();
        let name = name.clone();
        let role = role.clone();
        let hcell = holder.as_ref().map(|h| h.cell.clone());
        joins.push(std::thread::spawn(move || {
            vh::enter_thread(idx);
            barrier.wait();
            let out = match role.as_str() {
                "spawner" => match lc::verif_new_cell(Some(name.clone())) {
                    Ok(pid) => format!("ok:{}", pid),
                    Err(already) => format!("err:{}", already as u8),
                },
                "exiter" => {
                    let c = hcell.unwrap();
                    lc::verif_set_status(&c, 5);
                    lc::verif_set_status(&c, 6);
                    "done".to_string()
                }
                "looker" => match ractor::registry::where_is(name.clone()) {
                    Some(c) => format!("found:{}", c.get_id().pid()),
                    None => "none".to_string(),
                },
                _ => "unknown".to_string(),
            };
            vh::leave_thread();
            out
        }));
    }
    for (t, j) in joins.into_iter().enumerate() {
        println!("thread{}={}", t, j.join().expect("replay thread panicked"));
    }
    let log = vh::take_log();
    match ractor::registry::where_is(name.clone()) {
        Some(c) => println!("final={}", c.get_id().pid()),
        None => println!("final=none"),
    }
    println!("log={}", log.iter().map(|(t, l)| format!("{}:{}", if *t == usize::MAX { 99 } else { *t }, l)).collect::<Vec<_>>().join(","));
    std::process::exit(0);
}

/// C10 release slice: a successor takes the name while its predecessor is still inside post_stop (the name was released when the predecessor began to stop);
/// the predecessor's later exit steps must not remove the successor's entry.
pub fn name_reuse(_a: &Args) {
    use ractor::{Actor, ActorProcessingErr, ActorRef};
    use std::sync::Arc;
    struct Slow {
        gate: Arc<tokio::sync::Notify>,
    }
    impl Actor for Slow {
        type Msg = ();
        type State = ();
        type Arguments = ();
        async fn pre_start(&self, _: ActorRef<()>, _: ()) -> Result<(), ActorProcessingErr> {
            Ok(())
        }
        async fn post_stop(&self, _: ActorRef<()>, _: &mut ()) -> Result<(), ActorProcessingErr> {
            self.gate.notified().await;
            Ok(())
        }
    }
    let rt = tokio::runtime::Builder::new_multi_thread().worker_threads(2).enable_all().build().unwrap();
    let name = format!("c10-reuse-{}", std::process::id());
    rt.block_on(async {
        let gate_a = Arc::new(tokio::sync::Notify::new());
        let gate_b = Arc::new(tokio::sync::Notify::new());
        let (a, ha) = Actor::spawn(Some(name.clone()), Slow { gate: gate_a.clone() }, ()).await.unwrap();
        a.stop(None);
        for _ in 0..2000 {
            if ractor::registry::where_is(name.clone()).is_none() && a.get_status() == ractor::ActorStatus::Stopping {
                break;
            }
            tokio::time::sleep(std::time::Duration::from_millis(1)).await;
        }
        println!("predecessor_status={}", a.get_status() as u8);
        let b = Actor::spawn(Some(name.clone()), Slow { gate: gate_b.clone() }, ()).await;
        println!("successor_spawned={}", b.is_ok() as u8);
        gate_a.notify_one();
        let _ = tokio::time::timeout(std::time::Duration::from_secs(3), ha).await;
        println!("predecessor_final={}", a.get_status() as u8);
        if let Ok((b, hb)) = b {
            let found = ractor::registry::where_is(name.clone());
            println!("lookup_is_successor={}", found.map(|c| c.get_id() == b.get_id()).unwrap_or(false) as u8);
            let third = Actor::spawn(Some(name.clone()), Slow { gate: gate_b.clone() }, ()).await;
            println!("third_spawn_rejected={}", third.is_err() as u8);
            if let Ok((c, hc)) = third {
                c.stop(None);
                gate_b.notify_one();
                let _ = tokio::time::timeout(std::time::Duration::from_secs(2), hc).await;
            }
            b.stop(None);
            gate_b.notify_one();
            gate_b.notify_one();
            let _ = tokio::time::timeout(std::time::Duration::from_secs(2), hb).await;
        }
    });
}

/// C10 / C08 name clash: a live holder; spawns under its name through the regular and the thread-local runtime are refused and change nothing about the holder.
pub fn name_clash(_a: &Args) {
    use ractor::thread_local::{ThreadLocalActor, ThreadLocalActorSpawner};
    use ractor::{Actor, ActorProcessingErr, ActorRef};
    struct Plain;
    impl Actor for Plain {
        type Msg = ();
        type State = ();
        type Arguments = ();
        async fn pre_start(&self, _: ActorRef<()>, _: ()) -> Result<(), ActorProcessingErr> {
            Ok(())
        }
    }
    #[derive(Default)]
    struct PlainTl;
    impl ThreadLocalActor for PlainTl {
        type Msg = ();
        type State = ();
        type Arguments = ();
        async fn pre_start(&self, _: ActorRef<()>, _: ()) -> Result<(), ActorProcessingErr> {
            Ok(())
        }
    }
    let rt = tokio::runtime::Builder::new_multi_thread().worker_threads(2).enable_all().build().unwrap();
    let name = format!("c10-clash-{}", std::process::id());
    rt.block_on(async {
        let (holder, hh) = Actor::spawn(Some(name.clone()), Plain, ()).await.unwrap();
        let is_holder = |n: &String| ractor::registry::where_is(n.clone()).map(|c| c.get_id() == holder.get_id()).unwrap_or(false) as u8;
        let r1 = Actor::spawn(Some(name.clone()), Plain, ()).await;
        println!("regular_refused={}", r1.is_err() as u8);
        println!("holder_after_regular={}", is_holder(&name));
        let spawner = ThreadLocalActorSpawner::new();
        let r2 = PlainTl::spawn(Some(name.clone()), (), spawner.clone()).await;
        println!("thread_local_refused={}", r2.is_err() as u8);
        println!("holder_after_thread_local={}", is_holder(&name));
        let r3 = PlainTl::spawn_instant(Some(name.clone()), (), spawner.clone());
        println!("thread_local_instant_refused={}", r3.is_err() as u8);
        println!("holder_after_thread_local_instant={}", is_holder(&name));
        let r4 = Actor::spawn(Some(name.clone()), Plain, ()).await;
        println!("still_refused_afterwards={}", r4.is_err() as u8);
        for r in [r1, r4].into_iter().flatten() {
            r.0.stop(None);
        }
        if let Ok((a, _)) = r2 {
            a.stop(None);
        }
        holder.stop(None);
        let _ = tokio::time::timeout(std::time::Duration::from_secs(2), hh).await;
    });
}
