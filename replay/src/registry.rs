//! Schedule replay of name-registry races (C10): spawners = real `ActorCell::new` with a name, exiter = the two status
//! transitions of a registered holder, looker = `where_is`.
use crate::Args;
use ractor::verif_hooks as vh;
use ractor::verif_hooks::lifecycle as lc;

pub fn run(a: &Args) {
    let roles: Vec<String> = a.str("roles").split('+').map(|s| s.to_string()).collect();
    let schedule = a.labelled_schedule("schedule");
    let name = format!("c10-replay-{}", std::process::id());
    let has_holder = roles.iter().any(|r| r == "exiter");
    let mut holder = if has_holder { Some(lc::husk(Some(name.clone()), 2)) } else { None };
    if let Some(h) = holder.as_mut() {
        h.forget_guard();
        println!("holder_pid={}", h.cell.get_id().pid());
    }
    vh::install_labelled_schedule(schedule, roles.len());
    let barrier = std::sync::Arc::new(std::sync::Barrier::new(roles.len()));
    let mut joins = Vec::new();
    for (idx, role) in roles.iter().enumerate() {
        let barrier = barrier.clone();
        let name = name.clone();
        let role = role.clone();
        let hcell = holder.as_ref().map(|h| h.cell.clone());
        joins.push(std::thread::spawn(move || {
            vh::enter_thread(idx);
            barrier.wait();
            let out = match role.as_str() {
                "spawner" => match lc::verif_new_cell(Some(name.clone())) {
                    Ok(pid) => format!("ok:{}", pid),
                    Err(already) => format!("err:{}", already as u8),
                },
                "exiter" => {
                    let c = hcell.unwrap();
                    lc::verif_set_status(&c, 5);
                    lc::verif_set_status(&c, 6);
                    "done".to_string()
                }
                "looker" => match ractor::registry::where_is(name.clone()) {
                    Some(c) => format!("found:{}", c.get_id().pid()),
                    None => "none".to_string(),
                },
                _ => "unknown".to_string(),
            };
            vh::leave_thread();
            out
        }));
    }
    for (t, j) in joins.into_iter().enumerate() {
        println!("thread{}={}", t, j.join().expect("replay thread panicked"));
    }
    let log = vh::take_log();
    match ractor::registry::where_is(name.clone()) {
        Some(c) => println!("final={}", c.get_id().pid()),
        None => println!("final=none"),
    }
    println!("log={}", log.iter().map(|(t, l)| format!("{}:{}", if *t == usize::MAX { 99 } else { *t }, l)).collect::<Vec<_>>().join(","));
    std::process::exit(0);
}
