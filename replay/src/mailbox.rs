//! Schedule replay of the mailbox protocol on a detached ActorProperties: real OS threads, released one labelled shared
//! operation at a time in the order chosen by the solver (turn-stile in ractor::verif_hooks).
use crate::Args;
use ractor::verif_hooks as vh;
use ractor::verif_hooks::mailbox as mbx;

pub fn run(a: &Args) {
    let n_senders = a.usize("senders");
    let n_msgs = a.usize("msgs");
    let n_drainers = a.usize("drainers");
    let n_stoppers = a.usize("stoppers");
    let status0 = a.u64("status0") as u8;
    let schedule: Vec<(usize, String)> = a.labelled_schedule("schedule");
    let threads = n_senders + n_drainers + n_stoppers;
    let mut det = mbx::detached(status0);
    let h = det.handle();
    vh::install_labelled_schedule(schedule, threads);
    let mut joins = Vec::new();
    for i in 0..n_senders {
        let h = h.clone();
        joins.push(std::thread::spawn(move || {
            vh::enter_thread(i);
            let mut res = Vec::new();
            for j in 0..n_msgs {
                let ident = (1 + i * 4 + j) as u64;
                res.push(h.send(ident) as u64);
            }
            vh::leave_thread();
            res
        }));
    }
    for d in 0..n_drainers {
        let h = h.clone();
        let idx = n_senders + d;
        joins.push(std::thread::spawn(move || {
            vh::enter_thread(idx);
            let ok = h.drain();
            vh::leave_thread();
            vec![ok as u64]
        }));
    }
    // a stopper closes the receiver the way ActorPortSet::drop does, after publishing Stopping
    let mut flushed: Vec<u64> = Vec::new();
    if n_stoppers > 0 {
        let idx = n_senders + n_drainers;
        vh::enter_thread(idx);
        h.set_status(5);
        vh::point("message.close");
        flushed = det.close_and_flush();
        vh::leave_thread();
    }
    for (t, j) in joins.into_iter().enumerate() {
        let r = j.join().expect("replay thread panicked");
        println!("thread{}={}", t, r.iter().map(|x| x.to_string()).collect::<Vec<_>>().join(","));
    }
    let log = vh::take_log();
    let q = det.queue();
    println!("queue={}", q.iter().map(|x| x.to_string()).collect::<Vec<_>>().join(","));
    println!("flushed={}", flushed.iter().map(|x| x.to_string()).collect::<Vec<_>>().join(","));
    println!("status={}", h.status());
    println!("word={}", h.admission_word());
    println!("log={}", log.iter().map(|(t, l)| format!("{}:{}", if *t == usize::MAX { 99 } else { *t }, l)).collect::<Vec<_>>().join(","));
}

/// C02 type gate: send a u32 (wrong type) or u64 (right type) through the type-checked entry to a local or remote mailbox
pub fn typegate(a: &Args) {
    let remote = a.u64("remote") == 1;
    let wrong = a.u64("wrong") == 1;
    let mut det = if remote { mbx::detached_with_id(2, Some((1, 9))) } else { mbx::detached(2) };
    let h = det.handle();
    let word0 = h.admission_word();
    let r = if wrong { h.send_wrong_type(7) } else { h.send_right_type_checked(7) };
    println!("result={}", r);
    println!("queued={}", det.queue().len());
    println!("word_changed={}", (h.admission_word() != word0) as u8);
    println!("status={}", h.status());
}

/// C02 dequeue side: `threads` OS threads each send `msgs` distinct ids to a real actor (standard or thread-local runtime) whose handler yields `yields`
/// times; the actor is then drained (end=drain), stopped (end=stop) or killed (end=kill). Reports every send result and the handler log.
mod dq {
    use ractor::{Actor, ActorProcessingErr, ActorRef};
    use std::sync::{Arc, Mutex};
    pub type Log = Arc<Mutex<Vec<u64>>>;
    pub struct Rec {
        pub yields: u64,
    }
    impl Actor for Rec {
        type Msg = u64;
        type State = Log;
        type Arguments = Log;
        async fn pre_start(&self, _: ActorRef<u64>, a: Log) -> Result<Log, ActorProcessingErr> {
            Ok(a)
        }
        async fn handle(&self, _: ActorRef<u64>, m: u64, s: &mut Log) -> Result<(), ActorProcessingErr> {
            for _ in 0..self.yields {
                tokio::task::yield_now().await;
            }
            s.lock().unwrap().push(m);
            Ok(())
        }
    }
    #[derive(Default)]
    pub struct RecTl;
    impl ractor::thread_local::ThreadLocalActor for RecTl {
        type Msg = u64;
        type State = (Log, u64);
        type Arguments = (Log, u64);
        async fn pre_start(&self, _: ActorRef<u64>, a: (Log, u64)) -> Result<(Log, u64), ActorProcessingErr> {
            Ok(a)
        }
        async fn handle(&self, _: ActorRef<u64>, m: u64, s: &mut (Log, u64)) -> Result<(), ActorProcessingErr> {
            for _ in 0..s.1 {
                tokio::task::yield_now().await;
            }
            s.0.lock().unwrap().push(m);
            Ok(())
        }
    }
}

pub fn dequeue(a: &Args) {
    use ractor::Actor;
    let threads = a.usize("threads");
    let msgs = a.usize("msgs");
    let yields = a.u64("yields");
    let end = a.str("end").to_string();
    let tl = a.u64("tl") == 1;
    let rt = tokio::runtime::Builder::new_multi_thread().worker_threads(2).enable_all().build().unwrap();
    let log: dq::Log = Default::default();
    let (actor, handle): (ractor::ActorRef<u64>, ractor::concurrency::JoinHandle<()>) = rt.block_on(async {
        if tl {
            use ractor::thread_local::ThreadLocalActor;
            let spawner = ractor::thread_local::ThreadLocalActorSpawner::new();
            dq::RecTl::spawn(None, (log.clone(), yields), spawner).await.unwrap()
        } else {
            dq::Rec::spawn(None, dq::Rec { yields }, log.clone()).await.unwrap()
        }
    });
    let mut joins = Vec::new();
    for t in 0..threads {
        let r = actor.clone();
        joins.push(std::thread::spawn(move || {
            let mut out = Vec::new();
            for j in 0..msgs {
                let id = (t * 1000 + j + 1) as u64;
                out.push((id, r.cast(id).is_ok()));
            }
            out
        }));
    }
    // the end of the actor races with the senders (once the first messages were handled)
    if end == "stop" || end == "kill" {
        let t0 = std::time::Instant::now();
        while log.lock().unwrap().len() < 2 && t0.elapsed() < std::time::Duration::from_secs(2) {
            std::thread::yield_now();
        }
    }
    match end.as_str() {
        "stop" => actor.stop(None),
        "kill" => actor.kill(),
        _ => {}
    }
    let mut sent: Vec<(u64, bool)> = Vec::new();
    for j in joins {
        sent.extend(j.join().unwrap());
    }
    if end == "drain" {
        let _ = actor.drain();
    }
    let ended = rt.block_on(async { tokio::time::timeout(std::time::Duration::from_secs(20), handle).await.is_ok() });
    println!("ended={}", ended as u8);
    println!("sent_ok={}", sent.iter().filter(|x| x.1).map(|x| x.0.to_string()).collect::<Vec<_>>().join(","));
    println!("sent_err={}", sent.iter().filter(|x| !x.1).map(|x| x.0.to_string()).collect::<Vec<_>>().join(","));
    println!("handled={}", log.lock().unwrap().iter().map(|x| x.to_string()).collect::<Vec<_>>().join(","));
}
