//! Schedule replay of the mailbox protocol on a detached ActorProperties: real OS threads, released one labelled shared
//! operation at a time in the order chosen by the solver (turn-stile in ractor::verif_hooks).
use crate::Args;
use ractor::verif_hooks as vh;
use ractor::verif_hooks::mailbox as mbx;

pub fn run(a: &Args) {
    let n_senders = a.usize("senders");
    let n_msgs = a.usize("msgs");
    let n_drainers = a.usize("drainers");
    let n_stoppers = a.usize("stoppers");
    let status0 = a.u64("status0") as u8;
    let schedule: Vec<(usize, String)> = a.labelled_schedule("schedule");
    let threads = n_senders + n_drainers + n_stoppers;
    let mut det = mbx::detached(status0);
    let h = det.handle();
    vh::install_labelled_schedule(schedule, threads);
    let mut joins = Vec::new();
    for i in 0..n_senders {
        let h = h.clone();
        joins.push(std::thread::spawn(move || {
            vh::enter_thread(i);
            let mut res = Vec::new();
            for j in 0..n_msgs {
                let ident = (1 + i * 4 + j) as u64;
                res.push(h.send(ident) as u64);
            }
            vh::leave_thread();
            res
        }));
    }
    for d in 0..n_drainers {
        let h = h.clone();
        let idx = n_senders + d;
        joins.push(std::thread::spawn(move || {
            vh::enter_thread(idx);
            let ok = h.drain();
            vh::leave_thread();
            vec![ok as u64]
        }));
    }
    // a stopper closes the receiver the way ActorPortSet::drop does, after publishing Stopping
    let mut flushed: Vec<u64> = Vec::new();
    if n_stoppers > 0 {
        let idx = n_senders + n_drainers;
        vh::enter_thread(idx);
        h.set_status(5);
        vh::point("message.close");
        flushed = det.close_and_flush();
        vh::leave_thread();
    }
    for (t, j) in joins.into_iter().enumerate() {
        let r = j.join().expect("replay thread panicked");
        println!("thread{}={}", t, r.iter().map(|x| x.to_string()).collect::<Vec<_>>().join(","));
    }
    let log = vh::take_log();
    let q = det.queue();
    println!("queue={}", q.iter().map(|x| x.to_string()).collect::<Vec<_>>().join(","));
    println!("flushed={}", flushed.iter().map(|x| x.to_string()).collect::<Vec<_>>().join(","));
    println!("status={}", h.status());
    println!("word={}", h.admission_word());
    println!("log={}", log.iter().map(|(t, l)| format!("{}:{}", if *t == usize::MAX { 99 } else { *t }, l)).collect::<Vec<_>>().join(","));
}

/// C02 type gate: send a u32 (wrong type) or u64 (right type) through the type-checked entry to a local or remote mailbox
pub fn typegate(a: &Args) {
    let remote = a.u64("remote") == 1;
    let wrong = a.u64("wrong") == 1;
    let mut det = if remote { mbx::detached_with_id(2, Some((1, 9))) } else { mbx::detached(2) };
    let h = det.handle();
    let word0 = h.admission_word();
    let r = if wrong { h.send_wrong_type(7) } else { h.send_right_type_checked(7) };
    println!("result={}", r);
    println!("queued={}", det.queue().len());
    println!("word_changed={}", (h.admission_word() != word0) as u8);
    println!("status={}", h.status());
}
