//! Schedule replay of the mailbox protocol on a detached ActorProperties: real OS threads, released one labelled shared
//! operation at a time in the order chosen by the solver (turn-stile in ractor::verif_hooks).
use crate::Args;
use ractor::verif_hooks as vh;
use ractor::verif_hooks::mailbox as mbx;

pub fn run(a: &Args) {
    let n_senders = a.usize("senders");
    let n_msgs = a.usize("msgs");
    let n_drainers = a.usize("drainers");
    let n_stoppers = a.usize("stoppers");
    let status0 = a.u64("status0") as u8;
    let schedule: Vec<(usize, String)> = a.labelled_schedule("schedule");
    let serialized: Vec<usize> = a.list_u128("serialized").into_iter().map(|x| x as usize).collect();
    let threads = n_senders + n_drainers + n_stoppers;
    let mut det = mbx::detached(status0);
    let h = det.handle();
    vh::install_labelled_schedule(schedule, threads);
    let mut joins = Vec::new();
    for i in 0..n_senders {
        let h = h.clone();
        let ser = serialized.contains(&i);
        joins.push(std::thread::spawn(move || {
            vh::enter_thread(i);
            let mut res = Vec::new();
            for j in 0..n_msgs {
                let ident = (1 + i * 4 + j) as u64;
                res.push(if ser { h.send_serialized(ident) } else { h.send(ident) } as u64);
            }
            vh::leave_thread();
            res
        }));
    }
    for d in 0..n_drainers {
        let h = h.clone();
        let idx = n_senders + d;
        joins.push(std::thread::spawn(move || {
            vh::enter_thread(idx);
            let ok = h.drain();
            vh::leave_thread();
            vec![ok as u64]
        }));
    }
    // a stopper closes the receiver the way ActorPortSet::drop does, after publishing Stopping
    let mut flushed: Vec<u64> = Vec::new();
    if n_stoppers > 0 {
        let idx = n_senders + n_drainers;
        vh::enter_thread(idx);
        h.set_status(5);
        vh::point("message.close");
        flushed = det.close_and_flush();
        vh::leave_thread();
    }
    for (t, j) in joins.into_iter().enumerate() {
        let r = j.join().expect("replay thread panicked");
        println!("thread{}={}", t, r.iter().map(|x| x.to_string()).collect::<Vec<_>>().join(","));
    }
    let log = vh::take_log();
    let q = det.queue();
    println!("queue={}", q.iter().map(|x| x.to_string()).collect::<Vec<_>>().join(","));
    println!("flushed={}", flushed.iter().map(|x| x.to_string()).collect::<Vec<_>>().join(","));
    println!("status={}", h.status());
    println!("word={}", h.admission_word());
    println!("log={}", log.iter().map(|(t, l)| format!("{}:{}", if *t == usize::MAX { 99 } else { *t }, l)).collect::<Vec<_>>().join(","));
}

/// C02 type gate: send a u32 (wrong type) or u64 (right type) through the type-checked entry to a local or remote mailbox
pub fn typegate(a: &Args) {
    let remote = a.u64("remote") == 1;
    let wrong = a.u64("wrong") == 1;
    let mut det = if remote { mbx::detached_with_id(2, Some((1, 9))) } else { mbx::detached(2) };
    let h = det.handle();
    let word0 = h.admission_word();
    let r = if wrong { h.send_wrong_type(7) } else { h.send_right_type_checked(7) };
    println!("result={}", r);
    println!("queued={}", det.queue().len());
    println!("word_changed={}", (h.admission_word() != word0) as u8);
    println!("status={}", h.status());
}

/// C02 dequeue side: `threads` OS threads each send `msgs` distinct ids to a real actor (standard or thread-local runtime) whose handler yields `yields`
/// times; the actor is then drained (end=drain), stopped (end=stop) or killed (end=kill). Reports every send result and the handler log.
mod dq {
    use ractor::{Actor, ActorProcessingErr, ActorRef};
    use std::sync::{Arc, Mutex};
    pub type Log = Arc<Mutex<Vec<u64>>>;
    pub static EVENTS_HANDLED: std::sync::atomic::AtomicU64 = std::sync::atomic::AtomicU64::new(0);
    pub struct Rec {
        pub yields: u64,
    }
    impl Actor for Rec {
        type Msg = u64;
        type State = Log;
        type Arguments = Log;
        async fn pre_start(&self, _: ActorRef<u64>, a: Log) -> Result<Log, ActorProcessingErr> {
            Ok(a)
        }
        async fn handle(&self, _: ActorRef<u64>, m: u64, s: &mut Log) -> Result<(), ActorProcessingErr> {
            for _ in 0..self.yields {
                tokio::task::yield_now().await;
            }
            s.lock().unwrap().push(m);
            Ok(())
        }
        async fn handle_supervisor_evt(&self, _: ActorRef<u64>, _m: ractor::SupervisionEvent, _s: &mut Log) -> Result<(), ActorProcessingErr> {
            EVENTS_HANDLED.fetch_add(1, std::sync::atomic::Ordering::AcqRel);
            Ok(())
        }
    }
    /// supervisor recording the terminal events of its children
    pub struct Sup;
    pub type Terms = Arc<Mutex<Vec<String>>>;
    impl Actor for Sup {
        type Msg = ();
        type State = Terms;
        type Arguments = Terms;
        async fn pre_start(&self, _: ActorRef<()>, a: Terms) -> Result<Terms, ActorProcessingErr> {
            Ok(a)
        }
        async fn handle_supervisor_evt(&self, _: ActorRef<()>, m: ractor::SupervisionEvent, s: &mut Terms) -> Result<(), ActorProcessingErr> {
            match m {
                ractor::SupervisionEvent::ActorTerminated(_, _, r) => s.lock().unwrap().push(format!("terminated:{}", r.unwrap_or_else(|| "none".to_string()))),
                ractor::SupervisionEvent::ActorFailed(_, _) => s.lock().unwrap().push("failed".to_string()),
                _ => {}
            }
            Ok(())
        }
    }
    #[derive(Default)]
    pub struct RecTl;
    impl ractor::thread_local::ThreadLocalActor for RecTl {
        type Msg = u64;
        type State = (Log, u64);
        type Arguments = (Log, u64);
        async fn pre_start(&self, _: ActorRef<u64>, a: (Log, u64)) -> Result<(Log, u64), ActorProcessingErr> {
            Ok(a)
        }
        async fn handle(&self, _: ActorRef<u64>, m: u64, s: &mut (Log, u64)) -> Result<(), ActorProcessingErr> {
            for _ in 0..s.1 {
                tokio::task::yield_now().await;
            }
            s.0.lock().unwrap().push(m);
            Ok(())
        }
        async fn handle_supervisor_evt(&self, _: ActorRef<u64>, _m: ractor::SupervisionEvent, _s: &mut (Log, u64)) -> Result<(), ActorProcessingErr> {
            EVENTS_HANDLED.fetch_add(1, std::sync::atomic::Ordering::AcqRel);
            Ok(())
        }
    }
}

pub fn dequeue(a: &Args) {
    use ractor::Actor;
    let threads = a.usize("threads");
    let msgs = a.usize("msgs");
    let yields = a.u64("yields");
    let end = a.str("end").to_string();
    let tl = a.u64("tl") == 1;
    let rt = tokio::runtime::Builder::new_multi_thread().worker_threads(2).enable_all().build().unwrap();
    let log: dq::Log = Default::default();
    let terms: dq::Terms = Default::default();
    let (sup, sup_handle) = rt.block_on(async { dq::Sup::spawn(None, dq::Sup, terms.clone()).await.unwrap() });
    let (actor, handle): (ractor::ActorRef<u64>, ractor::concurrency::JoinHandle<()>) = rt.block_on(async {
        if tl {
            use ractor::thread_local::ThreadLocalActor;
            let spawner = ractor::thread_local::ThreadLocalActorSpawner::new();
            dq::RecTl::spawn_linked(None, (log.clone(), yields), sup.get_cell(), spawner).await.unwrap()
        } else {
            dq::Rec::spawn_linked(None, dq::Rec { yields }, log.clone(), sup.get_cell()).await.unwrap()
        }
    });
    // optionally a child whose supervision events race with the messages (a second OS thread delivers them one at a time)
    let supevts = a.opt_u128("supevts").unwrap_or(0) as usize;
    let ev_thread = if supevts > 0 {
        let child = rt.block_on(async { dq::Sup::spawn_linked(None, dq::Sup, Default::default(), actor.get_cell()).await.unwrap().0 });
        Some(std::thread::spawn(move || {
            // one at a time: the next event once the previous one was handled, so each lands at an arbitrary instant of the receive loop
            use std::sync::atomic::Ordering;
            for _ in 0..supevts {
                let before = dq::EVENTS_HANDLED.load(Ordering::Acquire);
                child.get_cell().notify_supervisor(ractor::SupervisionEvent::ActorStarted(child.get_cell()));
                let t0 = std::time::Instant::now();
                while dq::EVENTS_HANDLED.load(Ordering::Acquire) == before {
                    std::hint::spin_loop();
                    if t0.elapsed() > std::time::Duration::from_millis(500) {
                        return;
                    }
                }
            }
        }))
    } else {
        None
    };
    let serialized = a.opt_u128("serialized").unwrap_or(0) == 1;
    let mut joins = Vec::new();
    for t in 0..threads {
        let r = actor.clone();
        joins.push(std::thread::spawn(move || {
            let mut out = Vec::new();
            for j in 0..msgs {
                let id = (t * 1000 + j + 1) as u64;
                if serialized && j % 2 == 1 {
                    // every second message arrives in serialized form, as a remote node would deliver it
                    use ractor::Message;
                    out.push((id, r.get_cell().send_serialized(id.serialize().unwrap()).is_ok()));
                } else {
                    out.push((id, r.cast(id).is_ok()));
                }
            }
            out
        }));
    }
    // the end of the actor races with the senders (once the first messages were handled)
    if end == "stop" || end == "kill" {
        let t0 = std::time::Instant::now();
        while log.lock().unwrap().len() < 2 && t0.elapsed() < std::time::Duration::from_secs(2) {
            std::thread::yield_now();
        }
    }
    match end.as_str() {
        "stop" => actor.stop(None),
        "kill" => actor.kill(),
        _ => {}
    }
    let mut sent: Vec<(u64, bool)> = Vec::new();
    for j in joins {
        sent.extend(j.join().unwrap());
    }
    if let Some(t) = ev_thread {
        t.join().unwrap();
    }
    if end == "drain" {
        let _ = actor.drain();
    }
    let ended = rt.block_on(async { tokio::time::timeout(std::time::Duration::from_secs(20), handle).await.is_ok() });
    // let the supervisor see the terminal event, then stop it
    rt.block_on(async {
        for _ in 0..200 {
            if !terms.lock().unwrap().is_empty() || !ended {
                break;
            }
            tokio::time::sleep(std::time::Duration::from_millis(5)).await;
        }
        sup.stop(None);
        let _ = tokio::time::timeout(std::time::Duration::from_secs(5), sup_handle).await;
    });
    println!("terms={}", terms.lock().unwrap().join(","));
    println!("ended={}", ended as u8);
    println!("sent_ok={}", sent.iter().filter(|x| x.1).map(|x| x.0.to_string()).collect::<Vec<_>>().join(","));
    println!("sent_err={}", sent.iter().filter(|x| !x.1).map(|x| x.0.to_string()).collect::<Vec<_>>().join(","));
    println!("handled={}", log.lock().unwrap().iter().map(|x| x.to_string()).collect::<Vec<_>>().join(","));
}

/// C03 request slice: a stop / kill requested while a handler is parked (optionally after a drain was requested, with a backlog queued) - no further handler
/// starts once the request has returned; stop lets the running handler finish and reports its reason, kill does not.
mod rq {
    use ractor::{Actor, ActorProcessingErr, ActorRef};
    use std::sync::{Arc, Mutex};
    pub type Log = Arc<Mutex<Vec<String>>>;
    pub struct Gated {
        pub gate: Arc<tokio::sync::Semaphore>,
    }
    impl Actor for Gated {
        type Msg = u64;
        type State = Log;
        type Arguments = Log;
        async fn pre_start(&self, _: ActorRef<u64>, a: Log) -> Result<Log, ActorProcessingErr> {
            Ok(a)
        }
        async fn handle(&self, _: ActorRef<u64>, m: u64, s: &mut Log) -> Result<(), ActorProcessingErr> {
            s.lock().unwrap().push(format!("s{}", m));
            self.gate.acquire().await.unwrap().forget();
            s.lock().unwrap().push(format!("e{}", m));
            Ok(())
        }
        async fn post_stop(&self, _: ActorRef<u64>, s: &mut Log) -> Result<(), ActorProcessingErr> {
            s.lock().unwrap().push("post_stop".to_string());
            Ok(())
        }
    }
}

pub fn request(a: &Args) {
    use ractor::Actor;
    let mode = a.str("mode").to_string();
    let drain = a.u64("drain") == 1;
    let rt = tokio::runtime::Builder::new_multi_thread().worker_threads(2).enable_all().build().unwrap();
    let log: rq::Log = Default::default();
    let terms: dq::Terms = Default::default();
    let gate = std::sync::Arc::new(tokio::sync::Semaphore::new(0));
    let (sup, sup_handle) = rt.block_on(async { dq::Sup::spawn(None, dq::Sup, terms.clone()).await.unwrap() });
    let (actor, handle) = rt.block_on(async { rq::Gated::spawn_linked(None, rq::Gated { gate: gate.clone() }, log.clone(), sup.get_cell()).await.unwrap() });
    for m in 1..=3u64 {
        actor.cast(m).unwrap();
    }
    let t0 = std::time::Instant::now();
    while !log.lock().unwrap().iter().any(|l| l == "s1") && t0.elapsed() < std::time::Duration::from_secs(5) {
        std::thread::yield_now();
    }
    if drain {
        let _ = actor.drain();
    }
    match mode.as_str() {
        "stop" => actor.stop(Some("the-reason".to_string())),
        _ => actor.kill(),
    }
    let at_request = log.lock().unwrap().len();
    gate.add_permits(8);
    let ended = rt.block_on(async { tokio::time::timeout(std::time::Duration::from_secs(10), handle).await.is_ok() });
    rt.block_on(async {
        for _ in 0..200 {
            if !terms.lock().unwrap().is_empty() || !ended {
                break;
            }
            tokio::time::sleep(std::time::Duration::from_millis(5)).await;
        }
        sup.stop(None);
        let _ = tokio::time::timeout(std::time::Duration::from_secs(5), sup_handle).await;
    });
    let l = log.lock().unwrap().clone();
    println!("ended={}", ended as u8);
    println!("starts_after={}", l[at_request..].iter().filter(|x| x.starts_with('s')).count());
    println!("log={}", l.join(","));
    println!("terms={}", terms.lock().unwrap().join(","));
}

/// C07 loop side: the window in which the last in-flight sender emits the drain marker before the drainer has published `Draining`, on a real actor.
/// Thread 0 casts one message, thread 1 calls drain(), thread 2 only pauses (until the actor loop - which runs freely on the runtime - has had time to
/// dequeue the message and the marker). The schedule makes the sender take its ticket, lets the drainer close the admission word, lets the sender
/// enqueue, drop the ticket and send the marker, pauses, and only then lets the drainer publish `Draining`.
pub fn marker_window(a: &Args) {
    use ractor::Actor;
    let tl = a.u64("tl") == 1;
    let rt = tokio::runtime::Builder::new_multi_thread().worker_threads(2).enable_all().build().unwrap();
    let log: dq::Log = Default::default();
    let terms: dq::Terms = Default::default();
    let (sup, sup_handle) = rt.block_on(async { dq::Sup::spawn(None, dq::Sup, terms.clone()).await.unwrap() });
    let (actor, handle): (ractor::ActorRef<u64>, ractor::concurrency::JoinHandle<()>) = rt.block_on(async {
        if tl {
            use ractor::thread_local::ThreadLocalActor;
            let spawner = ractor::thread_local::ThreadLocalActorSpawner::new();
            dq::RecTl::spawn_linked(None, (log.clone(), 0), sup.get_cell(), spawner).await.unwrap()
        } else {
            dq::Rec::spawn_linked(None, dq::Rec { yields: 0 }, log.clone(), sup.get_cell()).await.unwrap()
        }
    });
    let sched = "0:status.load,0:message_admission.load,0:message_admission.cas,1:message_admission.fetch_or,0:message.send,0:message_admission.fetch_sub,\
                 0:message_admission.load,0:message_admission.cas,0:message.send,2:pause,2:pause,1:status.fetch_update,1:message_admission.load";
    let schedule: Vec<(usize, String)> = sched.split(',').map(|s| s.trim().split_once(':').map(|(t, l)| (t.parse().unwrap(), l.to_string())).unwrap()).collect();
    vh::install_labelled_schedule(schedule, 3);
    let s = {
        let r = actor.clone();
        std::thread::spawn(move || {
            vh::enter_thread(0);
            let ok = r.cast(7).is_ok();
            vh::leave_thread();
            ok
        })
    };
    let d = {
        let r = actor.clone();
        std::thread::spawn(move || {
            vh::enter_thread(1);
            let ok = r.drain().is_ok();
            vh::leave_thread();
            ok
        })
    };
    let p = {
        let log = log.clone();
        std::thread::spawn(move || {
            vh::enter_thread(2);
            vh::point("pause");
            let t0 = std::time::Instant::now();
            while log.lock().unwrap().is_empty() && t0.elapsed() < std::time::Duration::from_secs(2) {
                std::thread::yield_now();
            }
            std::thread::sleep(std::time::Duration::from_millis(200));
            vh::point("pause");
            vh::leave_thread();
        })
    };
    let sent = s.join().unwrap();
    let drained = d.join().unwrap();
    p.join().unwrap();
    let order = vh::take_log();
    let again = actor.drain().is_ok();
    let refused = actor.cast(8).is_err();
    let ended = rt.block_on(async { tokio::time::timeout(std::time::Duration::from_secs(3), handle).await.is_ok() });
    rt.block_on(async {
        for _ in 0..100 {
            if !terms.lock().unwrap().is_empty() || !ended {
                break;
            }
            tokio::time::sleep(std::time::Duration::from_millis(5)).await;
        }
        sup.stop(None);
        let _ = tokio::time::timeout(std::time::Duration::from_secs(5), sup_handle).await;
    });
    println!("sent={}", sent as u8);
    println!("drained={}", drained as u8);
    println!("second_drain_ok={}", again as u8);
    println!("later_send_refused={}", refused as u8);
    println!("ended={}", ended as u8);
    println!("status={}", actor.get_status() as u8);
    println!("handled={}", log.lock().unwrap().iter().map(|x| x.to_string()).collect::<Vec<_>>().join(","));
    println!("terms={}", terms.lock().unwrap().join(","));
    println!("order={}", order.iter().map(|(t, l)| format!("{}:{}", t, l)).collect::<Vec<_>>().join(";"));
}
