//! one enqueue_job call on a real WorkerProperties from an explicit pre-state (C15 discard limits)
use crate::Args;
use ractor::factory::worker::verif_probe as wp;

pub fn run(a: &Args) {
    let rt = tokio::runtime::Builder::new_current_thread().enable_time().build().unwrap();
    let out = rt.block_on(wp::enqueue_once(a.str("mode"), a.usize("limit"), a.usize("qlen"), a.u64("busy") == 1, a.u64("dead") == 1));
    println!("out={}", out.replace('=', ":"));
}

/// worker_books queue=<keys> curr=<keys> op=<..> dead=0|1
pub fn books(a: &Args) {
    let rt = tokio::runtime::Builder::new_current_thread().enable_time().build().unwrap();
    let q: Vec<u64> = a.list_u128("queue").iter().map(|x| *x as u64).collect();
    let c: Vec<u64> = a.list_u128("curr").iter().map(|x| *x as u64).collect();
    let out = rt.block_on(wp::books_once(&q, &c, a.str("op"), a.u64("dead") == 1));
    println!("out={}", out.replace('=', ":"));
}

fn flags(a: &Args, k: &str) -> Vec<bool> {
    a.list_u128(k).iter().map(|x| *x != 0).collect()
}

/// worker_fates queue=<keys> expired=<0|1,..> curr=<keys> op=<..> mode=<None|Oldest|Newest> limit=<n> dead=0|1
pub fn fates(a: &Args) {
    let rt = tokio::runtime::Builder::new_current_thread().enable_time().build().unwrap();
    let keys: Vec<u64> = a.list_u128("queue").iter().map(|x| *x as u64).collect();
    let ex = flags(a, "expired");
    let q: Vec<(u64, bool)> = keys.iter().enumerate().map(|(i, k)| (*k, ex.get(i).copied().unwrap_or(false))).collect();
    let c: Vec<u64> = a.list_u128("curr").iter().map(|x| *x as u64).collect();
    let out = rt.block_on(wp::fates_once(&q, &c, a.str("op"), a.str("mode"), a.usize("limit"), a.u64("dead") == 1));
    println!("out={}", out.replace('=', ":"));
}

/// factory_step op=<..> mode=<..> limit=<n> queue=<msg ids> expired=<flags> incoming_expired=0|1 draining=0|1 script=<h|r|b...> choose=<flags>
pub fn factory_step(a: &Args) {
    use ractor::factory::factoryimpl::verif_probe as fp;
    let ids: Vec<u64> = a.list_u128("queue").iter().map(|x| *x as u64).collect();
    let ex = flags(a, "expired");
    let q: Vec<(u64, bool)> = ids.iter().enumerate().map(|(i, m)| (*m, ex.get(i).copied().unwrap_or(false))).collect();
    let out = fp::factory_step(a.str("op"), a.str("mode"), a.usize("limit"), &q, a.u64("incoming_expired") == 1, a.u64("draining") == 1, a.str("script"), &flags(a, "choose"));
    println!("out={}", out.replace('=', ":"));
}

/// factory_finished queue=<keys> draining=0|1 fq=<n>
pub fn factory_finished(a: &Args) {
    use ractor::factory::factoryimpl::verif_probe as fp;
    let rt = tokio::runtime::Builder::new_current_thread().enable_time().build().unwrap();
    let q: Vec<u64> = a.list_u128("queue").iter().map(|x| *x as u64).collect();
    let out = rt.block_on(fp::factory_finished_on(&q, a.u64("draining") == 1, a.usize("fq"), a.opt_u128("closed").unwrap_or(0) == 1));
    println!("out={}", out.replace('=', ":"));
}

/// factory_pool pool_size=<n> slots=<live|drain|-,...> busy=<slots> op=<..>
pub fn factory_pool(a: &Args) {
    use ractor::factory::factoryimpl::verif_probe as fp;
    let rt = tokio::runtime::Builder::new_current_thread().enable_time().build().unwrap();
    let slots: Vec<String> = a.str("slots").split(',').filter(|s| !s.is_empty()).map(|s| s.to_string()).collect();
    let busy: Vec<usize> = a.list_u128("busy").iter().map(|x| *x as usize).collect();
    let queued: Vec<usize> = a.list_u128("queued").into_iter().map(|x| x as usize).collect();
    let out = rt.block_on(fp::pool_step_q(a.usize("pool_size"), &slots, &busy, &queued, a.str("op")));
    println!("out={}", out.replace('=', ":"));
}

/// factory_drain draining=0|1 busy=<wids> queued=<n> msg=<drain|dispatch|finished:<wid>>
pub fn factory_drain(a: &Args) {
    use ractor::factory::factoryimpl::verif_probe as fp;
    let rt = tokio::runtime::Builder::new_current_thread().enable_time().build().unwrap();
    let busy: Vec<usize> = a.list_u128("busy").iter().map(|x| *x as usize).collect();
    let out = rt.block_on(fp::drain_step(a.u64("draining") == 1, &busy, a.usize("queued"), a.str("msg")));
    println!("out={}", out.replace('=', "~"));
}

/// factory_queuer sticky=0|1 busy=<wids> deque=<wids> queued=<n> op=<dispatch|finished:<wid>>
pub fn factory_queuer(a: &Args) {
    use ractor::factory::factoryimpl::verif_probe as fp;
    let rt = tokio::runtime::Builder::new_current_thread().enable_time().build().unwrap();
    let busy: Vec<usize> = a.list_u128("busy").iter().map(|x| *x as usize).collect();
    let deque: Vec<usize> = a.list_u128("deque").iter().map(|x| *x as usize).collect();
    let out = rt.block_on(fp::queuer_step(a.u64("sticky") == 1, &busy, &deque, a.usize("queued"), a.str("op")));
    println!("out={}", out.replace('=', "~"));
}

/// factory_stale qkey=<5|6>
pub fn factory_stale(a: &Args) {
    use ractor::factory::factoryimpl::verif_probe as fp;
    let rt = tokio::runtime::Builder::new_current_thread().enable_time().build().unwrap();
    let out = rt.block_on(fp::stale_report(a.u64("qkey")));
    println!("out={}", out.replace('=', "~"));
}

/// factory_stop fq=<n> wq=<wids>
pub fn factory_stop(a: &Args) {
    use ractor::factory::factoryimpl::verif_probe as fp;
    let rt = tokio::runtime::Builder::new_current_thread().enable_time().build().unwrap();
    let wq: Vec<usize> = a.list_u128("wq").iter().map(|x| *x as usize).collect();
    let out = rt.block_on(fp::stop_step(a.usize("fq"), &wq));
    println!("out={}", out.replace('=', "~"));
}
