//! one enqueue_job call on a real WorkerProperties from an explicit pre-state (C15 discard limits)
use crate::Args;
use ractor::factory::worker::verif_probe as wp;

pub fn run(a: &Args) {
    let rt = tokio::runtime::Builder::new_current_thread().enable_time().build().unwrap();
    let out = rt.block_on(wp::enqueue_once(a.str("mode"), a.usize("limit"), a.usize("qlen"), a.u64("busy") == 1, a.u64("dead") == 1));
    println!("out={}", out.replace('=', ":"));
}

/// worker_books queue=<keys> curr=<keys> op=<..> dead=0|1
pub fn books(a: &Args) {
    let rt = tokio::runtime::Builder::new_current_thread().enable_time().build().unwrap();
    let q: Vec<u64> = a.list_u128("queue").iter().map(|x| *x as u64).collect();
    let c: Vec<u64> = a.list_u128("curr").iter().map(|x| *x as u64).collect();
    let out = rt.block_on(wp::books_once(&q, &c, a.str("op"), a.u64("dead") == 1));
    println!("out={}", out.replace('=', ":"));
}
