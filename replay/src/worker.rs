//! one enqueue_job call on a real WorkerProperties from an explicit pre-state (C15 discard limits)
use crate::Args;
use ractor::factory::worker::verif_probe as wp;

pub fn run(a: &Args) {
    let rt = tokio::runtime::Builder::new_current_thread().enable_time().build().unwrap();
    let out = rt.block_on(wp::enqueue_once(a.str("mode"), a.usize("limit"), a.usize("qlen"), a.u64("busy") == 1, a.u64("dead") == 1));
    println!("out={}", out.replace('=', ":"));
}
