//! Native replay for C17: the handshake machines (plain function probes) and one inbound frame on a session.
use crate::Args;
use ractor_cluster::node::node_session::verif_probe::{verif_session_step, VerifFrame};
use ractor_cluster::node::verif_probe as np;
use ractor_cluster::verif_remote_actor_probe as rp;

fn hex(b: &[u8]) -> String {
    b.iter().map(|x| format!("{x:02x}")).collect()
}

fn unhex(s: &str) -> Vec<u8> {
    (0..s.len() / 2).map(|i| u8::from_str_radix(&s[2 * i..2 * i + 2], 16).unwrap()).collect()
}

fn d32(s: &str) -> [u8; 32] {
    let v = unhex(s);
    let mut d = [0u8; 32];
    for (i, x) in v.iter().take(32).enumerate() {
        d[i] = *x;
    }
    d
}

/// auth_fsm machine=server|client|start_challenge state=<name> a=<u32> b=<u32> d1=<hex32> d2=<hex32> kind=<msg> val=<u32> flag=0|1 digest=<hex> cookie=<str>
pub fn fsm(a: &Args) {
    let cookie = a.str("cookie");
    let (st, x, y) = (a.str("state"), a.u64("a") as u32, a.u64("b") as u32);
    let (d1, d2) = (d32(a.str("d1")), d32(a.str("d2")));
    let (kind, val, flag, digest) = (a.str("kind"), a.u64("val") as u32, a.u64("flag") != 0, unhex(a.str("digest")));
    let (next, c, d) = match a.str("machine") {
        "server" => np::verif_server_next(st, x, d1, kind, val, flag, &digest, cookie),
        "client" => np::verif_client_next(st, x, y, d1, d2, kind, val, flag, &digest, cookie),
        "start_challenge" => np::verif_server_start_challenge(st, x, d1, cookie),
        other => panic!("unknown machine {other}"),
    };
    println!("next={next}");
    println!("next_challenge={c}");
    println!("next_digest={}", hex(&d));
    println!("digest_of_next_challenge={}", hex(&np::verif_digest(cookie, c)));
    println!("digest_of_val={}", hex(&np::verif_digest(cookie, val)));
}

/// auth_session auth=<Role(State)> a= b= d1= d2= frame=auth|node|control kind=<..> val= flag= digest= advertised=0|1 remotable=0|1 check_reply=<..> cookie=
pub fn session(a: &Args) {
    let frame = match a.str("frame") {
        "auth" => VerifFrame::Auth { kind: a.str("kind").to_string(), val: a.u64("val") as u32, flag: a.u64("flag") != 0, digest: unhex(a.str("digest")) },
        "auth_handle" => VerifFrame::AuthHandle { kind: a.str("kind").to_string(), val: a.u64("val") as u32, flag: a.u64("flag") != 0, digest: unhex(a.str("digest")) },
        "node" => VerifFrame::Node { kind: a.str("kind").to_string() },
        "control" => VerifFrame::Control { kind: a.str("kind").to_string() },
        other => panic!("unknown frame {other}"),
    };
    let rt = tokio::runtime::Builder::new_current_thread().enable_time().build().unwrap();
    let obs = rt.block_on(verif_session_step(
        a.str("auth"),
        a.u64("a") as u32,
        a.u64("b") as u32,
        d32(a.str("d1")),
        d32(a.str("d2")),
        frame,
        a.u64("advertised") != 0,
        a.u64("remotable") != 0,
        a.str("check_reply"),
        a.str("cookie"),
    ));
    println!("delivered={}", obs.delivered);
    println!("auth={}", obs.auth);
    println!("auth_a={}", obs.auth_a);
    println!("auth_d={}", hex(&obs.auth_d));
    println!("digest_of_auth_a={}", hex(&np::verif_digest(a.str("cookie"), obs.auth_a)));
    println!("myself_stopped={}", obs.myself_stopped);
    println!("remote_actors={}", obs.remote_actors);
    println!("advertised={}", obs.advertised);
    println!("ready={}", obs.ready);
    println!("server_log={}", obs.server_log.join(","));
    println!("tcp_sent={}", obs.tcp_sent);
    println!("group_members={}", obs.group_members);
    println!("children={}", obs.children);
    println!("target_pid={}", obs.target_pid);
    println!("target_log={}", obs.target_log.join("+"));
    println!("session_frames={}", obs.session_frames.join("+"));
}

/// remote_proxy pid= counter= tags=<..> closed=<flags> cursor=<n|none> kind=<..> reply_tag= timeout_ms= session_dead=0|1
pub fn proxy(a: &Args) {
    let tags: Vec<u64> = a.list_u128("tags").iter().map(|x| *x as u64).collect();
    let closed: Vec<bool> = a.list_u128("closed").iter().map(|x| *x != 0).collect();
    let pending: Vec<(u64, bool)> = tags.iter().enumerate().map(|(i, t)| (*t, closed.get(i).copied().unwrap_or(false))).collect();
    let rt = tokio::runtime::Builder::new_current_thread().enable_time().build().unwrap();
    let out = rt.block_on(rp::proxy_step(a.u64("pid"), a.u64("counter"), &pending, a.opt_u128("cursor").map(|x| x as u64), a.str("kind"), a.u64("reply_tag"), a.u64("timeout_ms"), a.u64("session_dead") == 1));
    println!("out={}", out.replace('=', ":"));
}

/// node_sessions authenticated=<ids> unnamed=<ids>
pub fn sessions(a: &Args) {
    let auth: Vec<u64> = a.list_u128("authenticated").iter().map(|x| *x as u64).collect();
    let unnamed: Vec<u64> = a.list_u128("unnamed").iter().map(|x| *x as u64).collect();
    let rt = tokio::runtime::Builder::new_current_thread().enable_time().build().unwrap();
    let l = rt.block_on(np::verif_get_sessions(&auth, &unnamed));
    println!("listed={}", l.iter().map(|x| x.to_string()).collect::<Vec<_>>().join(","));
}

/// node_commit servers=<0|1,..> nonces=<..> before=<ids> announcing=<id>
pub fn commit(a: &Args) {
    let srv = a.list_u128("servers");
    let non = a.list_u128("nonces");
    let sessions: Vec<(bool, u64)> = (0..srv.len()).map(|i| (srv[i] != 0, non[i] as u64)).collect();
    let before: Vec<u64> = a.list_u128("before").iter().map(|x| *x as u64).collect();
    let rt = tokio::runtime::Builder::new_current_thread().enable_time().build().unwrap();
    let (auth, stopped) = rt.block_on(np::verif_commit(&sessions, &before, a.u64("announcing")));
    let j = |v: &Vec<u64>| v.iter().map(|x| x.to_string()).collect::<Vec<_>>().join(",");
    println!("authenticated={}", j(&auth));
    println!("stopped={}", j(&stopped));
}

/// node_check servers=<0|1,..> nonces=<..> peers=<a|b,..> auth=<ids> asking=<id> this=<name>   (several lines `case=..` allowed: cases=<c1;c2;..>)
pub fn check_candidate(a: &Args) {
    let rt = tokio::runtime::Builder::new_current_thread().enable_time().build().unwrap();
    // cases: "srv/nonces/peers/auth/asking/this" joined by ';'  (lists inside a case joined by '.')
    let mut out = Vec::new();
    for case in a.str("cases").split(';').filter(|s| !s.is_empty()) {
        let p: Vec<&str> = case.split('/').collect();
        let lst = |s: &str| -> Vec<String> { s.split('.').filter(|x| !x.is_empty()).map(|x| x.to_string()).collect() };
        let srv = lst(p[0]);
        let non = lst(p[1]);
        let peers = lst(p[2]);
        let sessions: Vec<(bool, u64, String)> = (0..srv.len()).map(|i| (srv[i] == "1", non[i].parse().unwrap(), peers[i].clone())).collect();
        let auth: Vec<u64> = lst(p[3]).iter().map(|x| x.parse().unwrap()).collect();
        let r = rt.block_on(np::verif_check_candidate(&sessions, &auth, p[4].parse().unwrap(), p[5]));
        out.push(r);
    }
    println!("replies={}", out.join(","));
}

/// node_check_session cases=<srv/nonces/peers/auth/name/nonce/this;..>
pub fn check_session(a: &Args) {
    let rt = tokio::runtime::Builder::new_current_thread().enable_time().build().unwrap();
    let mut out = Vec::new();
    for case in a.str("cases").split(';').filter(|s| !s.is_empty()) {
        let p: Vec<&str> = case.split('/').collect();
        let lst = |s: &str| -> Vec<String> { s.split('.').filter(|x| !x.is_empty()).map(|x| x.to_string()).collect() };
        let srv = lst(p[0]);
        let non = lst(p[1]);
        let peers = lst(p[2]);
        let sessions: Vec<(bool, u64, String)> = (0..srv.len()).map(|i| (srv[i] == "1", non[i].parse().unwrap(), peers[i].clone())).collect();
        let auth: Vec<u64> = lst(p[3]).iter().map(|x| x.parse().unwrap()).collect();
        let r = rt.block_on(np::verif_check_session(&sessions, &auth, p[4], p[5].parse().unwrap(), p[6]));
        out.push(r);
    }
    println!("replies={}", out.join(","));
}

/// session_mirror have=<pids> enrolled=0|1 kind=<Spawn|Terminate|PgJoin|PgLeave> list=<pids>
pub fn mirror(a: &Args) {
    let have: Vec<u64> = a.list_u128("have").iter().map(|x| *x as u64).collect();
    let list: Vec<u64> = a.list_u128("list").iter().map(|x| *x as u64).collect();
    let rt = tokio::runtime::Builder::new_current_thread().enable_time().build().unwrap();
    let out = rt.block_on(ractor_cluster::node::node_session::verif_probe::verif_mirror(&have, a.u64("enrolled") == 1, a.str("kind"), &list));
    println!("out={}", out.replace('=', "~"));
}

/// session_announce advertised=<1|2 list> remotable=<0|1,0|1> event=<Spawn1|Terminate2|Join12|Leave-|..>
pub fn announce(a: &Args) {
    let adv: Vec<u64> = a.list_u128("advertised").iter().map(|x| *x as u64).collect();
    let rem: Vec<bool> = a.list_u128("remotable").iter().map(|x| *x == 1).collect();
    let rt = tokio::runtime::Builder::new_current_thread().enable_time().build().unwrap();
    let out = rt.block_on(ractor_cluster::node::node_session::verif_probe::verif_announce(&adv, &rem, a.str("event")));
    println!("out={}", out.replace('=', "~"));
}

/// session_child_exit child=<tcp|proxy|stranger> event=<ActorTerminated|ActorFailed>
pub fn child_exit(a: &Args) {
    let rt = tokio::runtime::Builder::new_current_thread().enable_time().build().unwrap();
    let out = rt.block_on(ractor_cluster::node::node_session::verif_probe::verif_child_exit(a.str("child"), a.str("event")));
    println!("out={}", out.replace('=', "~"));
}

/// node_ready servers=<0|1,..> nonces=<..> auth=<ids>
pub fn ready(a: &Args) {
    let srv = a.list_u128("servers");
    let non = a.list_u128("nonces");
    let sessions: Vec<(bool, u64)> = (0..srv.len()).map(|i| (srv[i] != 0, non[i] as u64)).collect();
    let auth: Vec<u64> = a.list_u128("auth").iter().map(|x| *x as u64).collect();
    let rt = tokio::runtime::Builder::new_current_thread().enable_time().build().unwrap();
    let r = rt.block_on(np::verif_ready(&sessions, &auth));
    println!("reported={}", r.iter().map(|x| x.to_string()).collect::<Vec<_>>().join(","));
}
