//! real timers against a real actor on tokio's paused (virtual) clock (C12 replays)
use crate::Args;
use ractor::{Actor, ActorProcessingErr, ActorRef, SupervisionEvent};
use std::sync::{Arc, Mutex};
use std::time::Duration;

struct Target {
    log: Arc<Mutex<Vec<String>>>,
    t0: tokio::time::Instant,
}
impl Actor for Target {
    type Msg = u64;
    type State = ();
    type Arguments = ();
    async fn pre_start(&self, _: ActorRef<u64>, _: ()) -> Result<(), ActorProcessingErr> {
        Ok(())
    }
    async fn handle(&self, _: ActorRef<u64>, m: u64, _: &mut ()) -> Result<(), ActorProcessingErr> {
        self.log.lock().unwrap().push(format!("msg:{}@{}", m, self.t0.elapsed().as_millis()));
        Ok(())
    }
}
struct Sup {
    log: Arc<Mutex<Vec<String>>>,
    t0: tokio::time::Instant,
}
impl Actor for Sup {
    type Msg = ();
    type State = ();
    type Arguments = ();
    async fn pre_start(&self, _: ActorRef<()>, _: ()) -> Result<(), ActorProcessingErr> {
        Ok(())
    }
    async fn handle_supervisor_evt(&self, _: ActorRef<()>, m: SupervisionEvent, _: &mut ()) -> Result<(), ActorProcessingErr> {
        if let SupervisionEvent::ActorTerminated(_, _, reason) = m {
            self.log.lock().unwrap().push(format!("terminated:{}@{}", reason.unwrap_or_else(|| "-".into()).replace(' ', "_"), self.t0.elapsed().as_millis()));
        }
        Ok(())
    }
}

pub fn run(a: &Args) {
    let which = a.str("which").to_string();
    // period_us (if given) overrides period_ms: periods below the millisecond granularity of the timer wheel
    let period = match a.opt_u128("period_us") {
        Some(us) => Duration::from_micros(us as u64),
        None => Duration::from_millis(a.u64("period_ms")),
    };
    let abort_at = a.opt_u128("abort_ms").map(|x| Duration::from_millis(x as u64));
    let stop_target_at = a.opt_u128("stop_target_ms").map(|x| Duration::from_millis(x as u64));
    let stall = a.opt_u128("stall_at_ms").map(|x| Duration::from_millis(x as u64));
    let stall_len = Duration::from_millis(a.opt_u128("stall_ms").unwrap_or(0) as u64);
    let horizon = Duration::from_millis(a.u64("horizon_ms"));
    let log = Arc::new(Mutex::new(Vec::new()));
    let rt = tokio::runtime::Builder::new_current_thread().enable_time().start_paused(true).build().unwrap();
    rt.block_on(async {
        let t0 = tokio::time::Instant::now();
        let (sup, _sh) = Actor::spawn(None, Sup { log: log.clone(), t0 }, ()).await.unwrap();
        let (target, th) = Actor::spawn_linked(None, Target { log: log.clone(), t0 }, (), sup.get_cell()).await.unwrap();
        let counter = Arc::new(std::sync::atomic::AtomicU64::new(0));
        let c2 = counter.clone();
        enum H {
            Unit(tokio::task::JoinHandle<()>),
            Res(tokio::task::JoinHandle<Result<(), ractor::MessagingErr<u64>>>),
        }
        let h = match which.as_str() {
            "send_after" => H::Res(target.send_after(period, move || c2.fetch_add(1, std::sync::atomic::Ordering::SeqCst) + 1)),
            "send_interval" => H::Unit(target.send_interval(period, move || c2.fetch_add(1, std::sync::atomic::Ordering::SeqCst) + 1)),
            "exit_after" => H::Unit(target.exit_after(period)),
            "kill_after" => H::Unit(target.kill_after(period)),
            // DerivedActorRef: its own copies of the two senders, and the aliases (C12 alias slice)
            "derived_send_after" => {
                let c3 = counter.clone();
                H::Res(target.get_derived::<u64>().send_after(period, move || c3.fetch_add(1, std::sync::atomic::Ordering::SeqCst) + 1))
            }
            "derived_send_interval" => {
                let c3 = counter.clone();
                H::Unit(target.get_derived::<u64>().send_interval(period, move || c3.fetch_add(1, std::sync::atomic::Ordering::SeqCst) + 1))
            }
            "derived_exit_after" => H::Unit(target.get_derived::<u64>().exit_after(period)),
            "derived_kill_after" => H::Unit(target.get_derived::<u64>().kill_after(period)),
            _ => panic!("unknown timer"),
        };
        let mut events: Vec<(Duration, &str)> = vec![];
        if let Some(d) = abort_at {
            events.push((d, "abort"));
        }
        if let Some(d) = stop_target_at {
            events.push((d, "stop_target"));
        }
        if let Some(d) = stall {
            events.push((d, "stall"));
        }
        events.push((horizon, "end"));
        events.sort();
        for (d, what) in events {
            tokio::time::sleep_until(t0 + d).await;
            match what {
                "abort" => match &h {
                    H::Unit(j) => j.abort(),
                    H::Res(j) => j.abort(),
                },
                "stop_target" => target.stop(None),
                // the executor does not get to run anything for `stall_len`: the clock jumps, tasks are polled afterwards
                "stall" => tokio::time::advance(stall_len).await,
                _ => {}
            }
        }
        let finished = match &h {
            H::Unit(j) => j.is_finished(),
            H::Res(j) => j.is_finished(),
        };
        log.lock().unwrap().push(format!("timer_finished:{}", finished as u8));
        if let H::Res(j) = h {
            if finished {
                match j.await {
                    Ok(Ok(())) => log.lock().unwrap().push("timer_output:ok".into()),
                    Ok(Err(_)) => log.lock().unwrap().push("timer_output:err".into()),
                    Err(_) => log.lock().unwrap().push("timer_output:aborted".into()),
                }
            }
        }
        log.lock().unwrap().push(format!("target_status:{}", target.get_status() as u8));
        log.lock().unwrap().push(format!("built:{}", counter.load(std::sync::atomic::Ordering::SeqCst)));
        drop(th);
    });
    println!("log={}", log.lock().unwrap().join(","));
}

/// C12 target slice: timers whose target has been stopped but is still inside an awaiting `post_stop` (status Stopping, channel still open): a one-shot timer
/// armed before the stop that expires in that window, one armed (period zero) inside the window, and an interval - none may deliver, the one-shot handles
/// report the error, the interval task ends.
pub fn stopping_target(_a: &Args) {
    struct Slow {
        log: Arc<Mutex<Vec<String>>>,
        gate: Arc<tokio::sync::Notify>,
    }
    impl Actor for Slow {
        type Msg = u64;
        type State = ();
        type Arguments = ();
        async fn pre_start(&self, _: ActorRef<u64>, _: ()) -> Result<(), ActorProcessingErr> {
            Ok(())
        }
        async fn handle(&self, _: ActorRef<u64>, m: u64, _: &mut ()) -> Result<(), ActorProcessingErr> {
            self.log.lock().unwrap().push(format!("msg:{}", m));
            Ok(())
        }
        async fn post_stop(&self, _: ActorRef<u64>, _: &mut ()) -> Result<(), ActorProcessingErr> {
            self.gate.notified().await;
            Ok(())
        }
    }
    let rt = tokio::runtime::Builder::new_current_thread().enable_time().build().unwrap();
    let log: Arc<Mutex<Vec<String>>> = Default::default();
    let gate = Arc::new(tokio::sync::Notify::new());
    rt.block_on(async {
        let (actor, handle) = Actor::spawn(None, Slow { log: log.clone(), gate: gate.clone() }, ()).await.unwrap();
        let early = actor.send_after(Duration::from_millis(80), || 1);
        let every = actor.send_interval(Duration::from_millis(30), || 3);
        actor.stop(None);
        for _ in 0..1000 {
            if actor.get_status() == ractor::ActorStatus::Stopping {
                break;
            }
            tokio::task::yield_now().await;
        }
        println!("status_in_window={}", actor.get_status() as u8);
        let late = actor.send_after(Duration::from_millis(0), || 2);
        let r_late = tokio::time::timeout(Duration::from_secs(2), late).await;
        let r_early = tokio::time::timeout(Duration::from_secs(2), early).await;
        let r_every = tokio::time::timeout(Duration::from_millis(400), every).await;
        println!("late_handle={}", match r_late { Ok(Ok(Err(_))) => "err", Ok(Ok(Ok(()))) => "ok", Ok(Err(_)) => "join_error", Err(_) => "pending" });
        println!("early_handle={}", match r_early { Ok(Ok(Err(_))) => "err", Ok(Ok(Ok(()))) => "ok", Ok(Err(_)) => "join_error", Err(_) => "pending" });
        println!("interval_task={}", if r_every.is_ok() { "ended" } else { "running" });
        println!("status_after_timers={}", actor.get_status() as u8);
        gate.notify_one();
        let _ = tokio::time::timeout(Duration::from_secs(2), handle).await;
    });
    println!("log={}", log.lock().unwrap().join(","));
}
