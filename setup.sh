#!/bin/sh
# Builds, offline and from files on disk only, what the checks would otherwise build on first use:
#  - nightly dependency artefacts + MIR dumps of the crates under test (cached by source hash under /verif/.build)
#  - the native replay crate (guard on)
DIR="$(cd "$(dirname "$0")" && pwd)"
export PYTHONPATH="$DIR/mirsmt:$DIR/props"
export CARGO_NET_OFFLINE=true
python3-vt - <<'PY'
import sys, time
import mirdump, native
t = time.time()
for crate, feats in (('ractor', ('cluster',)), ('ractor', ()), ('ractor_cluster', ())):
    try:
        p, info = mirdump.load(crate, features=feats)
        print('mir', crate, feats, info['bodies'], 'bodies', info['dump_s'], 's')
    except Exception as e:
        print('setup: MIR dump failed for', crate, feats, e)
        sys.exit(1)
try:
    print('replay crate:', native.build())
except Exception as e:
    print('setup: replay build failed', e)
    sys.exit(1)
# warm the Kani harness crate (dependencies are compiled once by the pinned Kani toolchain): one cheap harness
try:
    sys.path.insert(0, '/verif/kani')
    import kanirun
    kanirun.prepare()
    res = kanirun.verify(['frame_len_all_pairs'], 2, 300, 900, 'setup')
    print('kani warm-up:', [(r.name, r.status) for r in (res if isinstance(res, list) else list(res.values()) if isinstance(res, dict) else [])][:2])
except Exception as e:
    print('setup: kani warm-up failed (checks will build on first use):', str(e)[:300])
print('setup done in %.0fs' % (time.time() - t))
PY
