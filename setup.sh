#!/bin/sh
# builds what checks need from files on disk only (offline)
exit 0
