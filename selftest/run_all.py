#!/usr/bin/env python3
"""Self-test of the machinery (not a property check): apply every patch under selftest/patches and seeded/*/patch.diff to a scratch
copy of /repo, run the named check against it, record the exit code.  usage: run_all.py [jobs] [filter-regex]"""
import concurrent.futures as cf, glob, json, os, re, subprocess, sys, time

jobs = int(sys.argv[1]) if len(sys.argv) > 1 else 4
flt = re.compile(sys.argv[2]) if len(sys.argv) > 2 else None
items = []
for p in sorted(glob.glob('/verif/selftest/patches/*.diff')):
    items.append((os.path.basename(p)[:-5], os.path.basename(p).split('_')[0], p))
for p in sorted(glob.glob('/verif/seeded/*/patch.diff')):
    n = os.path.basename(os.path.dirname(p))
    items.append(('seeded/' + n, n.split('_')[0], p))
if flt:
    items = [i for i in items if flt.search(i[0])]


def one(it):
    name, prop, patch = it
    t = time.time()
    try:
        p = subprocess.run(['/verif/selftest_run.sh', patch, prop], capture_output=True, text=True, timeout=3000)
        out = p.stdout
    except subprocess.TimeoutExpired:
        out = 'exit=timeout'
    m = re.search(r'exit=(\w+)', out[-200:])
    viol = re.findall(r'VIOLATION property=\S+ replay=\S*?([^/]+)\.json', out)
    return {'patch': name, 'property': prop, 'exit': m.group(1) if m else '?', 'violations': viol[:4], 'seconds': round(time.time() - t)}


res = []
with cf.ThreadPoolExecutor(jobs) as ex:
    for r in ex.map(one, items):
        res.append(r)
        print(r, flush=True)
path = '/verif/selftest/results.json'
old = json.load(open(path)) if os.path.exists(path) else {}
for r in res:
    old[r['patch']] = r
# entries whose patch no longer exists are dropped
names = {i[0] for i in items} if not flt else None
if names is not None:
    old = {k: v for k, v in old.items() if k in names}
json.dump(old, open(path, 'w'), indent=1, sort_keys=True)
