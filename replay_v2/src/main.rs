//! Native replays against ractor built with `output-port-v2` (C16, v2 port).
//!   vreplay_v2 dispatch initial=1:s0,2:s1 items=D:0:-,S:10:n1,N:0:- dup=0|1 refuse=s0:2,n1:3
//!   vreplay_v2 port            (public API: real subscriber actors, subscriptions in the middle of the stream, a stopping subscriber)
use ractor::{Actor, ActorProcessingErr, ActorRef, OutputPort};
use std::collections::HashMap;
use std::sync::{Arc, Mutex};
use std::time::Duration;

struct Rec {
    name: &'static str,
    log: Arc<Mutex<Vec<String>>>,
    stop_at: Option<u64>,
}
impl Actor for Rec {
    type Msg = u64;
    type State = ();
    type Arguments = ();
    async fn pre_start(&self, _: ActorRef<u64>, _: ()) -> Result<(), ActorProcessingErr> {
        Ok(())
    }
    async fn handle(&self, myself: ActorRef<u64>, m: u64, _: &mut ()) -> Result<(), ActorProcessingErr> {
        self.log.lock().unwrap().push(format!("{}:{}", self.name, m));
        if Some(m) == self.stop_at {
            myself.stop(None);
        }
        Ok(())
    }
}

async fn settle() {
    for _ in 0..20 {
        tokio::task::yield_now().await;
    }
    tokio::time::sleep(Duration::from_millis(5)).await;
}

fn main() {
    let argv: Vec<String> = std::env::args().collect();
    let kv: HashMap<String, String> = argv.iter().skip(2).filter_map(|a| a.split_once('=').map(|(k, v)| (k.to_string(), v.to_string()))).collect();
    let get = |k: &str| kv.get(k).cloned().unwrap_or_default();
    let rt = tokio::runtime::Builder::new_current_thread().enable_time().build().unwrap();
    match argv.get(1).map(|s| s.as_str()) {
        Some("dispatch") => {
            let initial: Vec<(u64, String)> = get("initial").split(',').filter(|s| !s.is_empty()).map(|s| { let (a, b) = s.split_once(':').unwrap(); (a.parse().unwrap(), b.to_string()) }).collect();
            let items: Vec<(String, u64, String)> = get("items").split(',').filter(|s| !s.is_empty()).map(|s| { let p: Vec<&str> = s.split(':').collect(); (p[0].to_string(), p[1].parse().unwrap(), p[2].to_string()) }).collect();
            let refuse: Vec<(String, u64)> = get("refuse").split(',').filter(|s| !s.is_empty()).map(|s| { let (a, b) = s.split_once(':').unwrap(); (a.to_string(), b.parse().unwrap()) }).collect();
            let (log, ids, left) = rt.block_on(ractor::port::output::verif_v2_probe::dispatch(initial, items, get("dup") == "1", refuse));
            println!("log={}", log.iter().map(|(n, v, a)| format!("{}:{}:{}", n, v, *a as u8)).collect::<Vec<_>>().join(","));
            println!("ids={}", ids.iter().map(|x| x.to_string()).collect::<Vec<_>>().join(","));
            println!("batch_left={}", left);
        }
        Some("port") => {
            let log = Arc::new(Mutex::new(Vec::new()));
            rt.block_on(async {
                let port = OutputPort::<u64>::default();
                let (a, _) = Actor::spawn(None, Rec { name: "a", log: log.clone(), stop_at: Some(4) }, ()).await.unwrap();
                let (b, _) = Actor::spawn(None, Rec { name: "b", log: log.clone(), stop_at: None }, ()).await.unwrap();
                let (c, _) = Actor::spawn(None, Rec { name: "c", log: log.clone(), stop_at: None }, ()).await.unwrap();
                port.subscribe(a.clone(), |v| if v % 10 == 9 { None } else { Some(v) });
                port.send(1);
                port.send(2);
                port.subscribe(b.clone(), |v| if v % 10 == 9 { None } else { Some(v) });
                for v in 3..=6 {
                    port.send(v);
                }
                settle().await;
                port.send(9);
                port.subscribe(c.clone(), Some);
                // a burst far larger than the v1 buffer: the v2 port skips nothing
                for v in 100..160 {
                    port.send(v);
                }
                settle().await;
                settle().await;
                b.stop(None);
                c.stop(None);
            });
            println!("log={}", log.lock().unwrap().join(","));
        }
        _ => {
            eprintln!("unknown scenario");
            std::process::exit(2);
        }
    }
}
