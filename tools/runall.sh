#!/bin/sh
# run every registered quick check (in parallel, with a time limit) and print one line per property
cd /verif
TIER="${1:-quick}"
LIM="${2:-1500}"
mkdir -p /tmp/runall
for p in $(python3-vt -c "import json; print(' '.join(c['property_id'] for c in json.load(open('/verif/MANIFEST.json'))['checks']))"); do
  ( s=$(date +%s); timeout $LIM ./check $p --tier $TIER > /tmp/runall/$p.log 2>&1; rc=$?; e=$(date +%s); echo "$p exit=$rc $((e-s))s $(tail -1 /tmp/runall/$p.log | cut -c1-150)" ) &
done
wait
