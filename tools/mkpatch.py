#!/usr/bin/env python3
"""mkpatch.py <name> <repo-relative file> <old> <new> [<old> <new> ...]  -> selftest/patches/<name>.diff (unified diff against /repo)"""
import difflib, sys
name, rel = sys.argv[1:3]
base = open('/repo/' + rel).read()
s = base
pairs = sys.argv[3:]
for i in range(0, len(pairs), 2):
    old, new = pairs[i].encode().decode('unicode_escape'), pairs[i + 1].encode().decode('unicode_escape')
    assert s.count(old) >= 1, 'not found: ' + old[:60]
    s = s.replace(old, new, 1)
d = ''.join(difflib.unified_diff(base.splitlines(True), s.splitlines(True), 'a/' + rel, 'b/' + rel))
open('/verif/selftest/patches/%s.diff' % name, 'w').write(d)
print(d)
