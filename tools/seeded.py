#!/usr/bin/env python3
"""Confirm a seeded change produced by an independent sub-agent and run our check against it.
usage: seeded.py <name> <property> <worktree-with-_seed>
Steps (all in the scratch worktree, never in /repo): demo passes on the unchanged tree; demo fails with the change; the pinned suite
passes with the change; then ./check <property> against a scratch copy with the change applied. Results go to /verif/seeded/<name>/meta.json."""
import json, os, shutil, subprocess, sys, re

name, prop, wt = sys.argv[1:4]
check_only = len(sys.argv) > 4 and sys.argv[4] == '--check-only'
seed = os.path.join(wt, '_seed')
out = os.path.join('/verif/seeded', name)
os.makedirs(out, exist_ok=True)
for f in ('patch.diff', 'demo.diff', 'meta.json'):
    shutil.copy(os.path.join(seed, f), os.path.join(out, f))
meta = json.load(open(os.path.join(out, 'meta.json')))
env = dict(os.environ, CARGO_NET_OFFLINE='true', CARGO_TARGET_DIR=os.path.join(wt, 'target'))


def sh(cmd, timeout=2400):
    p = subprocess.run(cmd, shell=True, cwd=wt, env=env, capture_output=True, text=True, timeout=timeout)
    return p.returncode, (p.stdout + p.stderr)[-3000:]


def git(*a):
    return subprocess.run(['git', '-C', wt] + list(a), capture_output=True, text=True)


git('checkout', '--', '.')
res = {}
if check_only:
    meta = json.load(open(os.path.join(out, 'meta.json')))
    res = meta.get('confirmed_by_framework_author', {})
demo_cmd = meta['demo_cmd']
demo_cmd = re.sub(r'^cd \S+ && ', '', demo_cmd)
demo_cmd = re.sub(r'git apply _seed/demo\.diff && ', '', demo_cmd)
demo_cmd = re.sub(r'\s{2,}\(.*$|\s+\((fallback|equivalently|or)\b.*$', '', demo_cmd, flags=re.S)
demo_cmd = re.sub(r'\s+#.*$', '', demo_cmd)
if not check_only:
    # 1. demo on the unchanged tree
    rc, _ = sh('git apply _seed/demo.diff')
    assert rc == 0, 'demo.diff does not apply'
    rc, o = sh(demo_cmd)
    res['demo_passes_without_change'] = rc == 0
    # 2. demo with the change
    rc, _ = sh('git apply _seed/patch.diff')
    assert rc == 0, 'patch.diff does not apply'
    rc, o = sh(demo_cmd)
    res['demo_fails_with_change'] = rc != 0
    res['demo_output_tail'] = o[-600:]
    # 3. suite with the change only
    sh('git apply -R _seed/demo.diff')
    rc, o = sh('cargo nextest run --workspace --no-fail-fast --test-threads 8 --offline 2>&1 | tail -3')
    m = re.search(r'(\d+) tests run: (\d+) passed', o)
    res['suite_with_change'] = m.group(0) if m else o[-200:]
    res['suite_passes_with_change'] = bool(m and m.group(1) == m.group(2) and int(m.group(1)) >= 307)
    git('checkout', '--', '.')
    sh('git clean -fdq -e _seed -e target')
# 4. our check against the change
p = subprocess.run(['/verif/selftest_run.sh', os.path.join(out, 'patch.diff'), prop], capture_output=True, text=True, timeout=3600)
tail = p.stdout[-1500:]
mm = re.search(r'exit=(\d+)', tail)
res['check_exit'] = int(mm.group(1)) if mm else None
res['check_output_tail'] = tail[-900:]
meta['confirmed_by_framework_author'] = res
meta['what_i_ran'] = ['git apply demo.diff; %s (unchanged tree)' % demo_cmd, 'git apply patch.diff; %s' % demo_cmd, 'cargo nextest run --workspace (patch only)', './selftest_run.sh patch.diff %s' % prop]
json.dump(meta, open(os.path.join(out, 'meta.json'), 'w'), indent=1)
print(json.dumps({k: v for k, v in res.items() if 'tail' not in k}, indent=1))
print(res['check_output_tail'][-400:])
