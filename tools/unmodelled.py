"""static scan: which callees reachable from the given functions have neither a crate body nor a model / allow entry"""
import sys, re
sys.path[:0] = ['/verif/mirsmt', '/verif/props']
import actor_run as ar, lifecycle as lc
from exec import strip_generics, Program, Unmodelled
from mirparse import Operand

prog, info = lc.load()
I = ar.new_interp(prog)
roots = sys.argv[1:]
seen, todo, missing = set(), [], {}
for r in roots:
    b = prog.find_fn(r) or prog.bodies.get(r)
    if b is None:
        print('root not found', r)
        continue
    todo.append(b)
while todo:
    b = todo.pop()
    if b.name in seen:
        continue
    seen.add(b.name)
    # closures / coroutine resume fns created here
    for n, bb in prog.bodies.items():
        if n.startswith(b.name.split('~')[0] + '::{closure#') and n not in seen:
            todo.append(bb)
    for blk in b.blocks.values():
        t = blk.term
        if t.kind != 'call' or isinstance(t.func, Operand):
            continue
        f = t.func
        try:
            cb = prog.find_fn(f)
        except Unmodelled:
            cb = None
        if cb is not None:
            todo.append(cb)
            continue
        canon = strip_generics(f)
        segs = Program._segments(canon)
        short = '::'.join(segs[-2:]) if len(segs) > 2 and not canon.startswith('<') else canon
        hit = any(rx.search(canon) or rx.search(f) or rx.search(short) for rx, _, _ in I.models) or any(rx.search(canon) or rx.search(f) or rx.search(short) for rx in I.allow) \
            or any(rx.search(f) or rx.search(short) for rx, _ in I.override)
        if not hit:
            missing.setdefault(canon, set()).add(b.name[-50:])
for k in sorted(missing):
    print(k[:150], '   <-', sorted(missing[k])[0])
print(len(seen), 'bodies,', len(missing), 'unmodelled callees')
