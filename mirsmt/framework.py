"""Driver-side plumbing shared by all property files: obligations, witnesses, replay, evidence, exit codes."""
import json
import os
import subprocess
import sys
import time
import traceback

import z3

VERIF = os.path.dirname(os.path.dirname(os.path.abspath(__file__)))
EVIDENCE_DIR = os.environ.get('VERIF_EVIDENCE', os.path.join(VERIF, 'evidence'))
REPLAY_DIR = os.environ.get('VERIF_REPLAYS', os.path.join(VERIF, 'replays'))
KNOWN = os.path.join(VERIF, 'known_findings.json')


class Ctx:
    def __init__(self, prop_id, tier, seed):
        self.prop_id = prop_id
        self.tier = tier
        self.seed = seed
        self.t0 = time.time()
        self.obligations = []     # dict(name, status, detail, solver_s, group)
        self.witnesses = []       # dict(name, sat)
        self.samples = []
        self.assumptions = []
        self.functions = []       # dict(name, blocks, dump_hash)
        self.bounds = {}
        self.models_used = set()
        self.allow_used = set()
        self.inlined = set()
        self.notes = []
        self.inconclusive = []
        self.violations = []      # dict(name, key, replay_path, detail)
        self.known_printed = []
        self.solver_s = 0.0
        self.queries = {'sat': 0, 'unsat': 0, 'unknown': 0}
        self.cross = {'checked': 0, 'agree': 0, 'unknown': 0, 'disagree': 0}
        self.paths = 0
        self.extra = {}
        self.timeout_ms = 120000 if tier == 'quick' else 900000
        self.translator_validated = 0
        z3.set_param('smt.random_seed', seed & 0x7fffffff)
        z3.set_param('sat.random_seed', seed & 0x7fffffff)

    # ------------------------------------------------------------------ solver access
    def solve(self, constraints, timeout_ms=None, logic=None):
        """returns ('sat', model) | ('unsat', None) | ('unknown', reason)"""
        s = z3.SolverFor(logic) if logic else z3.Solver()
        s.set('timeout', timeout_ms or self.timeout_ms)
        s.set('random_seed', self.seed & 0x7fffffff)
        for c in constraints:
            s.add(c)
        t = time.time()
        r = s.check()
        dt = time.time() - t
        self.solver_s += dt
        self.queries[str(r)] += 1
        if self.tier == 'thorough' and os.environ.get('VERIF_NO_CROSS') != '1':
            self._cross(s, str(r))
        if r == z3.sat:
            return 'sat', s.model()
        if r == z3.unsat:
            return 'unsat', None
        return 'unknown', s.reason_unknown()

    def _cross(self, s, verdict):
        if verdict == 'unknown':
            return
        try:
            txt = '(set-logic ALL)\n' + s.to_smt2()
            p = subprocess.run(['cvc5', '--lang', 'smt2', '--tlimit', '60000'], input=txt, capture_output=True, text=True, timeout=90)
            out = p.stdout.strip().split('\n')[0] if p.stdout.strip() else ''
        except Exception as e:   # noqa
            out = 'unknown'
        self.cross['checked'] += 1
        if '(error' in (p.stdout if 'p' in dir() else ''):
            self.cross['unknown'] += 1
        elif out == verdict:
            self.cross['agree'] += 1
        elif out in ('sat', 'unsat'):
            self.cross['disagree'] += 1
            self.inconclusive.append('solver disagreement: z3=%s cvc5=%s' % (verdict, out))
        else:
            self.cross['unknown'] += 1

    # ------------------------------------------------------------------ obligations
    def prove(self, name, pc, claim, group=None, sample=None, on_cex=None, key=None):
        """obligation: pc => claim.  on_cex(model) -> dict(replayed=bool, detail=..., replay=dict) decides VIOLATION"""
        t = time.time()
        r, m = self.solve(list(pc) + [z3.Not(claim)])
        rec = {'name': name, 'group': group or name, 'solver_s': round(time.time() - t, 3)}
        if r == 'unsat':
            rec['status'] = 'proved'
        elif r == 'unknown':
            rec['status'] = 'unknown'
            rec['detail'] = str(m)
            self.inconclusive.append('solver unknown on obligation %s: %s' % (name, m))
        else:
            rec['status'] = 'cex'
            rec['model'] = model_to_dict(m)
            self.handle_cex(name, key or (group or name), m, on_cex, rec)
        if os.environ.get('VERIF_DEBUG'):
            print('  [%s] %s %.2fs' % (rec['status'], name, rec['solver_s']), flush=True)
        if sample is not None and len(self.samples) < 12:
            self.samples.append({'obligation': name, **sample})
        self.obligations.append(rec)
        return rec['status'] == 'proved'

    def handle_cex(self, name, key, model, on_cex, rec):
        if on_cex is None:
            self.inconclusive.append('counterexample for %s but no replay available' % name)
            rec['status'] = 'cex-unreplayed'
            return
        try:
            res = on_cex(model)
        except Exception as e:   # noqa
            res = {'replayed': False, 'detail': 'replay crashed: %r' % (e,)}
        rec['replay'] = {k: v for k, v in res.items() if k != 'replay'}
        if res.get('replayed'):
            os.makedirs(REPLAY_DIR, exist_ok=True)
            path = os.path.join(REPLAY_DIR, '%s-%s.json' % (self.prop_id, safe(name)))
            with open(path, 'w') as f:
                json.dump({'property': self.prop_id, 'obligation': name, 'key': key, 'replay': res.get('replay'), 'detail': res.get('detail')}, f, indent=1, default=str)
            self.violations.append({'name': name, 'key': key, 'replay_path': path, 'detail': res.get('detail')})
            rec['status'] = 'violated'
        else:
            rec['status'] = 'cex-not-reproduced'
            self.inconclusive.append('counterexample for %s did not reproduce on the real build: %s' % (name, res.get('detail')))

    def witness(self, name, pc, cond=None, logic=None):
        r, m = self.solve(list(pc) + ([cond] if cond is not None else []), logic=logic)
        okk = r == 'sat'
        self.witnesses.append({'name': name, 'sat': okk})
        if not okk:
            self.inconclusive.append('vacuity witness not satisfiable: %s (%s)' % (name, r))
        return m if okk else None

    def note_witness(self, name, okk):
        self.witnesses.append({'name': name, 'sat': bool(okk)})
        if not okk:
            self.inconclusive.append('vacuity witness failed: %s' % name)

    def absorb(self, interp):
        self.models_used |= set(interp.stats['models_used'])
        self.allow_used |= set(interp.stats['allow_used'])
        self.inlined |= set(interp.stats['calls_inlined'])
        self.solver_s += interp.stats['solver_s']
        interp.stats['solver_s'] = 0.0
        self.queries['sat'] += 0
        self.extra['feasibility_queries'] = self.extra.get('feasibility_queries', 0) + interp.stats['feas_queries']
        interp.stats['feas_queries'] = 0
        self.extra['blocks_executed'] = self.extra.get('blocks_executed', 0) + interp.stats['blocks']
        interp.stats['blocks'] = 0

    def encoded(self, prog, body):
        self.functions.append({'name': body.name, 'blocks': len(body.blocks), 'dump_hash': prog.info['dump_hash'], 'line': body.line})

    # ------------------------------------------------------------------ parallel sub-runs (one process per instance)
    def export(self):
        return {'obligations': self.obligations, 'witnesses': self.witnesses, 'samples': self.samples, 'inconclusive': self.inconclusive,
                'violations': self.violations, 'solver_s': self.solver_s, 'queries': self.queries, 'cross': self.cross, 'extra': self.extra,
                'models_used': sorted(self.models_used), 'allow_used': sorted(self.allow_used), 'inlined': sorted(self.inlined), 'paths': self.paths,
                'translator_validated': self.translator_validated, 'functions': self.functions}

    def merge(self, d):
        for o in d['obligations']:
            o.pop('model', None)
        self.obligations += d['obligations']
        self.witnesses += d['witnesses']
        self.samples += d['samples']
        self.inconclusive += d['inconclusive']
        self.violations += d['violations']
        self.solver_s += d['solver_s']
        for k in self.queries:
            self.queries[k] += d['queries'].get(k, 0)
        for k in self.cross:
            self.cross[k] += d['cross'].get(k, 0)
        for k, v in d['extra'].items():
            if isinstance(v, list):
                self.extra.setdefault(k, []).extend(v)
            elif isinstance(v, (int, float)) and not isinstance(v, bool):
                self.extra[k] = self.extra.get(k, 0) + v
            elif isinstance(v, dict):
                tgt = self.extra.setdefault(k, {})
                for kk, vv in v.items():
                    if isinstance(vv, (int, float)) and not isinstance(vv, bool) and isinstance(tgt.get(kk, 0), (int, float)):
                        tgt[kk] = tgt.get(kk, 0) + vv
                    else:
                        tgt[kk] = vv
            else:
                self.extra[k] = v
        self.models_used |= set(d['models_used'])
        self.allow_used |= set(d['allow_used'])
        self.inlined |= set(d['inlined'])
        self.paths += d['paths']
        self.translator_validated += d['translator_validated']
        for f in d['functions']:
            if f not in self.functions:
                self.functions.append(f)

    def parallel(self, fn, arglist, procs=None):
        """run fn(sub_ctx, *args) for each args in arglist in forked worker processes; merge the results"""
        import multiprocessing as mp
        procs = procs or min(len(arglist), int(os.environ.get('VERIF_PROCS', '12')))
        if procs <= 1 or len(arglist) <= 1 or os.environ.get('VERIF_SERIAL') == '1':
            for a in arglist:
                sub = Ctx(self.prop_id, self.tier, self.seed)
                sub.timeout_ms = self.timeout_ms
                _worker_body(fn, sub, a)
                self.merge(sub.export())
            return
        ctxm = mp.get_context('fork')
        with ctxm.Pool(procs) as pool:
            res = [pool.apply_async(_worker, (fn, self.prop_id, self.tier, self.seed, self.timeout_ms, a)) for a in arglist]
            for r in res:
                self.merge(r.get())

    # ------------------------------------------------------------------ finish
    def finish(self):
        known = load_known()
        unknown_viol = []
        for v in self.violations:
            k = match_known(known, self.prop_id, v['key'])
            if k:
                if k['key'] not in self.known_printed:
                    n = sum(1 for x in self.violations if x['key'] == v['key'])
                    print('KNOWN-FINDING: property=%s %s (%d failing obligations, all reproduced natively)' % (self.prop_id, k['what'], n))
                    self.known_printed.append(k['key'])
            else:
                unknown_viol.append(v)
        n_ob = len(self.obligations)
        n_proved = sum(1 for o in self.obligations if o['status'] == 'proved')
        n_wit = sum(1 for w in self.witnesses if w['sat'])
        ev = {
            'property_id': self.prop_id,
            'tier': self.tier,
            'seed': self.seed,
            'level': 'model_checking',
            'coverage': {
                'evaluations': sum(self.queries.values()) + self.extra.get('feasibility_queries', 0),
                'distinct_nontrivial': n_wit,
                'rule': 'one evaluation = one SMT query (obligation `path-condition and not claim`, vacuity witness, or branch feasibility '
                        'query of the symbolic executor). distinct_nontrivial = number of distinct vacuity witnesses that came back sat, i.e. '
                        'distinct interesting regions of the input/schedule space shown reachable in the encoding.',
                'samples': self.samples[:12] or [{'note': 'no sample recorded'}],
                'obligations': n_ob,
                'discharged': n_proved,
                'functions_encoded': self.functions,
                'bounds': self.bounds,
                'models_used': sorted(self.models_used),
                'allowlisted_calls': sorted(self.allow_used),
                'crate_bodies_interpreted': sorted(self.inlined),
                'queries': self.queries,
                'solver_time_s': round(self.solver_s, 2),
                'witnesses': self.witnesses,
                'cross_solver': self.cross,
                'obligation_results': summarize_obligations(self.obligations),
                'inconclusive_reasons': self.inconclusive,
                'known_findings_matched': self.known_printed,
                'traces_validated_against_impl': self.translator_validated,
                'exhaustive': False,
                **self.extra,
            },
            'assumptions': self.assumptions,
            'wall_s': round(time.time() - self.t0, 2),
            'violations': len(unknown_viol),
        }
        ev = json.loads(json.dumps(ev, default=str))
        try:
            import jsonschema
            sp = os.environ.get('VERIF_EVIDENCE_SCHEMA', '/root/.vp/EVIDENCE.schema.json')
            if os.path.exists(sp):
                jsonschema.validate(ev, json.load(open(sp)))
        except ImportError:
            pass
        except Exception as e:   # noqa  (schema violation: the evidence file would be rejected; make it visible instead of silently writing it)
            self.inconclusive.append('evidence does not match the schema: %s' % str(e).split('\n')[0][:300])
        os.makedirs(EVIDENCE_DIR, exist_ok=True)
        with open(os.path.join(EVIDENCE_DIR, self.prop_id + '.json'), 'w') as f:
            json.dump(ev, f, indent=1, default=str)
        printed = set()
        for v in unknown_viol:
            if v['key'] in printed:
                continue
            printed.add(v['key'])
            n = sum(1 for x in unknown_viol if x['key'] == v['key'])
            print('VIOLATION property=%s replay=%s' % (self.prop_id, v['replay_path']))
            print('  obligation: %s (%d obligations with key %s)  %s' % (v['name'], n, v['key'], str(v.get('detail'))[:1500]))
        if unknown_viol:
            return 1
        if self.inconclusive:
            print('INCONCLUSIVE property=%s' % self.prop_id)
            for r in self.inconclusive[:10]:
                print('  reason: ' + str(r)[:400])
            return 2
        print('OK property=%s tier=%s obligations=%d/%d witnesses=%d solver=%.1fs wall=%.1fs' % (
            self.prop_id, self.tier, n_proved, n_ob, n_wit, self.solver_s, time.time() - self.t0))
        return 0


def _worker_body(fn, sub, a):
    try:
        fn(sub, *a)
    except Exception as e:   # noqa
        sub.inconclusive.append('%s: %s' % (type(e).__name__, str(e)[:600]))
        sub.extra.setdefault('exception_tails', []).append(traceback.format_exc().strip().split('\n')[-6:])
        if os.environ.get('VERIF_DEBUG'):
            traceback.print_exc()


def _worker(fn, prop_id, tier, seed, timeout_ms, a):
    sub = Ctx(prop_id, tier, seed)
    sub.timeout_ms = timeout_ms
    _worker_body(fn, sub, a)
    return sub.export()


def summarize_obligations(obs):
    """all non-proved obligations, plus per-group counts and the first few proved ones of each group"""
    if len(obs) <= 300:
        return [{k: v for k, v in o.items() if k != 'model'} for o in obs]
    out = [{k: v for k, v in o.items() if k != 'model'} for o in obs if o.get('status') != 'proved'][:200]
    groups = {}
    for o in obs:
        g = groups.setdefault(o.get('group', '?'), {'group': o.get('group', '?'), 'count': 0, 'proved': 0, 'examples': []})
        g['count'] += 1
        if o.get('status') == 'proved':
            g['proved'] += 1
            if len(g['examples']) < 2:
                g['examples'].append(o['name'])
    return out + [{'name': 'group:' + g['group'], 'status': 'summary', **g} for g in groups.values()]


def safe(s):
    return ''.join(c if c.isalnum() or c in '-_.' else '_' for c in s)[:80]


def model_to_dict(m):
    out = {}
    try:
        for d in m.decls():
            out[d.name()] = str(m[d])
    except Exception:   # noqa
        pass
    return out


def load_known():
    if not os.path.exists(KNOWN):
        return []
    return json.load(open(KNOWN)).get('findings', [])


def match_known(known, prop, key):
    for k in known:
        if k.get('property') == prop and k.get('status') == 'open' and k.get('key') == key:
            return k
    return None


def mval(model, term, default=0):
    """integer value of a z3 term in a model (model completion on)"""
    v = model.eval(term, model_completion=True)
    try:
        return v.as_long()
    except Exception:   # noqa
        return z3.is_true(v) if z3.is_bool(v) else default


def main(prop_modules):
    import argparse
    ap = argparse.ArgumentParser()
    ap.add_argument('prop')
    ap.add_argument('--tier', default=os.environ.get('VERIF_TIER', 'quick'))
    ap.add_argument('--replay')
    a = ap.parse_args()
    seed = int(os.environ.get('VERIF_SEED', '0') or 0)
    os.environ['VERIF_TIER'] = a.tier
    mod = prop_modules(a.prop)
    if a.replay:
        sys.exit(mod.replay_file(a.replay))
    ctx = Ctx(a.prop, a.tier, seed)
    try:
        mod.run(ctx)
    except Exception as e:   # noqa  -- anything unexpected is inconclusive, never a pass
        ctx.inconclusive.append('%s: %s' % (type(e).__name__, str(e)[:600]))
        if os.environ.get('VERIF_DEBUG'):
            traceback.print_exc()
        else:
            tb = traceback.format_exc().strip().split('\n')
            ctx.notes.append(tb[-6:])
            ctx.extra['exception_tail'] = tb[-8:]
    sys.exit(ctx.finish())
