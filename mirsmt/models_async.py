"""Futures: a universal `Future::poll` dispatcher over crate coroutines, tokio select's PollFn, channel / oneshot receive
futures, transparent wrappers (CatchUnwind, MapErr, Instrumented, Pin<Box<..>>), opaque user futures, timers and spawn.

User callbacks (`<TActor as Actor>::pre_start` ...) return *opaque futures*; polling one yields, non-deterministically and
within the poll budget, Pending / Ready(Ok) / Ready(Err) / a panic (unwind). Everything observable about scheduling is
recorded in State.trace as ('CB', event, name) entries for the oracles.
"""
import re
import z3

import objects
from values import *
from exec import Outcome, Unmodelled, Inconclusive
from models_std import branch, deref_val, ok, err, some, NONE, panic, ready, PENDING
from models_sync import obj_at


def unpin(I, st, p):
    """Pin<&mut T> / Pin<Box<T>> / &mut T -> (cell, path) of T"""
    v = p
    for _ in range(8):
        if isinstance(v, Agg) and v.ty == 'Pin':
            v = v.fields[0]
            continue
        if isinstance(v, Ref):
            return v.cell, v.path
        if isinstance(v, BoxV):
            return v.cell, ()
        break
    raise Unmodelled('cannot unpin %r' % (p,))


def install(I, poll_budget=1):
    M = I.model
    I.poll_budget = poll_budget

    @M(r'(^|::)poll_budget_available$', 'tokio coop budget: always available')
    def m_budget(I, st, f, args, fr):
        return I.ret(st, ready(UNIT))

    @M(r'(^|::)thread_rng_n$', 'tokio select fairness RNG: any value below n')
    def m_rng(I, st, f, args, fr):
        n = args[0]
        v = I.fresh_int('rng', 'u32', st)
        st.assume(z3.ULT(v.t, n.t))
        st.emit('RNG', v)
        return I.ret(st, v)

    @M(r'^std::future::poll_fn(::<.*>)?$|(^|::)poll_fn(::<.*>)?$', 'future::poll_fn')
    def m_poll_fn(I, st, f, args, fr):
        return I.ret(st, Agg('PollFn', (args[0],)))

    @M(r'^(futures::)?FutureExt::catch_unwind(::<.*>)?$|^<.* as (futures::)?FutureExt>::catch_unwind$', 'FutureExt::catch_unwind')
    def m_catch_unwind(I, st, f, args, fr):
        inner = args[0]
        if isinstance(inner, Agg) and inner.ty == 'AssertUnwindSafe':
            inner = inner.fields[0]
        return I.ret(st, Agg('CatchUnwind', (inner,)))

    @M(r'^(futures::)?TryFutureExt::map_err(::<.*>)?$|^<.* as (futures::)?TryFutureExt>::map_err(::<.*>)?$', 'TryFutureExt::map_err')
    def m_map_err(I, st, f, args, fr):
        return I.ret(st, Agg('MapErrFut', (args[0], args[1])))

    @M(r'^<.* as (tracing::)?Instrument>::(instrument|in_current_span)$', 'tracing::Instrument (transparent)')
    def m_instrument(I, st, f, args, fr):
        return I.ret(st, args[0])

    @M(r'^std::panic::catch_unwind(::<.*>)?$|(^|::)catch_unwind::<', 'std::panic::catch_unwind')
    def m_std_catch_unwind(I, st, f, args, fr):
        clo = args[0]
        if isinstance(clo, Agg) and clo.ty == 'AssertUnwindSafe':
            clo = clo.fields[0]
        outs = []
        for o in I.call_callable(st, clo, [], fr):
            if o.kind == 'ret':
                outs.append(Outcome(o.st, 'ret', ok(o.val)))
            elif o.kind == 'unwind':
                o.st.emit('CAUGHT', 'std::panic::catch_unwind')
                outs.append(Outcome(o.st, 'ret', err(o.val if o.val is not None else Opaque('panic-payload'))))
            else:
                outs.append(o)
        return outs

    # ------------------------------------------------------------------ receive futures
    @M(r'UnboundedReceiver::<.*>::recv$', 'mpsc::UnboundedReceiver::recv (future)')
    def m_recv(I, st, f, args, fr):
        return I.ret(st, Agg('RecvFut', (args[0],)))

    def chan_value(I, st, o, idterm):
        h = I.hooks.get('chan_value')
        if h:
            return h(I, st, o, idterm)
        return [(st, Opaque('received', info=idterm))]

    def poll_recv(I, st, futv, fr):
        rx = futv.fields[0]
        o = obj_at(I, st, rx)
        name = I.objinfo.get(o.oid, {}).get('name', str(o.oid))
        res = I.shared_op(st, o, 'try_recv', objects.chan_recv(), {'has': 'bool', 'val': objects.ID_BITS, 'closed': 'bool'}, label='%s.recv' % name)
        outs = []
        for s2, has in branch(I, st, res['has']):
            if has:
                s2.emit('RECV', o.oid, res['val'])
                for s3, v in chan_value(I, s2, o, res['val']):
                    outs.append(Outcome(s3, 'ret', ready(some(v))))
            else:
                for s3, closed in branch(I, s2, res['closed']):
                    outs.append(Outcome(s3, 'ret', ready(NONE) if closed else PENDING))
        return outs

    def poll_oneshot(I, st, o, fr):
        """tokio oneshot::Receiver as a future: Ready(Ok(v)) once; Ready(Err) if the sender is gone; polling again after it completed panics
        ("called after complete")"""
        cur = st.objs.get(o.oid) if not I.event_mode or o.oid in st.objs else None
        outs = []
        if cur is not None:
            taken = z3.UGE(cur['st'], 2)
            br = branch(I, st, taken)
        else:
            br = [(st, False)]
        for s1, is_taken in br:
            if is_taken:
                outs.extend(panic(I, s1, 'oneshot receiver polled after completion'))
                continue
            res = I.shared_op(s1, o, 'poll', objects.oneshot_poll(), {'ready_val': 'bool', 'ready_closed': 'bool', 'val': objects.ID_BITS}, label='%s.poll' % o.oid)
            for s2, has in branch(I, s1, res['ready_val']):
                if has:
                    s2.emit('RECV', o.oid, res['val'])
                    for s3, v in chan_value(I, s2, o, res['val']):
                        outs.append(Outcome(s3, 'ret', ready(ok(v))))
                else:
                    for s3, closed in branch(I, s2, res['ready_closed']):
                        if closed:
                            # the Err completion also completes the future
                            ob = dict(s3.objs[o.oid]) if o.oid in s3.objs else None
                            if ob is not None:
                                ob['st'] = z3.BitVecVal(2, 2)
                                s3.objs[o.oid] = ob
                        outs.append(Outcome(s3, 'ret', ready(err(Agg('RecvError', ()))) if closed else PENDING))
        return outs
    I.poll_oneshot = poll_oneshot

    @M(r'UnboundedReceiver::<.*>::close$', 'mpsc::UnboundedReceiver::close')
    def m_rx_close(I, st, f, args, fr):
        o = obj_at(I, st, args[0])
        name = I.objinfo.get(o.oid, {}).get('name', str(o.oid))
        I.shared_op(st, o, 'close', objects.chan_close(), {}, label='%s.close' % name)
        return I.ret(st, UNIT)

    @M(r'UnboundedReceiver::<.*>::try_recv$', 'mpsc::UnboundedReceiver::try_recv')
    def m_rx_try_recv(I, st, f, args, fr):
        o = obj_at(I, st, args[0])
        name = I.objinfo.get(o.oid, {}).get('name', str(o.oid))
        h = I.hooks.get('late_arrival')
        if h:
            h(I, st, o)     # a non-blocking read may see what another thread enqueued since the last look (sequential port models only)
        live = bool(h) and o.oid in st.objs and z3.is_false(z3.simplify(st.objs[o.oid]['closed']))
        res = I.shared_op(st, o, 'try_recv', objects.chan_recv(), {'has': 'bool', 'val': objects.ID_BITS, 'closed': 'bool'}, label='%s.try_recv' % name)
        outs = []
        for s2, has in branch(I, st, res['has']):
            if has and live:
                # a read of a port that is still open: the item is a real input (same materialisation as a receive), not a flushed left-over
                s2.emit('RECV', o.oid, res['val'])
                for s3, v in chan_value(I, s2, o, res['val']):
                    outs.append(Outcome(s3, 'ret', ok(v)))
            elif has:
                s2.emit('FLUSHED', o.oid, res['val'])
                outs.append(Outcome(s2, 'ret', ok(Opaque('received', info=res['val']))))
            else:
                outs.append(Outcome(s2, 'ret', err(Enum('TryRecvError', 'Empty', 0, ()))))
        return outs

    @M(r'oneshot::Receiver::<.*>::is_terminated$', 'oneshot::Receiver::is_terminated (already yielded Ready)')
    def m_os_is_terminated(I, st, f, args, fr):
        o = obj_at(I, st, args[0])
        cur = st.objs.get(o.oid)
        if cur is None:
            raise Unmodelled('is_terminated on a shared (event-mode) oneshot')
        return I.ret(st, z3.simplify(z3.UGE(cur['st'], 2)))

    @M(r'oneshot::Receiver::<.*>::close$', 'oneshot::Receiver::close')
    def m_os_close(I, st, f, args, fr):
        o = obj_at(I, st, args[0])
        I.shared_op(st, o, 'close', objects.oneshot_close(), {}, label='%s.close' % o.oid)
        return I.ret(st, UNIT)

    @M(r'oneshot::Receiver::<.*>::try_recv$', 'oneshot::Receiver::try_recv')
    def m_os_try_recv(I, st, f, args, fr):
        o = obj_at(I, st, args[0])
        h = I.hooks.get('late_arrival')
        if h:
            h(I, st, o)
        live = bool(h) and o.oid in st.objs and z3.is_false(z3.simplify(st.objs[o.oid]['rxclosed']))
        res = I.shared_op(st, o, 'poll', objects.oneshot_poll(), {'ready_val': 'bool', 'ready_closed': 'bool', 'val': objects.ID_BITS}, label='%s.try_recv' % o.oid)
        outs = []
        for s2, has in branch(I, st, res['ready_val']):
            if has and live:
                s2.emit('RECV', o.oid, res['val'])
                for s3, v in chan_value(I, s2, o, res['val']):
                    outs.append(Outcome(s3, 'ret', ok(v)))
                continue
            if has:
                s2.emit('FLUSHED', o.oid, res['val'])
            outs.append(Outcome(s2, 'ret', ok(Opaque('received', info=res['val'])) if has else err(Enum('TryRecvError', 'Empty', 0, ()))))
        return outs

    # ------------------------------------------------------------------ user futures
    def poll_user(I, st, fut, cell, path, fr):
        name = fut.info['name']
        uid = fut.ident
        key = ('userfut', uid)
        stt = st.ghost.get(key, {'polls': 0, 'done': False})
        if stt['done']:
            raise Inconclusive('user future %s polled after completion' % name)
        if stt['polls'] == 0:
            st.emit('CB', 'start', name, uid)
        outs = []
        h = I.hooks.get('user_outcomes')
        choices = h(I, st, fut) if h else ['pending', 'ok', 'err', 'panic']
        if stt['polls'] >= I.poll_budget and 'pending' in choices:
            choices = [c for c in choices if c != 'pending']
        for i, ch in enumerate(choices):
            s2 = st.fork() if i < len(choices) - 1 else st
            s2.ghost[key] = {'polls': stt['polls'] + 1, 'done': ch != 'pending'}
            s2.emit('CB', 'poll', name, uid, ch)
            if ch == 'pending':
                outs.append(Outcome(s2, 'ret', PENDING))
            elif ch == 'ok':
                s2.emit('CB', 'end', name, uid, 'ok')
                mk = fut.info.get('ok_value')
                outs.append(Outcome(s2, 'ret', ready(ok(mk(I, s2) if mk else UNIT))))
            elif ch == 'err':
                s2.emit('CB', 'end', name, uid, 'err')
                outs.append(Outcome(s2, 'ret', ready(err(Opaque('user-error', ident=('user-error', name, uid))))))
            elif ch == 'panic':
                s2.emit('CB', 'end', name, uid, 'panic')
                s2.ghost['panic_payload'] = Opaque('user-panic', ident=('user-panic', name, uid))
                outs.append(Outcome(s2, 'unwind', s2.ghost['panic_payload']))
            else:
                raise Unmodelled('user outcome ' + ch)
        return outs

    def user_future(name, ok_value=None, extra=None):
        info = {'name': name, 'ok_value': ok_value}
        info.update(extra or {})
        return Opaque('userfut', info=info)
    I.user_future = user_future

    def drop_userfut(I, st, v, ref):
        key = ('userfut', v.ident)
        stt = st.ghost.get(key, {'polls': 0, 'done': False})
        if stt['polls'] > 0 and not stt['done']:
            st.emit('CB', 'cancelled', v.info['name'], v.ident)
            st.ghost[key] = {'polls': stt['polls'], 'done': True}
        return None

    prev_drop = I.hooks.get('drop')

    def drop_hook(I, st, v, ref):
        if isinstance(v, Opaque) and v.tag == 'userfut':
            drop_userfut(I, st, v, ref)
            return [Outcome(st, 'ret', UNIT)]
        if isinstance(v, Coro):
            return drop_coro(I, st, v, ref)
        if isinstance(v, BoxV):
            inner = I.read(st, v.cell, ())
            return I.drop_value(st, inner, Ref(v.cell, (), True))
        if prev_drop:
            return prev_drop(I, st, v, ref)
        return None
    I.hooks['drop'] = drop_hook

    def drop_coro(I, st, co, ref):
        """dropping a suspended coroutine drops what it holds; the precise per-state drop shims are used when a drop-shim table is
        installed (I.coro_drop_shims), otherwise the saved locals and upvars are dropped generically"""
        outs = [Outcome(st, 'ret', UNIT)]
        if co.state in (1, 2):
            return outs           # returned / poisoned: nothing left to drop
        st.emit('CORO_DROP', co.defname, co.state)
        items = []
        if co.state == 0:
            items = [('up', i) for i in range(len(co.upvars))]
        else:
            items = [('saved', k) for k in sorted(co.saved, key=str) if k[0] == 'variant#%d' % co.state] + [('up', i) for i in range(len(co.upvars))]
        cur = outs
        for kind, k in items:
            nxt = []
            for o in cur:
                if o.kind != 'ret':
                    nxt.append(o)
                    continue
                cv = I.read(o.st, ref.cell, ref.path)
                if not isinstance(cv, Coro):
                    nxt.append(o)
                    continue
                val = cv.upvars[k] if kind == 'up' else cv.saved.get(k, UNINIT)
                if isinstance(val, (Uninit, Sc, z3.ExprRef, Ref, Str)):
                    nxt.append(o)
                    continue
                c = o.st.alloc(val)
                nxt.extend(I.drop_value(o.st, val, Ref(c, (), True)))
            cur = nxt
        return cur

    # ------------------------------------------------------------------ the dispatcher
    @M(r'^<.* as (futures::|std::future::|core::future::)?Future>::poll$', 'Future::poll dispatcher')
    def m_poll(I, st, f, args, fr):
        cell, path = unpin(I, st, args[0])
        return poll_at(I, st, cell, path, args[1], fr, f)

    @M(r'^tokio::task::yield_now$|(^|::)task::yield_now$', 'tokio::task::yield_now (Pending once, then Ready)')
    def m_yield_now(I, st, f, args, fr):
        return I.ret(st, Agg('YieldNow', (fresh_id(),)))

    @M(r'FutureExt>::now_or_never$|(^|::)FutureExt::now_or_never(::<.*>)?$', 'FutureExt::now_or_never (one poll with a no-op waker)')
    def m_now_or_never(I, st, f, args, fr):
        v = args[0]
        if isinstance(v, Ref) or (isinstance(v, Agg) and v.ty == 'Pin'):
            cell, path = unpin(I, st, v)
        else:
            cell, path = st.alloc(v), ()      # taken by value: polled once, then dropped with the call (not followed: a Pending future by value is outside)
        outs = []
        for o in poll_at(I, st, cell, path, Opaque('noop-context'), fr, f):
            if o.kind != 'ret':
                outs.append(o)
            elif isinstance(o.val, Enum) and o.val.variant == 'Ready':
                outs.append(Outcome(o.st, 'ret', some(o.val.fields[0])))
            else:
                outs.append(Outcome(o.st, 'ret', NONE))
        return outs

    def poll_at(I, st, cell, path, cx, fr, f=''):
        v = I.read(st, cell, path)
        # &mut oneshot::Receiver as a future / Pin<Box<F>> / &mut F
        for _ in range(6):
            if isinstance(v, Ref):
                cell, path = v.cell, v.path
                v = I.read(st, cell, path)
            elif isinstance(v, BoxV):
                cell, path = v.cell, ()
                v = I.read(st, cell, path)
            elif isinstance(v, Agg) and v.ty == 'Pin':
                v = v.fields[0]
            else:
                break
        if isinstance(v, Coro):
            body = I.prog.bodies.get(v.defname)
            if body is None:
                raise Unmodelled('resume function not found for ' + v.defname)
            I.stats['calls_inlined'].add(body.name)
            return I.run_body(st, body, [Agg('Pin', (Ref(cell, path, True),)), cx])
        if isinstance(v, Agg) and v.ty == 'PollFn':
            return I.call_callable(st, Ref(cell, path + (0,), True), [cx], fr)
        if isinstance(v, Agg) and v.ty == 'RecvFut':
            return poll_recv(I, st, v, fr)
        if isinstance(v, Obj) and v.kind == 'oneshot':
            return poll_oneshot(I, st, v, fr)
        if isinstance(v, Opaque) and v.tag == 'userfut':
            return poll_user(I, st, v, cell, path, fr)
        if isinstance(v, Agg) and v.ty == 'CatchUnwind':
            outs = []
            for o in poll_at(I, st, cell, path + (0,), cx, fr):
                if o.kind == 'unwind':
                    o.st.emit('CAUGHT', 'CatchUnwind')
                    outs.append(Outcome(o.st, 'ret', ready(err(o.val if o.val is not None else Opaque('panic-payload')))))
                elif o.kind == 'ret' and o.val.variant == 'Ready':
                    outs.append(Outcome(o.st, 'ret', ready(ok(o.val.fields[0]))))
                else:
                    outs.append(o)
            return outs
        if isinstance(v, Agg) and v.ty == 'MapErrFut':
            outs = []
            for o in poll_at(I, st, cell, path + (0,), cx, fr):
                if o.kind == 'ret' and o.val.variant == 'Ready' and o.val.fields[0].variant == 'Err':
                    clo = I.read(o.st, cell, path + (1,))
                    for o2 in I.call_callable(o.st, clo, [o.val.fields[0].fields[0]], fr):
                        outs.append(Outcome(o2.st, o2.kind, ready(err(o2.val)) if o2.kind == 'ret' else o2.val))
                else:
                    outs.append(o)
            return outs
        if isinstance(v, Agg) and v.ty == 'YieldNow':
            # tokio::task::yield_now: Pending once (the task goes to the back of the run queue), then Ready
            key = ('yielded', v.fields[0])
            if st.ghost.get(key):
                return [Outcome(st, 'ret', ready(UNIT))]
            st.ghost[key] = True
            st.emit('YIELD')
            return [Outcome(st, 'ret', PENDING)]
        if isinstance(v, Agg) and v.ty in ('Sleep', 'Timeout', 'JoinHandle', 'Interval'):
            h = I.hooks.get('poll_' + v.ty.lower())
            if h:
                return h(I, st, v, cell, path, cx, fr)
        h = I.hooks.get('poll_other')
        if h:
            r = h(I, st, v, cell, path, cx, fr)
            if r is not None:
                return r
        raise Unmodelled('Future::poll on %r (%s)' % (v, f[:80]))
    I.poll_at = poll_at
