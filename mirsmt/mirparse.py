"""Parser for the text produced by `rustc -Zunpretty=mir` (nightly pinned in this image).

The parser is deliberately strict: anything it does not recognise raises ParseError, which the
driver reports as *inconclusive* (exit 2) -- never as a pass.
"""
import re
from dataclasses import dataclass, field
from typing import Any, Optional


class ParseError(Exception):
    pass


# --------------------------------------------------------------------------------------
# generic helpers: bracket / string aware scanning
# --------------------------------------------------------------------------------------
OPEN = {'(': ')', '[': ']', '{': '}', '<': '>'}
CLOSE = {v: k for k, v in OPEN.items()}
_CHAR_LIT = re.compile(r"'(\\x[0-9a-fA-F]{2}|\\u\{[0-9a-fA-F]+\}|\\.|[^\\'])'")


def scan(s, i, stops, depth0=0):
    """Advance from index i until a char in `stops` is met at bracket depth 0. Returns the index of the
    stop char (or len(s)). Strings, char literals, `->` and `=>` are skipped atomically."""
    depth = depth0
    n = len(s)
    while i < n:
        c = s[i]
        if c == '"':
            i += 1
            while i < n and s[i] != '"':
                if s[i] == '\\':
                    i += 1
                i += 1
            i += 1
            continue
        if c == "'":
            m = _CHAR_LIT.match(s, i)
            if m:
                i = m.end()
                continue
            i += 1
            continue
        if c in '-=' and i + 1 < n and s[i + 1] == '>':
            if depth == 0 and '->' in stops and c == '-':
                return i
            i += 2
            continue
        if depth == 0 and c in stops:
            return i
        if c in OPEN:
            depth += 1
        elif c in CLOSE:
            depth -= 1
            if depth < 0:
                return i
        i += 1
    return n


def split_top(s, sep=','):
    out = []
    i = 0
    start = 0
    n = len(s)
    while i <= n:
        j = scan(s, i, sep)
        if j >= n:
            out.append(s[start:].strip())
            break
        if s[j] in CLOSE and s[j] not in sep:
            raise ParseError('unbalanced: ' + s)
        out.append(s[start:j].strip())
        i = j + 1
        start = i
    if out and out[-1] == '':
        out.pop()
    return out


def match_close(s, i):
    """s[i] is an opening bracket; return index of the matching close."""
    j = scan(s, i + 1, '', 0)
    # scan returns at depth<0 i.e. on the matching closer
    if j >= len(s) or s[j] != OPEN[s[i]]:
        raise ParseError('no matching close in ' + s[i:i + 80])
    return j


# --------------------------------------------------------------------------------------
# AST
# --------------------------------------------------------------------------------------
@dataclass(frozen=True)
class Place:
    local: int
    proj: tuple = ()   # elements: ('deref',) ('field', n, ty) ('downcast', name) ('index', local)
                       # ('constidx', n, fromend, minlen) ('subslice', a, b, fromend)

    def __str__(self):
        s = '_%d' % self.local
        for p in self.proj:
            if p[0] == 'deref':
                s = '(*%s)' % s
            elif p[0] == 'field':
                s = '(%s.%d)' % (s, p[1])
            elif p[0] == 'downcast':
                s = '(%s as %s)' % (s, p[1])
            elif p[0] == 'index':
                s = '%s[_%d]' % (s, p[1])
            else:
                s = '%s[%s]' % (s, p[1:])
        return s


@dataclass(frozen=True)
class Operand:
    kind: str            # 'copy' | 'move' | 'const'
    place: Optional[Place] = None
    const: Optional[str] = None


@dataclass(frozen=True)
class Rvalue:
    kind: str            # use, ref, rawptr, binop, unop, nullop, discr, cast, aggregate, array, repeat, tuple, len, shallowbox, derefcopy
    args: tuple = ()     # kind specific


@dataclass
class Stmt:
    kind: str            # assign | setdiscr | nop
    place: Optional[Place] = None
    rvalue: Optional[Rvalue] = None
    value: Any = None
    text: str = ''


@dataclass
class Term:
    kind: str            # goto switch return resume unreachable drop assert call terminate
    target: Optional[int] = None
    unwind: Any = None   # ('bb', n) | 'continue' | 'terminate' | 'unreachable' | None
    operand: Optional[Operand] = None
    arms: tuple = ()     # switch: ((value, bb), ...); otherwise in target
    place: Optional[Place] = None
    func: Any = None     # call: str path or Operand
    args: tuple = ()
    dest: Optional[Place] = None
    expected: bool = True
    msg: str = ''
    text: str = ''


@dataclass
class Block:
    idx: int
    cleanup: bool
    stmts: list
    term: Term


@dataclass
class Body:
    kind: str            # fn | const | static | promoted
    name: str
    args: list           # [(local, type)]
    ret: str
    locals: dict         # local -> type string
    blocks: dict         # idx -> Block
    debug: dict          # name -> place text
    header: str = ''
    line: int = 0
    value: Optional[str] = None   # for `const X: T = value;` one-liners


# --------------------------------------------------------------------------------------
# place / operand / rvalue
# --------------------------------------------------------------------------------------
_LOCAL = re.compile(r'_(\d+)')


def parse_place(s):
    s = s.strip()
    p, i = _place(s, 0)
    if i != len(s):
        raise ParseError('trailing text in place: %r' % s)
    return p


def _place(s, i):
    """returns (Place, next index)"""
    if s[i] == '(':
        if s[i + 1] == '*':
            inner, j = _place(s, i + 2)
            if s[j] != ')':
                raise ParseError('deref close: ' + s)
            base = Place(inner.local, inner.proj + (('deref',),))
            j += 1
        else:
            inner, j = _place(s, i + 1)
            if s[j] == '.':
                m = re.compile(r'\.(\d+): ').match(s, j)
                if not m:
                    raise ParseError('field proj: ' + s[j:j + 40])
                k = scan(s, m.end(), '')
                if k >= len(s) or s[k] != ')':
                    raise ParseError('field type close: ' + s)
                ty = s[m.end():k]
                base = Place(inner.local, inner.proj + (('field', int(m.group(1)), ty),))
                j = k + 1
            elif s.startswith(' as ', j):
                k = scan(s, j + 4, '')
                if k >= len(s) or s[k] != ')':
                    raise ParseError('downcast close: ' + s)
                base = Place(inner.local, inner.proj + (('downcast', s[j + 4:k]),))
                j = k + 1
            else:
                raise ParseError('place paren: ' + s[i:i + 60])
    else:
        m = _LOCAL.match(s, i)
        if not m:
            raise ParseError('place: %r at %d' % (s, i))
        base = Place(int(m.group(1)))
        j = m.end()
    # index suffixes
    while j < len(s) and s[j] == '[':
        k = match_close(s, j)
        inner = s[j + 1:k]
        m = re.fullmatch(r'_(\d+)', inner)
        if m:
            base = Place(base.local, base.proj + (('index', int(m.group(1))),))
        else:
            m = re.fullmatch(r'(-?)(\d+) of (\d+)', inner)
            if m:
                base = Place(base.local, base.proj + (('constidx', int(m.group(2)), m.group(1) == '-', int(m.group(3))),))
            else:
                m = re.fullmatch(r'(\d+)(\.\.|:)(-?)(\d*)', inner)
                if not m:
                    raise ParseError('index proj: ' + inner)
                base = Place(base.local, base.proj + (('subslice', int(m.group(1)), m.group(4), m.group(3) == '-'),))
        j = k + 1
    return base, j


def parse_operand(s):
    s = s.strip()
    if s.startswith('no_retag '):
        s = s[9:]
    if s.startswith('copy '):
        return Operand('copy', parse_place(s[5:]))
    if s.startswith('move '):
        return Operand('move', parse_place(s[5:]))
    if s.startswith('const '):
        return Operand('const', None, s[6:].strip())
    if re.match(r'^[<A-Za-z_]', s) and not s.startswith(('discriminant(', '&')):
        # a function item used as a value (ZST), printed bare by rustc
        return Operand('const', None, 'fnitem ' + s)
    raise ParseError('operand: %r' % s)


BINOPS = {'Add', 'Sub', 'Mul', 'Div', 'Rem', 'BitXor', 'BitAnd', 'BitOr', 'Shl', 'Shr', 'Eq', 'Lt', 'Le', 'Ne', 'Ge', 'Gt',
          'Cmp', 'Offset', 'AddWithOverflow', 'SubWithOverflow', 'MulWithOverflow', 'AddUnchecked', 'SubUnchecked',
          'MulUnchecked', 'ShlUnchecked', 'ShrUnchecked'}
UNOPS = {'Not', 'Neg', 'PtrMetadata'}
NULLOPS = {'SizeOf', 'AlignOf', 'OffsetOf', 'UbChecks', 'ContractChecks', 'OverflowChecks'}
_CALLISH = re.compile(r'([A-Za-z]+)\(')


def parse_rvalue(s):
    s = s.strip()
    if s.startswith('no_retag '):
        s = s[9:]
    if s.startswith(('copy ', 'move ', 'const ')):
        # possibly a cast:  <operand> as <type> (<kind>)
        i = scan(s, 0, '', 0)
        # find " as " at top level
        k = _find_top(s, ' as ')
        if k >= 0 and s.endswith(')'):
            op_txt = s[:k]
            rest = s[k + 4:]
            # rest = TYPE (Kind...)
            j = rest.rfind(' (')
            # the cast kind is the last balanced paren group
            depth = 0
            idx = len(rest) - 1
            while idx >= 0:
                if rest[idx] == ')':
                    depth += 1
                elif rest[idx] == '(':
                    depth -= 1
                    if depth == 0:
                        break
                idx -= 1
            ty = rest[:idx].strip()
            kind = rest[idx + 1:-1]
            try:
                return Rvalue('cast', (parse_operand(op_txt), ty, kind))
            except ParseError:
                pass
        return Rvalue('use', (parse_operand(s),))
    if s.startswith('&/*tls*/ '):
        return Rvalue('tlsref', (s[9:],))
    if s.startswith('&raw const '):
        return Rvalue('rawptr', (parse_place(s[11:]), False))
    if s.startswith('&raw mut '):
        return Rvalue('rawptr', (parse_place(s[9:]), True))
    if s.startswith('&mut '):
        return Rvalue('ref', (parse_place(s[5:]), True))
    if s.startswith('&fake '):
        raise ParseError('fake borrow')
    if s.startswith('&'):
        return Rvalue('ref', (parse_place(s[1:]), False))
    if s.startswith('discriminant('):
        return Rvalue('discr', (parse_place(s[13:-1]),))
    if s.startswith('deref_copy '):
        return Rvalue('use', (Operand('copy', parse_place(s[11:])),))
    if s.startswith('Len('):
        return Rvalue('len', (parse_place(s[4:-1]),))
    if s.startswith('ShallowInitBox('):
        parts = split_top(s[15:-1])
        return Rvalue('shallowbox', (parse_operand(parts[0]), parts[1]))
    m = _CALLISH.match(s)
    if m and s.endswith(')'):
        name = m.group(1)
        if name in BINOPS:
            a, b = split_top(s[m.end():-1])
            return Rvalue('binop', (name, parse_operand(a), parse_operand(b)))
        if name in UNOPS:
            return Rvalue('unop', (name, parse_operand(s[m.end():-1])))
        if name in NULLOPS:
            return Rvalue('nullop', (name, s[m.end():-1]))
    if s.startswith('['):
        k = match_close(s, 0)
        if k != len(s) - 1:
            raise ParseError('array rvalue: ' + s)
        inner = s[1:k]
        semi = scan(inner, 0, ';')
        if semi < len(inner):
            return Rvalue('repeat', (parse_operand(inner[:semi]), inner[semi + 1:].strip()))
        return Rvalue('array', tuple(parse_operand(x) for x in split_top(inner)))
    if s.startswith('('):
        k = match_close(s, 0)
        if k == len(s) - 1:
            return Rvalue('tuple', tuple(parse_operand(x) for x in split_top(s[1:k])))
    # aggregate:  PATH { f: op, .. }  |  PATH(op, ..)  |  PATH
    # find the end of the path (top-level ' {' or '(' that closes at the end of the string)
    if s.endswith('}') and not s.startswith('{') or (s.startswith('{') and s.endswith('}') and scan(s, 1, '') < len(s) - 1):
        # the last top-level '{'
        j = _last_top_open(s, '{')
        if j > 0:
            path = s[:j].strip()
            inner = s[j + 1:-1].strip()
            fields = []
            for part in split_top(inner):
                c = scan(part, 0, ':')
                if c >= len(part):
                    raise ParseError('aggregate field: ' + part)
                fields.append((part[:c].strip(), parse_operand(part[c + 1:])))
            return Rvalue('aggregate', (path, 'named', tuple(fields)))
    if s.endswith(')'):
        j = _last_top_open(s, '(')
        if j > 0 and not s[:j].endswith(' '):
            path = s[:j]
            try:
                ops = tuple(parse_operand(x) for x in split_top(s[j + 1:-1]))
                return Rvalue('aggregate', (path, 'tuple', ops))
            except ParseError:
                pass
    # unit aggregate / unit variant / closure with no captures
    if scan(s, 0, ' ') >= len(s) or s.startswith('{') or re.match(r'^[\w:<>\', &\[\]\(\)\{\}@/.\-#=+*!;]+$', s):
        return Rvalue('aggregate', (s, 'unit', ()))
    raise ParseError('rvalue: %r' % s)


def _find_top(s, needle):
    i = 0
    n = len(s)
    while i < n:
        j = scan(s, i, needle[0])
        if j >= n:
            return -1
        if s.startswith(needle, j):
            return j
        if s[j] in CLOSE:
            return -1
        i = j + 1
    return -1


def _last_top_open(s, ch):
    """index of the opening bracket `ch` whose matching close is the last character of s"""
    depth = 0
    i = len(s) - 1
    # walk backwards, naive but string-free contexts only (aggregates of operands)
    # do it forwards instead to be string safe
    i = 0
    n = len(s)
    last = -1
    while i < n:
        j = scan(s, i, ch)
        if j >= n:
            break
        if s[j] == ch:
            try:
                k = match_close(s, j)
            except ParseError:
                break
            if k == n - 1:
                return j
            i = k + 1
        else:
            break
    return last


# --------------------------------------------------------------------------------------
# statements / terminators
# --------------------------------------------------------------------------------------
_TERM_TAIL = re.compile(r' -> (\[return: bb(\d+), unwind(: bb(\d+)| continue| terminate\([a-z]+\)| unreachable)\]|unwind (continue|terminate\([a-z]+\)|unreachable)|unwind: bb(\d+)|bb(\d+));$')
_ASSERT_TAIL = re.compile(r' -> \[success: bb(\d+), unwind(: bb(\d+)| continue| terminate\([a-z]+\)| unreachable)\];$')
_SWITCH_TAIL = re.compile(r' -> \[(.*)\];$')


def _unwind(txt, bbnum):
    if bbnum is not None:
        return ('bb', int(bbnum))
    t = txt.strip()
    if t.startswith('continue'):
        return 'continue'
    if t.startswith('terminate'):
        return 'terminate'
    if t.startswith('unreachable'):
        return 'unreachable'
    raise ParseError('unwind: ' + txt)


def parse_line(line):
    """returns ('stmt', Stmt) or ('term', Term)"""
    s = line.strip()
    if s in ('return;',):
        return 'term', Term('return', text=s)
    if s == 'resume;':
        return 'term', Term('resume', text=s)
    if s == 'unreachable;':
        return 'term', Term('unreachable', text=s)
    if s.startswith('terminate('):
        return 'term', Term('terminate', text=s)
    if s.startswith('goto -> bb'):
        return 'term', Term('goto', target=int(s[10:-1]), text=s)
    if s.startswith(('StorageLive(', 'StorageDead(', 'ConstEvalCounter', 'nop', 'Retag(', 'PlaceMention(', 'FakeRead(', 'AscribeUserType(', 'Coverage::', 'BackwardIncompatibleDropHint(')):
        return 'stmt', Stmt('nop', text=s)
    if s.startswith('Deinit('):
        return 'stmt', Stmt('nop', text=s)
    if s.startswith('switchInt('):
        k = match_close(s, 9)
        op = parse_operand(s[10:k])
        m = _SWITCH_TAIL.match(s, k + 1)
        if not m:
            raise ParseError('switch tail: ' + s)
        arms = []
        other = None
        for part in split_top(m.group(1)):
            v, b = part.split(': bb')
            if v == 'otherwise':
                other = int(b)
            else:
                arms.append((int(v), int(b)))
        return 'term', Term('switch', operand=op, arms=tuple(arms), target=other, text=s)
    if s.startswith('drop('):
        k = match_close(s, 4)
        pl = parse_place(s[5:k])
        m = _TERM_TAIL.match(s, k + 1)
        if not m:
            raise ParseError('drop tail: ' + s)
        if m.group(2) is not None:
            return 'term', Term('drop', place=pl, target=int(m.group(2)), unwind=_unwind(m.group(3), m.group(4)), text=s)
        if m.group(7) is not None:
            return 'term', Term('drop', place=pl, target=int(m.group(7)), unwind=None, text=s)
        raise ParseError('drop tail2: ' + s)
    if s.startswith('assert('):
        k = match_close(s, 6)
        parts = split_top(s[7:k])
        cond = parts[0]
        expected = True
        if cond.startswith('!'):
            expected = False
            cond = cond[1:]
        m = _ASSERT_TAIL.match(s, k + 1)
        if not m:
            raise ParseError('assert tail: ' + s)
        return 'term', Term('assert', operand=parse_operand(cond), expected=expected, msg=parts[1] if len(parts) > 1 else '',
                            target=int(m.group(1)), unwind=_unwind(m.group(2), m.group(3)), text=s)
    if s.startswith('discriminant('):
        k = match_close(s, 12)
        rest = s[k + 1:]
        m = re.fullmatch(r' = (\d+);', rest)
        if m:
            return 'stmt', Stmt('setdiscr', place=parse_place(s[13:k]), value=int(m.group(1)), text=s)
    # assignment or call
    eq = _find_top(s, ' = ')
    m = _TERM_TAIL.search(s)
    if m and s.endswith(m.group(0)):
        body = s[:m.start()]
        # call terminator (with or without destination)
        if m.group(2) is not None:
            target, unwind = int(m.group(2)), _unwind(m.group(3), m.group(4))
        elif m.group(5) is not None:
            target, unwind = None, _unwind(m.group(5), None)
        elif m.group(6) is not None:
            target, unwind = None, ('bb', int(m.group(6)))
        else:
            target, unwind = int(m.group(7)), None
        if eq < 0:
            raise ParseError('call without dest: ' + s)
        dest = parse_place(body[:eq])
        call = body[eq + 3:]
        if not call.endswith(')'):
            raise ParseError('call form: ' + s)
        j = _last_top_open(call, '(')
        if j < 0:
            raise ParseError('call args: ' + s)
        ftxt = call[:j]
        if ftxt.startswith(('move ', 'copy ')):
            func = parse_operand(ftxt)
        else:
            func = ftxt
        args = tuple(parse_operand(x) for x in split_top(call[j + 1:-1]))
        return 'term', Term('call', func=func, args=args, dest=dest, target=target, unwind=unwind, text=s)
    if eq < 0 or not s.endswith(';'):
        raise ParseError('statement: %r' % s)
    return 'stmt', Stmt('assign', place=parse_place(s[:eq]), rvalue=parse_rvalue(s[eq + 3:-1]), text=s)


# --------------------------------------------------------------------------------------
# file level
# --------------------------------------------------------------------------------------
ALLOC_STATICS = {}
_ITEM = re.compile(r'^(fn |const |static (mut )?|promoted\[\d+\] in )')
_BB = re.compile(r'^    bb(\d+)( \(cleanup\))?: \{$')
_LET = re.compile(r'^\s+let (mut )?_(\d+): (.*);$')
_DEBUG = re.compile(r'^\s+debug (\S+) => (.*);$')


def parse_file(path):
    """returns dict name -> Body (names made unique by appending #k for duplicates), plus list of errors"""
    bodies = {}
    errors = []
    with open(path, encoding='utf-8', errors='replace') as f:
        lines = f.read().split('\n')
    global ALLOC_STATICS
    for ln in lines:
        if ln.startswith('alloc'):
            m = re.match(r'^(alloc\d+) \(static: (.*?)(, size: \d+, align: \d+)?\)', ln)
            if m:
                ALLOC_STATICS[m.group(1)] = m.group(2)
    i = 0
    n = len(lines)
    while i < n:
        line = lines[i]
        if _ITEM.match(line) and (line.endswith('{') or line.endswith(';')):
            start = i
            if line.endswith(';'):
                # one-line const:  const X: T = value;
                try:
                    b = _parse_header(line, one_line=True)
                    b.line = start + 1
                    _add(bodies, b)
                except ParseError as e:
                    errors.append((start + 1, str(e)))
                i += 1
                continue
            j = i + 1
            while j < n and lines[j] != '}':
                j += 1
            try:
                b = _parse_item(lines[start:j + 1])
                b.line = start + 1
                _add(bodies, b)
            except ParseError as e:
                errors.append((start + 1, str(e)))
            i = j + 1
        else:
            i += 1
    return bodies, errors


def _add(bodies, b):
    name = b.name
    k = 1
    while name in bodies:
        k += 1
        name = '%s~%d' % (b.name, k)
    b.name = name
    bodies[name] = b


def _parse_header(line, one_line=False):
    if line.startswith('fn '):
        rest = line[3:]
        # name up to the top-level '(' that starts the arg list: scan for '(' at depth 0, but names contain
        # '<impl at ...>' and '{closure#0}' -- brackets are balanced there.
        j = scan(rest, 0, '(')
        name = rest[:j]
        k = match_close(rest, j)
        args = []
        for a in split_top(rest[j + 1:k]):
            m = re.match(r'_(\d+): (.*)$', a)
            if not m:
                raise ParseError('fn arg: ' + a)
            args.append((int(m.group(1)), m.group(2)))
        tail = rest[k + 1:]
        m = re.match(r' -> (.*) \{$', tail)
        if not m:
            raise ParseError('fn ret: ' + tail)
        return Body('fn', name.strip(), args, m.group(1), {}, {}, {}, header=line)
    m = re.match(r'^(const|static|static mut) (.*)$', line)
    if m:
        rest = m.group(2)
        c = scan(rest, 0, ':')
        # names like foo::{constant#0} contain no top-level ':' except '::' -> handle '::'
        while c < len(rest) and rest.startswith('::', c):
            c = scan(rest, c + 2, ':')
        while c < len(rest) and rest[c - 1] == ':':
            c = scan(rest, c + 1, ':')
        name = rest[:c]
        after = rest[c + 1:]
        if one_line:
            e = _find_top(after, ' = ')
            return Body('const', name.strip(), [], after[:e].strip(), {}, {}, {}, header=line, value=after[e + 3:-1])
        mm = re.match(r'^ (.*) = \{$', after)
        if not mm:
            raise ParseError('const header: ' + line)
        return Body('const', name.strip(), [], mm.group(1), {}, {}, {}, header=line)
    m = re.match(r'^promoted\[(\d+)\] in (.*): (.*) = \{$', line)
    if m:
        return Body('promoted', '%s::promoted[%s]' % (m.group(2), m.group(1)), [], m.group(3), {}, {}, {}, header=line)
    raise ParseError('header: ' + line)


def _parse_item(lines):
    b = _parse_header(lines[0])
    for loc, ty in b.args:
        b.locals[loc] = ty
    i = 1
    n = len(lines)
    cur = None
    while i < n:
        line = lines[i]
        m = _BB.match(line)
        if m:
            idx = int(m.group(1))
            stmts = []
            term = None
            i += 1
            while i < n and lines[i] != '    }':
                txt = lines[i]
                # statements may span several lines only inside string constants; join until ';' terminates
                while not txt.rstrip().endswith(';') and i + 1 < n:
                    i += 1
                    txt += '\n' + lines[i]
                if txt.strip():
                    kind, node = parse_line(txt)
                    if kind == 'stmt':
                        stmts.append(node)
                    else:
                        term = node
                i += 1
            if term is None:
                raise ParseError('block without terminator in %s bb%d' % (b.name, idx))
            b.blocks[idx] = Block(idx, bool(m.group(2)), stmts, term)
            i += 1
            continue
        m = _LET.match(line)
        if m:
            b.locals[int(m.group(2))] = m.group(3)
            i += 1
            continue
        m = _DEBUG.match(line)
        if m:
            b.debug[m.group(1)] = m.group(2)
        i += 1
    if not b.blocks:
        raise ParseError('no blocks: ' + b.name)
    return b


if __name__ == '__main__':
    import sys
    import time
    t = time.time()
    bodies, errs = parse_file(sys.argv[1])
    print('bodies', len(bodies), 'errors', len(errs), 'in %.1fs' % (time.time() - t))
    for ln, e in errs[:40]:
        print(ln, e[:300])
