"""Constructors of modelled library objects (channels, Notify, Mutex, atomics) and the DashMap / OnceCell API.
Objects created while a thread is being unfolded are thread-local: their state lives in State.objs and operations on
them execute sequentially even in event mode."""
import re
import z3

import objects
from values import *
from exec import Outcome, Unmodelled, Inconclusive
from models_std import branch, deref_val, ok, err, some, NONE, panic
from models_sync import obj_at


def install(I):
    M = I.model

    @M(r'(^|::)oneshot::channel(::<.*>)?$', 'oneshot::channel')
    def m_oneshot(I, st, f, args, fr):
        oid = 'os%d' % fresh_id()
        st.objs[oid] = objects.oneshot_init()
        return I.ret(st, Agg('()', (Obj('oneshot', oid, 'tx'), Obj('oneshot', oid, 'rx'))))

    @M(r'(^|::)unbounded_channel(::<.*>)?$', 'mpsc::unbounded_channel')
    def m_unbounded(I, st, f, args, fr):
        oid = 'ch%d' % fresh_id()
        st.objs[oid] = objects.chan_init(4)
        return I.ret(st, Agg('()', (Obj('chan', oid, 'tx'), Obj('chan', oid, 'rx'))))

    @M(r'^tokio::sync::Notify::(new|const_new)$|^Notify::(new|const_new)$', 'Notify::new')
    def m_notify_new(I, st, f, args, fr):
        oid = 'nt%d' % fresh_id()
        st.objs[oid] = objects.notify_init(2)
        return I.ret(st, Obj('notify', oid))

    @M(r'^(std::sync::)?Mutex::<.*>::new$', 'Mutex::new')
    def m_mutex_new(I, st, f, args, fr):
        oid = 'mx%d' % fresh_id()
        st.objs[oid] = objects.mutex_init()
        st.ghost[('mutex_inner', oid)] = st.alloc(args[0])
        return I.ret(st, Obj('mutex', oid))

    @M(r'^Atomic::<\w+>::new$|^Atomic(U8|Usize|U64|Bool)::new$', 'Atomic::new')
    def m_atomic_new(I, st, f, args, fr):
        oid = 'at%d' % fresh_id()
        v = args[0]
        if isinstance(v, SymEnum):
            v = v.discr
        t = v.t if isinstance(v, Sc) else z3.If(v, z3.BitVecVal(1, 8), z3.BitVecVal(0, 8))
        st.objs[oid] = {'w': t}
        return I.ret(st, Obj('atomic', oid))

    @M(r'^TypeId::of::<.*>$|^std::any::TypeId::of', 'TypeId::of (opaque)')
    def m_typeid(I, st, f, args, fr):
        return I.ret(st, Opaque('typeid', ident='typeid:' + f))

    @M(r'^<.* as Message>::serializable$', 'user Message::serializable (opaque bool)')
    def m_serializable(I, st, f, args, fr):
        return I.ret(st, I.fresh_bool('serializable'))

    @M(r'^HashMap::<.*>::new$|^HashSet::<.*>::new$|^BTreeMap::<.*>::new$|^VecDeque::<.*>::new$', 'empty collection constructor (opaque until used)')
    def m_coll_new(I, st, f, args, fr):
        h = I.hooks.get('collection_new')
        if h:
            r = h(I, st, f)
            if r is not None:
                return I.ret(st, r)
        return I.ret(st, Agg('EmptyCollection', ()))

    # ------------------------------------------------------------------ OnceCell holding the registry maps
    @M(r'^once_cell::sync::OnceCell::<.*>::get_or_init', 'OnceCell::get_or_init')
    def m_once_get_or_init(I, st, f, args, fr):
        cellv = deref_val(I, st, args[0])
        h = I.hooks.get('static_object')
        if h:
            r = h(I, st, cellv, f)
            if r is not None:
                return I.ret(st, r)
        raise Unmodelled('OnceCell::get_or_init on %r' % (cellv,))

    @M(r'^once_cell::sync::OnceCell::<.*>::get$', 'OnceCell::get')
    def m_once_get(I, st, f, args, fr):
        cellv = deref_val(I, st, args[0])
        h = I.hooks.get('static_object')
        if h:
            r = h(I, st, cellv, f)
            if r is not None:
                return I.ret(st, some(r))
        raise Unmodelled('OnceCell::get on %r' % (cellv,))

    # ------------------------------------------------------------------ DashMap (finite key domain supplied by the property)
    def key_index(I, st, mapobj, key):
        h = I.hooks.get('dashmap_key')
        if not h:
            raise Unmodelled('no dashmap_key hook')
        return h(I, st, mapobj, deref_val(I, st, key))

    def val_ident(I, st, mapobj, v):
        h = I.hooks.get('dashmap_val')
        if not h:
            raise Unmodelled('no dashmap_val hook')
        return h(I, st, mapobj, v)

    def map_of(I, st, v):
        m = deref_val(I, st, v)
        if isinstance(m, BoxV):
            m = I.read(st, m.cell, ())
        if not isinstance(m, Obj) or m.kind != 'dashmap':
            return None     # a DashMap held as a plain value (sequential checks): see props/pgworld.py
        return m

    @M(r'^DashMap::<.*>::entry$', 'DashMap::entry')
    def m_dm_entry(I, st, f, args, fr):
        m = map_of(I, st, args[0])
        if m is None:
            return NotImplemented
        k = key_index(I, st, m, args[1])
        name = I.objinfo.get(m.oid, {}).get('name', str(m.oid))
        res = I.shared_op(st, m, 'entry', objects.dashmap_entry(I.cur_tid, k), {'present': 'bool', 'val': 8}, label='%s.entry' % name, info=('entry', k))
        outs = []
        for s2, pres in branch(I, st, res['present']):
            if pres:
                outs.append(Outcome(s2, 'ret', Enum('Entry', 'Occupied', 0, (Agg('OccupiedEntry', (m, I.mk_int(k, 'usize'), args[1], Opaque('mapval', info=res['val']))),))))
            else:
                outs.append(Outcome(s2, 'ret', Enum('Entry', 'Vacant', 1, (Agg('VacantEntry', (m, I.mk_int(k, 'usize'), args[1])),))))
        return outs

    @M(r'^dashmap::VacantEntry::<.*>::insert$|^VacantEntry::<.*>::insert$', 'dashmap VacantEntry::insert')
    def m_dm_vinsert(I, st, f, args, fr):
        e = args[0]
        if not (isinstance(e, Agg) and e.fields and isinstance(e.fields[0], Obj) and e.fields[0].kind == 'dashmap'):
            return NotImplemented
        m, k = e.fields[0], e.fields[1].concrete()
        name = I.objinfo.get(m.oid, {}).get('name', str(m.oid))
        ident = val_ident(I, st, m, args[1])
        I.shared_op(st, m, 'insert', objects.dashmap_insert_release(I.cur_tid, k, ident), {'held': 'bool'}, label='%s.insert' % name, info=('insert', k, ident))
        return I.ret(st, Opaque('RefMut'))

    @M(r'^dashmap::OccupiedEntry::<.*>::insert$|^OccupiedEntry::<.*>::insert$', 'dashmap OccupiedEntry::insert (overwrite, the entry guard stays held)')
    def m_dm_oinsert(I, st, f, args, fr):
        e = deref_val(I, st, args[0])
        if not (isinstance(e, Agg) and e.fields and isinstance(e.fields[0], Obj) and e.fields[0].kind == 'dashmap'):
            return NotImplemented
        m, k = e.fields[0], e.fields[1].concrete()
        name = I.objinfo.get(m.oid, {}).get('name', str(m.oid))
        ident = val_ident(I, st, m, args[1])
        res = I.shared_op(st, m, 'insert', objects.dashmap_insert_held(I.cur_tid, k, ident), {'held': 'bool', 'val': 8}, label='%s.insert' % name, info=('insert', k, ident))
        return I.ret(st, Opaque('mapval', info=res['val']))

    @M(r'^dashmap::OccupiedEntry::<.*>::(key|get)$|^OccupiedEntry::<.*>::(key|get)$', 'dashmap OccupiedEntry::{key,get}')
    def m_dm_okey(I, st, f, args, fr):
        e = deref_val(I, st, args[0])
        if not (isinstance(e, Agg) and e.fields and isinstance(e.fields[0], Obj) and e.fields[0].kind == 'dashmap'):
            return NotImplemented      # an entry of a std HashMap (models_coll)
        if f.endswith('key'):
            return I.ret(st, e.fields[2])
        return I.ret(st, e.fields[3])

    def drop_entry(I, st, v, ref):
        if not (v.fields and isinstance(v.fields[0], Obj) and v.fields[0].kind == 'dashmap'):
            return I.ret(st, UNIT)     # std HashMap entry: nothing held
        m, k = v.fields[0], v.fields[1].concrete()
        name = I.objinfo.get(m.oid, {}).get('name', str(m.oid))
        I.shared_op(st, m, 'release', objects.dashmap_release(I.cur_tid, k), {}, label='%s.release' % name, info=('release', k))
        return I.ret(st, UNIT)
    I.type_drops['OccupiedEntry'] = drop_entry
    I.type_drops['VacantEntry'] = drop_entry

    @M(r'^DashMap::<.*>::remove', 'DashMap::remove')
    def m_dm_remove(I, st, f, args, fr):
        m = map_of(I, st, args[0])
        if m is None:
            return NotImplemented
        k = key_index(I, st, m, args[1])
        name = I.objinfo.get(m.oid, {}).get('name', str(m.oid))
        res = I.shared_op(st, m, 'remove', objects.dashmap_remove(k), {'present': 'bool', 'val': 8}, label='%s.remove' % name, info=('remove', k))
        outs = []
        for s2, pres in branch(I, st, res['present']):
            outs.append(Outcome(s2, 'ret', some(Agg('()', (Opaque('mapkey'), Opaque('mapval', info=res['val'])))) if pres else NONE))
        return outs

    @M(r'^DashMap::<.*>::insert$', 'DashMap::insert')
    def m_dm_insert(I, st, f, args, fr):
        m = map_of(I, st, args[0])
        if m is None:
            return NotImplemented
        k = key_index(I, st, m, args[1])
        name = I.objinfo.get(m.oid, {}).get('name', str(m.oid))
        ident = val_ident(I, st, m, args[2])
        res = I.shared_op(st, m, 'insert', objects.dashmap_insert(k, ident), {'present': 'bool', 'val': 8}, label='%s.insert' % name, info=('insert', k, ident))
        outs = []
        for s2, pres in branch(I, st, res['present']):
            outs.append(Outcome(s2, 'ret', some(Opaque('mapval', info=res['val'])) if pres else NONE))
        return outs

    @M(r'^DashMap::<.*>::get(::<.*>)?$', 'DashMap::get')
    def m_dm_get(I, st, f, args, fr):
        m = map_of(I, st, args[0])
        if m is None:
            return NotImplemented
        k = key_index(I, st, m, args[1])
        name = I.objinfo.get(m.oid, {}).get('name', str(m.oid))
        res = I.shared_op(st, m, 'get', objects.dashmap_get(k), {'present': 'bool', 'val': 8}, label='%s.get' % name, info=('get', k))
        outs = []
        for s2, pres in branch(I, st, res['present']):
            outs.append(Outcome(s2, 'ret', some(Agg('DashRef', (m, Opaque('mapval', info=res['val'])))) if pres else NONE))
        return outs

    @M(r'^dashmap::mapref::one::Ref::<.*>::value$', 'dashmap Ref::value')
    def m_dm_ref_value(I, st, f, args, fr):
        r = deref_val(I, st, args[0])
        if not (isinstance(r, Agg) and r.fields and isinstance(r.fields[0], Obj)):
            return NotImplemented      # reference into a DashMap held as a plain value (props/pgworld.py)
        cell = st.alloc(r.fields[1])
        return I.ret(st, Ref(cell, ()))

    @M(r'^DashMap::<.*>::contains_key', 'DashMap::contains_key')
    def m_dm_contains(I, st, f, args, fr):
        m = map_of(I, st, args[0])
        if m is None:
            return NotImplemented
        k = key_index(I, st, m, args[1])
        name = I.objinfo.get(m.oid, {}).get('name', str(m.oid))
        res = I.shared_op(st, m, 'get', objects.dashmap_get(k), {'present': 'bool', 'val': 8}, label='%s.get' % name, info=('get', k))
        return I.ret(st, res['present'])
