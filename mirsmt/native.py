"""Builds and runs the native replay binary (/verif/replay) against the repository under test with the guard on."""
import os
import shutil
import subprocess
import hashlib

from mirdump import REPO, BUILD, GUARD

VERIF = os.path.dirname(os.path.dirname(os.path.abspath(__file__)))
_built = {}


def build(release=False):
    key = (REPO, release)
    if key in _built:
        return _built[key]
    tag = hashlib.sha256(REPO.encode()).hexdigest()[:8]
    d = os.path.join(BUILD, 'replay-' + tag)
    os.makedirs(os.path.join(d, 'src'), exist_ok=True)
    for f in os.listdir(os.path.join(VERIF, 'replay', 'src')):
        src = os.path.join(VERIF, 'replay', 'src', f)
        dst = os.path.join(d, 'src', f)
        if not os.path.exists(dst) or open(src, 'rb').read() != open(dst, 'rb').read():
            shutil.copy(src, dst)
    toml = open(os.path.join(VERIF, 'replay', 'Cargo.toml.in')).read().replace('@REPO@', REPO)
    if not os.path.exists(os.path.join(d, 'Cargo.toml')) or open(os.path.join(d, 'Cargo.toml')).read() != toml:
        open(os.path.join(d, 'Cargo.toml'), 'w').write(toml)
    lock = os.path.join(REPO, 'Cargo.lock')
    if not os.path.exists(os.path.join(d, 'Cargo.lock')):
        shutil.copy(lock, os.path.join(d, 'Cargo.lock'))
    env = dict(os.environ)
    env['CARGO_NET_OFFLINE'] = 'true'
    env['RUSTFLAGS'] = '--cfg ' + GUARD
    env['CARGO_TARGET_DIR'] = os.path.join(BUILD, 'target-replay')
    cmd = ['cargo', 'build', '--offline', '--quiet'] + (['--release'] if release else [])
    p = subprocess.run(cmd, cwd=d, env=env, capture_output=True, text=True)
    if p.returncode != 0:
        raise RuntimeError('replay crate build failed:\n' + p.stderr[-4000:])
    exe = os.path.join(BUILD, 'target-replay', 'release' if release else 'debug', 'vreplay')
    _built[key] = exe
    return exe


def run(scenario, release=False, timeout=60, **kw):
    """returns (dict of key->value for `k=v` lines, list of other lines, returncode)"""
    exe = build(release)
    args = [exe, scenario] + ['%s=%s' % (k, 'none' if v is None else (','.join(map(str, v)) if isinstance(v, (list, tuple)) else v)) for k, v in kw.items()]
    p = subprocess.run(args, capture_output=True, text=True, timeout=timeout)
    out = {}
    lines = []
    for ln in p.stdout.split('\n'):
        if ln.startswith('step '):
            lines.append(ln)
        elif '=' in ln:
            k, v = ln.split('=', 1)
            out[k] = v
    return out, lines, p.returncode, p.stderr


def build_ext(name, exe_name):
    """a second, small replay crate kept under /verif/<name> (e.g. ractor built with another feature set)"""
    key = (REPO, name)
    if key in _built:
        return _built[key]
    tag = hashlib.sha256(REPO.encode()).hexdigest()[:8]
    d = os.path.join(BUILD, '%s-%s' % (name, tag))
    os.makedirs(os.path.join(d, 'src'), exist_ok=True)
    for f in os.listdir(os.path.join(VERIF, name, 'src')):
        src = os.path.join(VERIF, name, 'src', f)
        dst = os.path.join(d, 'src', f)
        if not os.path.exists(dst) or open(src, 'rb').read() != open(dst, 'rb').read():
            shutil.copy(src, dst)
    toml = open(os.path.join(VERIF, name, 'Cargo.toml.in')).read().replace('@REPO@', REPO)
    if not os.path.exists(os.path.join(d, 'Cargo.toml')) or open(os.path.join(d, 'Cargo.toml')).read() != toml:
        open(os.path.join(d, 'Cargo.toml'), 'w').write(toml)
    if not os.path.exists(os.path.join(d, 'Cargo.lock')):
        shutil.copy(os.path.join(REPO, 'Cargo.lock'), os.path.join(d, 'Cargo.lock'))
    env = dict(os.environ)
    env['CARGO_NET_OFFLINE'] = 'true'
    env['RUSTFLAGS'] = '--cfg ' + GUARD
    env['CARGO_TARGET_DIR'] = os.path.join(BUILD, 'target-' + name)
    p = subprocess.run(['cargo', 'build', '--offline', '--quiet'], cwd=d, env=env, capture_output=True, text=True)
    if p.returncode != 0:
        raise RuntimeError('%s build failed:\n' % name + p.stderr[-4000:])
    exe = os.path.join(BUILD, 'target-' + name, 'debug', exe_name)
    _built[key] = exe
    return exe


def run_ext(name, exe_name, scenario, timeout=60, **kw):
    exe = build_ext(name, exe_name)
    args = [exe, scenario] + ['%s=%s' % (k, v) for k, v in kw.items()]
    p = subprocess.run(args, capture_output=True, text=True, timeout=timeout)
    out = {}
    for ln in p.stdout.split('\n'):
        if '=' in ln:
            k, v = ln.split('=', 1)
            out[k] = v
    return out, p.returncode, p.stderr
