"""Collection-model layer: Vec / VecDeque / HashMap / HashSet with concrete shape and symbolic elements, lazy iterator
adaptors whose closures are the crate's MIR, and std::sync::Mutex (lock / guard deref / guard drop).

Representation (immutable values):
  Vec, VecDeque : Agg('Vec' | 'VecDeque', items)
  HashMap       : Agg('HashMap', (Agg('()', (k, v)), ...))      insertion order; key equality is decided symbolically (forks)
  HashSet       : Agg('HashSet', keys)
  iterators     : Agg('It', (Str(kind), payload...))            see iter_next
"""
import re
import z3

import objects
from values import *
from exec import Outcome, Unmodelled, Inconclusive
from models_std import branch, deref_val, ok, err, some, NONE, panic, cmp_terms, clone_val, int_of


def rd(I, st, r):
    """value behind a reference (one level)"""
    if isinstance(r, Ref):
        return I.read(st, r.cell, r.path)
    return r


def is_coll(v, *kinds):
    return isinstance(v, Agg) and v.ty in kinds


def mk_iter(kind, *payload):
    return Agg('It', (Str(kind),) + tuple(payload))


def key_eq(I, st, a, b):
    lt, eq = cmp_terms(I, st, a, b)
    return z3.simplify(eq)


def iter_next(I, st, it, fr=None):
    """advance iterator value `it`; returns list of (state, new_iterator_value, item or None)"""
    kind = it.fields[0].s
    if kind == 'list':
        items, pos = it.fields[1], it.fields[2]
        if pos >= len(items.fields):
            return [(st, it, None)]
        return [(st, mk_iter('list', items, pos + 1), items.fields[pos])]
    if kind == 'range':
        cur, end = it.fields[1], it.fields[2]
        res = []
        for s2, more in branch(I, st, I.binop('Lt', cur, end, st)):
            if more:
                res.append((s2, mk_iter('range', I.binop('Add', cur, I.mk_int(1, cur.ty), s2), end), cur))
            else:
                res.append((s2, it, None))
        return res
    if kind in ('map', 'filter', 'filter_map', 'inspect', 'take_while', 'skip_while', 'map_while'):
        inner, f = it.fields[1], it.fields[2]
        res = []
        for (s2, inner2, item) in iter_next(I, st, inner, fr):
            nit = mk_iter(kind, inner2, f)
            if item is None:
                res.append((s2, nit, None))
                continue
            if kind == 'map':
                for o in I.call_callable(s2, f, [item], fr):
                    if o.kind != 'ret':
                        raise Unmodelled('iterator closure did not return normally')
                    res.append((o.st, nit, o.val))
            elif kind == 'filter':
                c = s2.alloc(item)
                for o in I.call_callable(s2, f, [Ref(c, ())], fr):
                    if o.kind != 'ret':
                        raise Unmodelled('iterator closure did not return normally')
                    for s3, keep in branch(I, o.st, I.as_bool(o.val)):
                        if keep:
                            res.append((s3, nit, item))
                        else:
                            res.extend(iter_next(I, s3, nit, fr))
            elif kind == 'filter_map':
                for o in I.call_callable(s2, f, [item], fr):
                    if o.kind != 'ret':
                        raise Unmodelled('iterator closure did not return normally')
                    if o.val.variant == 'Some':
                        res.append((o.st, nit, o.val.fields[0]))
                    else:
                        res.extend(iter_next(I, o.st, nit, fr))
            else:
                raise Unmodelled('iterator adaptor ' + kind)
        return res
    if kind == 'enumerate':
        inner, n = it.fields[1], it.fields[2]
        res = []
        for (s2, inner2, item) in iter_next(I, st, inner, fr):
            if item is None:
                res.append((s2, mk_iter('enumerate', inner2, n), None))
            else:
                res.append((s2, mk_iter('enumerate', inner2, n + 1), Agg('()', (I.mk_int(n, 'usize'), item))))
        return res
    if kind in ('cloned', 'copied'):
        inner = it.fields[1]
        res = []
        for (s2, inner2, item) in iter_next(I, st, inner, fr):
            res.append((s2, mk_iter(kind, inner2), None if item is None else clone_val(I, s2, rd(I, s2, item))))
        return res
    if kind == 'take':
        inner, n = it.fields[1], it.fields[2]
        if n <= 0:
            return [(st, it, None)]
        return [(s2, mk_iter('take', inner2, n - 1), item) for (s2, inner2, item) in iter_next(I, st, inner, fr)]
    if kind == 'zip':
        a, b = it.fields[1], it.fields[2]
        res = []
        for (s2, a2, x) in iter_next(I, st, a, fr):
            if x is None:
                res.append((s2, mk_iter('zip', a2, b), None))
                continue
            for (s3, b2, y) in iter_next(I, s2, b, fr):
                res.append((s3, mk_iter('zip', a2, b2), None if y is None else Agg('()', (x, y))))
        return res
    if kind == 'chain':
        a, b = it.fields[1], it.fields[2]
        res = []
        if a is not None:
            for (s2, a2, item) in iter_next(I, st, a, fr):
                if item is None:
                    res.extend([(s3, mk_iter('chain', None, b2), it2) for (s3, b2, it2) in iter_next(I, s2, b, fr)])
                else:
                    res.append((s2, mk_iter('chain', a2, b), item))
            return res
        return [(s3, mk_iter('chain', None, b2), it2) for (s3, b2, it2) in iter_next(I, st, b, fr)]
    raise Unmodelled('iterator kind ' + kind)


def drain_all(I, st, it, fr=None, limit=64):
    """consume an iterator completely; returns list of (state, [items])"""
    work = [(st, it, [])]
    done = []
    steps = 0
    while work:
        s, cur, acc = work.pop()
        steps += 1
        if steps > 4000 or len(acc) > limit:
            raise Inconclusive('iterator consumption bound exceeded')
        for (s2, it2, item) in iter_next(I, s, cur, fr):
            if item is None:
                done.append((s2, acc))
            else:
                work.append((s2, it2, acc + [item]))
    return done


def as_iter(I, st, v):
    """IntoIterator for collection values / references / iterator values"""
    if isinstance(v, Agg) and v.ty == 'It':
        return v
    if isinstance(v, Ref):
        tgt = I.read(st, v.cell, v.path)
        if is_coll(tgt, 'Vec', 'VecDeque', '[]', 'HashSet'):
            return mk_iter('list', Agg('()', [Ref(v.cell, v.path + (i,), v.mut) for i in range(len(tgt.fields))]), 0)
        if is_coll(tgt, 'HashMap', 'BTreeMap'):
            return mk_iter('list', Agg('()', [Agg('()', (Ref(v.cell, v.path + (i, 0)), Ref(v.cell, v.path + (i, 1), v.mut))) for i in range(len(tgt.fields))]), 0)
        if isinstance(tgt, Agg) and tgt.ty == 'It':
            return tgt
        if isinstance(tgt, Enum) and tgt.ty == 'Option':
            return mk_iter('list', Agg('()', [Ref(v.cell, v.path + (0,), v.mut)] if tgt.variant == 'Some' else []), 0)
        raise Unmodelled('into_iter of reference to %r' % (tgt,))
    if is_coll(v, 'Vec', 'VecDeque', '[]', 'HashSet'):
        return mk_iter('list', Agg('()', v.fields), 0)
    if is_coll(v, 'HashMap', 'BTreeMap'):
        return mk_iter('list', Agg('()', v.fields), 0)
    if isinstance(v, Enum) and v.ty == 'Option':
        return mk_iter('list', Agg('()', v.fields if v.variant == 'Some' else ()), 0)
    if is_coll(v, 'EmptyCollection'):
        return mk_iter('list', Agg('()', ()), 0)
    if isinstance(v, Agg) and v.ty == 'Range':
        return mk_iter('range', v.fields[0], v.fields[1])
    raise Unmodelled('into_iter of %r' % (v,))


def norm_coll(v, kind):
    """an EmptyCollection placeholder becomes an empty collection of the requested kind"""
    if is_coll(v, 'EmptyCollection'):
        return Agg(kind, ())
    return v


def install(I):
    M = I.model

    # ------------------------------------------------------------------ Mutex
    def mutex_static(I, st, key, ty):
        if 'Mutex' in ty:
            oid = 'static:' + key
            st.objs[oid] = objects.mutex_init()
            st.ghost[('mutex_inner', oid)] = st.alloc(UNIT)
            return Obj('mutex', oid)
        return None
    prev = I.hooks.get('static_init')
    I.hooks['static_init'] = (lambda I, st, key, ty: mutex_static(I, st, key, ty) or (prev(I, st, key, ty) if prev else None))

    @M(r'^(std::sync::)?Mutex::<.*>::lock$', 'Mutex::lock')
    def m_lock(I, st, f, args, fr):
        o = rd(I, st, args[0])
        if not isinstance(o, Obj) or o.kind != 'mutex':
            raise Unmodelled('lock of %r' % (o,))
        name = I.objinfo.get(o.oid, {}).get('name', str(o.oid))
        I.shared_op(st, o, 'lock', objects.mutex_lock(I.cur_tid), {}, label='%s.lock' % name)
        return I.ret(st, ok(Agg('MutexGuard', (o,))))

    @M(r'^<(std::sync::)?MutexGuard<.*> as Deref(Mut)?>::deref(_mut)?$', 'MutexGuard::deref')
    def m_guard_deref(I, st, f, args, fr):
        g = rd(I, st, args[0])
        o = g.fields[0]
        inner = st.ghost.get(('mutex_inner', o.oid))
        if inner is None:
            h = I.hooks.get('mutex_inner')
            inner = h(I, st, o) if h else None
        if inner is None:
            raise Unmodelled('no protected value known for mutex %r' % (o,))
        return I.ret(st, Ref(inner, (), 'Mut' in f))

    def drop_guard(I, st, v, ref):
        o = v.fields[0]
        name = I.objinfo.get(o.oid, {}).get('name', str(o.oid))
        I.shared_op(st, o, 'unlock', objects.mutex_unlock(I.cur_tid), {'was_owner': 'bool'}, label='%s.unlock' % name)
        return I.ret(st, UNIT)
    I.type_drops['MutexGuard'] = drop_guard

    @M(r'^PoisonError::<.*>::into_inner$', 'PoisonError::into_inner')
    def m_poison(I, st, f, args, fr):
        return I.ret(st, args[0])

    # ------------------------------------------------------------------ Vec / VecDeque
    @M(r'^(HashSet|HashMap|BTreeMap)::<.*>::(new|with_capacity)$', 'HashSet / HashMap::new')
    def m_hash_new(I, st, f, args, fr):
        return I.ret(st, Agg(re.match(r'^(\w+)::', f).group(1), ()))

    @M(r'^Vec::<.*>::(new|with_capacity)$|^VecDeque::<.*>::(new|with_capacity)$', 'Vec::new')
    def m_vec_new(I, st, f, args, fr):
        return I.ret(st, Agg('VecDeque' if f.startswith('VecDeque') else 'Vec', ()))

    @M(r'^Box::<\[.*; \d+\]>::new_uninit$', 'Box::new_uninit (vec! macro)')
    def m_box_uninit(I, st, f, args, fr):
        n = int(re.search(r'; (\d+)\]>', f).group(1))
        return I.ret(st, BoxV(st.alloc(Agg('[]', [UNINIT] * n)), 'Box'))

    @M(r'(^|::)box_assume_init_into_vec_unsafe', 'vec! macro: boxed array into Vec')
    def m_box_into_vec(I, st, f, args, fr):
        b = args[0]
        arr = I.read(st, b.cell, ())
        return I.ret(st, Agg('Vec', arr.fields))

    @M(r'^<\[.*\]>::to_vec$|(^|::)slice::<impl \[.*\]>::to_vec$', 'slice::to_vec (element-wise copy)')
    def m_to_vec(I, st, f, args, fr):
        arr = deref_val(I, st, args[0])
        if not isinstance(arr, Agg):
            raise Unmodelled('to_vec of %r' % (arr,))
        return I.ret(st, Agg('Vec', [clone_val(I, st, x) for x in arr.fields]))

    @M(r'^<\[.*\]>::into_vec|^slice::<impl \[.*\]>::into_vec', 'slice::into_vec')
    def m_into_vec(I, st, f, args, fr):
        b = args[0]
        arr = I.read(st, b.cell, ()) if isinstance(b, BoxV) else b
        return I.ret(st, Agg('Vec', arr.fields))

    @M(r'^<Box<MaybeUninit<.*>> as DerefMut>::deref_mut$|^MaybeUninit::<.*>::as_mut_ptr$|^Box::<MaybeUninit<.*>>::as_mut_ptr$', 'MaybeUninit plumbing')
    def m_mu(I, st, f, args, fr):
        b = rd(I, st, args[0]) if isinstance(args[0], Ref) else args[0]
        if isinstance(b, BoxV):
            return I.ret(st, Ref(b.cell, (), True))
        return I.ret(st, args[0])

    def coll_ref(I, st, r, kinds, default):
        v = I.read(st, r.cell, r.path)
        v = norm_coll(v, default)
        if not is_coll(v, *kinds):
            raise Unmodelled('expected %s, found %r' % (kinds, v))
        return v

    @M(r'^Vec::<.*>::push$|^VecDeque::<.*>::push_back$', 'Vec::push / VecDeque::push_back')
    def m_push(I, st, f, args, fr):
        r = args[0]
        v = coll_ref(I, st, r, ('Vec', 'VecDeque'), 'VecDeque' if f.startswith('VecDeque') else 'Vec')
        I.write(st, r.cell, r.path, Agg(v.ty, v.fields + (args[1],)))
        return I.ret(st, UNIT)

    @M(r'^(std::|alloc::)?vec::from_elem(::<.*>)?$', 'vec![elem; n] (concrete n)')
    def m_from_elem(I, st, f, args, fr):
        n = int_of(I, st, args[1]).concrete()
        if n is None or n > 64:
            raise Unmodelled('symbolic / large vec![elem; n]')
        return I.ret(st, Agg('Vec', [args[0]] * n))

    @M(r'^Vec::<.*>::resize$|^VecDeque::<.*>::resize$', 'Vec::resize')
    def m_resize(I, st, f, args, fr):
        r = args[0]
        v = coll_ref(I, st, r, ('Vec', 'VecDeque'), 'Vec')
        n = int_of(I, st, args[1]).concrete()
        if n is None or n > 64:
            raise Unmodelled('symbolic / large Vec::resize')
        items = list(v.fields[:n]) + [args[2]] * max(0, n - len(v.fields))
        I.write(st, r.cell, r.path, Agg(v.ty, items))
        return I.ret(st, UNIT)

    @M(r'^Vec::<.*>::resize_with(::<.*>)?$|^VecDeque::<.*>::resize_with(::<.*>)?$', 'Vec::resize_with (filler closure called once per new slot)')
    def m_resize_with(I, st, f, args, fr):
        r = args[0]
        n = int_of(I, st, args[1]).concrete()
        if n is None or n > 16:
            raise Unmodelled('symbolic / large Vec::resize_with')
        states = [st]
        v0 = coll_ref(I, st, r, ('Vec', 'VecDeque'), 'Vec')
        for k in range(len(v0.fields), n):
            nxt = []
            for s in states:
                ccell = s.alloc(args[2])
                for o in I.call_callable(s, Ref(ccell, (), True), [], fr):
                    if o.kind != 'ret':
                        raise Unmodelled('resize_with filler did not return')
                    cur = coll_ref(I, o.st, r, ('Vec', 'VecDeque'), 'Vec')
                    I.write(o.st, r.cell, r.path, Agg(cur.ty, cur.fields + (o.val,)))
                    nxt.append(o.st)
            states = nxt
        outs = []
        for s in states:
            cur = coll_ref(I, s, r, ('Vec', 'VecDeque'), 'Vec')
            I.write(s, r.cell, r.path, Agg(cur.ty, cur.fields[:n]))
            outs.append(Outcome(s, 'ret', UNIT))
        return outs

    @M(r'(^|::)slice::<impl \[.*\]>::(sort|sort_unstable)$', 'slice::sort (concrete strings / integers only)')
    def m_sort(I, st, f, args, fr):
        r = args[0]
        v = I.read(st, r.cell, r.path)
        if not is_coll(v, 'Vec', '[]'):
            raise Unmodelled('sort of %r' % (v,))

        def k(x):
            if isinstance(x, Str):
                return (0, x.s)
            if isinstance(x, Sc) and x.concrete() is not None:
                return (1, x.concrete())
            raise Unmodelled('sort of symbolic elements')
        I.write(st, r.cell, r.path, Agg(v.ty, sorted(v.fields, key=k)))
        return I.ret(st, UNIT)

    @M(r'^Vec::<.*>::dedup$', 'Vec::dedup (concrete elements)')
    def m_dedup(I, st, f, args, fr):
        r = args[0]
        v = coll_ref(I, st, r, ('Vec',), 'Vec')
        out = []
        for x in v.fields:
            if not isinstance(x, (Str,)) and not (isinstance(x, Sc) and x.concrete() is not None):
                raise Unmodelled('dedup of symbolic elements')
            kx = x.s if isinstance(x, Str) else x.concrete()
            if out and (out[-1].s if isinstance(out[-1], Str) else out[-1].concrete()) == kx:
                continue
            out.append(x)
        I.write(st, r.cell, r.path, Agg('Vec', out))
        return I.ret(st, UNIT)

    @M(r'^Vec::<.*>::(try_reserve|try_reserve_exact)$', 'Vec::try_reserve (succeeds, or reports an allocation failure)')
    def m_try_reserve(I, st, f, args, fr):
        s2 = st.fork()
        s2.emit('ALLOC_FAILED')
        return [Outcome(st, 'ret', ok(UNIT)), Outcome(s2, 'ret', err(Opaque('TryReserveError', ident='try-reserve-error')))]

    @M(r'^Vec::<.*>::(reserve|reserve_exact|shrink_to_fit)$', 'Vec::reserve (no observable effect)')
    def m_reserve(I, st, f, args, fr):
        return I.ret(st, UNIT)

    @M(r'^Vec::<.*>::split_off$', 'Vec::split_off(at) (concrete at; panics when at > len)')
    def m_split_off(I, st, f, args, fr):
        r = args[0]
        v = coll_ref(I, st, r, ('Vec',), 'Vec')
        at = int_of(I, st, args[1]).concrete()
        if at is None:
            raise Unmodelled('symbolic Vec::split_off')
        if at > len(v.fields):
            return panic(I, st, '`at` split index (is %d) should be <= len (is %d)' % (at, len(v.fields)))
        I.write(st, r.cell, r.path, Agg('Vec', list(v.fields[:at])))
        return I.ret(st, Agg('Vec', list(v.fields[at:])))

    @M(r'^<Vec<(.*)> as TryInto<\[(.*); (\d+)\]>>::try_into$', 'Vec<T> -> [T; N] (Err gives the vector back)')
    def m_vec_try_into(I, st, f, args, fr):
        v = deref_val(I, st, args[0])
        n = int(re.search(r'; (\d+)\]>>::try_into$', f).group(1))
        if not is_coll(v, 'Vec'):
            raise Unmodelled('try_into of %r' % (v,))
        if len(v.fields) == n:
            return I.ret(st, ok(Agg('[]', list(v.fields))))
        return I.ret(st, err(v))

    @M(r'^core::slice::<impl \[.*\]>::copy_from_slice$', 'slice::copy_from_slice (panics on a length mismatch)')
    def m_copy_from_slice(I, st, f, args, fr):
        dst, src = args[0], deref_val(I, st, args[1])
        cur = I.read(st, dst.cell, dst.path)
        if isinstance(cur, Agg) and cur.ty == 'SliceViewMut' and isinstance(src, Agg):
            base, lo, hi = cur.fields
            whole = I.read(st, base.cell, base.path)
            if not is_coll(whole, 'Vec', '[]'):
                raise Unmodelled('copy_from_slice through a view of %r' % (whole,))
            if hi - lo != len(src.fields):
                return panic(I, st, 'source slice length (%d) does not match destination slice length (%d)' % (len(src.fields), hi - lo))
            I.write(st, base.cell, base.path, Agg(whole.ty, list(whole.fields[:lo]) + list(src.fields) + list(whole.fields[hi:])))
            return I.ret(st, UNIT)
        if not (isinstance(cur, Agg) and isinstance(src, Agg)):
            raise Unmodelled('copy_from_slice of %r into %r' % (src, cur))
        if len(cur.fields) != len(src.fields):
            return panic(I, st, 'source slice length (%d) does not match destination slice length (%d)' % (len(src.fields), len(cur.fields)))
        I.write(st, dst.cell, dst.path, Agg(cur.ty, list(src.fields)))
        return I.ret(st, UNIT)

    @M(r'^Vec::<.*>::extend_from_slice$', 'Vec::extend_from_slice')
    def m_extend_from_slice(I, st, f, args, fr):
        r = args[0]
        v = coll_ref(I, st, r, ('Vec',), 'Vec')
        src = deref_val(I, st, args[1])
        if not is_coll(src, 'Vec', '[]'):
            raise Unmodelled('extend_from_slice of %r' % (src,))
        I.write(st, r.cell, r.path, Agg('Vec', v.fields + tuple(src.fields)))
        return I.ret(st, UNIT)

    @M(r'^Vec::<.*>::truncate$|^VecDeque::<.*>::truncate$', 'Vec::truncate')
    def m_truncate(I, st, f, args, fr):
        r = args[0]
        v = coll_ref(I, st, r, ('Vec', 'VecDeque'), 'Vec')
        n = int_of(I, st, args[1]).concrete()
        if n is None:
            raise Unmodelled('symbolic Vec::truncate')
        I.write(st, r.cell, r.path, Agg(v.ty, v.fields[:n]))
        return I.ret(st, UNIT)

    @M(r'^VecDeque::<.*>::push_front$', 'VecDeque::push_front')
    def m_push_front(I, st, f, args, fr):
        r = args[0]
        v = coll_ref(I, st, r, ('VecDeque',), 'VecDeque')
        I.write(st, r.cell, r.path, Agg(v.ty, (args[1],) + v.fields))
        return I.ret(st, UNIT)

    @M(r'^Vec::<.*>::pop$|^VecDeque::<.*>::pop_back$', 'Vec::pop')
    def m_pop(I, st, f, args, fr):
        r = args[0]
        v = coll_ref(I, st, r, ('Vec', 'VecDeque'), 'Vec')
        if not v.fields:
            return I.ret(st, NONE)
        I.write(st, r.cell, r.path, Agg(v.ty, v.fields[:-1]))
        return I.ret(st, some(v.fields[-1]))

    @M(r'^VecDeque::<.*>::pop_front$', 'VecDeque::pop_front')
    def m_pop_front(I, st, f, args, fr):
        r = args[0]
        v = coll_ref(I, st, r, ('VecDeque',), 'VecDeque')
        if not v.fields:
            return I.ret(st, NONE)
        I.write(st, r.cell, r.path, Agg(v.ty, v.fields[1:]))
        return I.ret(st, some(v.fields[0]))

    @M(r'^(Vec|VecDeque|HashMap|HashSet|BTreeMap)::<.*>::len$|^<\[.*\]>::len$|^core::slice::<impl \[.*\]>::len$', 'len')
    def m_len(I, st, f, args, fr):
        v = norm_coll(rd(I, st, args[0]), 'Vec')
        return I.ret(st, I.mk_int(len(v.fields), 'usize'))

    @M(r'^(Vec|VecDeque|HashMap|HashSet|BTreeMap)::<.*>::is_empty$|^core::slice::<impl \[.*\]>::is_empty$', 'is_empty')
    def m_is_empty(I, st, f, args, fr):
        v = norm_coll(rd(I, st, args[0]), 'Vec')
        return I.ret(st, z3.BoolVal(len(v.fields) == 0))

    @M(r'^(Vec|VecDeque|HashMap|HashSet)::<.*>::clear$', 'clear')
    def m_clear(I, st, f, args, fr):
        r = args[0]
        v = norm_coll(I.read(st, r.cell, r.path), 'Vec')
        I.write(st, r.cell, r.path, Agg(v.ty, ()))
        return I.ret(st, UNIT)

    @M(r'^VecDeque::<.*>::(front|back)(_mut)?$|^core::slice::<impl \[.*\]>::(first|last)(_mut)?$|^Vec::<.*>::(first|last)$', 'front/back/first/last')
    def m_front(I, st, f, args, fr):
        r = args[0]
        v = norm_coll(I.read(st, r.cell, r.path), 'Vec')
        if not v.fields:
            return I.ret(st, NONE)
        idx = 0 if re.search(r'(front|first)(_mut)?$', f) else len(v.fields) - 1
        return I.ret(st, some(Ref(r.cell, r.path + (idx,), f.endswith('_mut'))))

    @M(r'^<Vec<.*> as Extend<.*>>::extend|^<VecDeque<.*> as Extend<.*>>::extend', 'Vec::extend')
    def m_extend(I, st, f, args, fr):
        r = args[0]
        v = coll_ref(I, st, r, ('Vec', 'VecDeque'), 'Vec')
        outs = []
        for (s2, items) in drain_all(I, st, as_iter(I, st, args[1]), fr):
            cur = norm_coll(I.read(s2, r.cell, r.path), 'Vec')
            I.write(s2, r.cell, r.path, Agg(cur.ty, cur.fields + tuple(items)))
            outs.append(Outcome(s2, 'ret', UNIT))
        return outs

    @M(r'^Vec::<.*>::retain|^VecDeque::<.*>::retain', 'retain')
    def m_retain(I, st, f, args, fr):
        r = args[0]
        v = coll_ref(I, st, r, ('Vec', 'VecDeque'), 'Vec')
        work = [(st, 0, [])]
        outs = []
        while work:
            s, i, kept = work.pop()
            if i >= len(v.fields):
                I.write(s, r.cell, r.path, Agg(v.ty, kept))
                outs.append(Outcome(s, 'ret', UNIT))
                continue
            c = s.alloc(v.fields[i])
            for o in I.call_callable(s, args[1], [Ref(c, (), f.endswith('retain_mut'))], fr):
                if o.kind != 'ret':
                    outs.append(o)
                    continue
                for s3, keep in branch(I, o.st, I.as_bool(o.val)):
                    work.append((s3, i + 1, kept + ([v.fields[i]] if keep else [])))
        return outs

    @M(r'^<(\[.*\]|Vec<.*>) as Index(Mut)?<(std::ops::|ops::)?Range(To|From|Full|Inclusive|ToInclusive)?(<usize>)?>>::index(_mut)?$', 'slice[a..b] with concrete bounds (copy of the sub-sequence)')
    def m_index_range(I, st, f, args, fr):
        view = f.endswith('index_mut') and not getattr(I, 'allow_slice_copy_mut', False)
        # (a mutable sub-slice is a *view*: unless the check opts into copy semantics because its environment never writes into the slice, the result is a
        # SliceViewMut that only copy_from_slice knows how to write through; any other use of it is unmodelled)
        seq = deref_val(I, st, args[0])
        if not is_coll(seq, 'Vec', '[]'):
            raise Unmodelled('range index of %r' % (seq,))
        r = args[1]
        kind = re.search(r'Index(?:Mut)?<(?:std::ops::|ops::)?(Range\w*)', f).group(1)

        def conc(x):
            t = z3.simplify(x.t if isinstance(x, Sc) else x)
            if not z3.is_bv_value(t) and not z3.is_int_value(t):
                raise Unmodelled('symbolic range bound in ' + f)
            return t.as_long()
        n = len(seq.fields)
        if kind == 'Range' and isinstance(r, Agg) and any(int_of(I, st, x).concrete() is None for x in r.fields):
            # symbolic bounds: the same case split as slice::get, an out-of-range request panics
            outs = []
            for o in m_get_range(I, st, f, [args[0], Agg('Range', list(r.fields))], fr):
                if isinstance(o.val, Enum) and o.val.variant == 'None':
                    outs += panic(I, o.st, 'range index out of range for slice of length %d' % n)
                else:
                    outs.append(Outcome(o.st, 'ret', o.val.fields[0]))
            return outs
        fs = [conc(x) for x in (r.fields if isinstance(r, Agg) else ())]
        if kind == 'Range':
            lo, hi = fs[0], fs[1]
        elif kind == 'RangeTo':
            lo, hi = 0, fs[0]
        elif kind == 'RangeFrom':
            lo, hi = fs[0], n
        elif kind == 'RangeFull':
            lo, hi = 0, n
        elif kind == 'RangeToInclusive':
            lo, hi = 0, fs[0] + 1
        else:
            raise Unmodelled('range kind ' + kind)
        if lo > hi or hi > n:
            return panic(I, st, 'range end index %d out of range for slice of length %d' % (hi, n))
        if view:
            base = args[0]
            while isinstance(base, Ref) and isinstance(I.read(st, base.cell, base.path), Ref):
                base = I.read(st, base.cell, base.path)
            if not isinstance(base, Ref):
                raise Unmodelled('mutable sub-slice of %r' % (base,))
            return I.ret(st, Ref(st.alloc(Agg('SliceViewMut', (base, lo, hi))), (), True))
        return I.ret(st, Ref(st.alloc(Agg('[]', seq.fields[lo:hi])), ()))

    @M(r'^core::slice::<impl \[.*\]>::get::<(std::ops::|core::ops::|ops::)?Range<usize>>$', 'slice::get(lo..hi), bounds split into their feasible values')
    def m_get_range(I, st, f, args, fr):
        """slice.get(lo..hi): None when lo > hi or hi > len, else the sub-slice (a copy). Symbolic bounds are split into their feasible concrete values
        (the slice length is concrete, so there are at most len + 1 values for each bound that give Some)."""
        seq = deref_val(I, st, args[0])
        if not is_coll(seq, 'Vec', '[]'):
            raise Unmodelled('range get of %r' % (seq,))
        r = args[1]
        if r.ty != 'Range' or len(r.fields) != 2:
            raise Unmodelled('slice::get with ' + str(r.ty))
        n = len(seq.fields)
        lo_t, hi_t = int_of(I, st, r.fields[0]), int_of(I, st, r.fields[1])
        outs = []
        rest = st

        def values(s, x):
            c = x.concrete()
            if c is not None:
                return [(s, c)] if c <= n else [], (s if c > n else None)
            res = []
            cur = s
            for k in range(n + 1):
                cond = x.t == z3.BitVecVal(k, x.t.size())
                br = branch(I, cur, cond)
                nxt = None
                for s2, same in br:
                    if same:
                        res.append((s2, k))
                    else:
                        nxt = s2
                if nxt is None:
                    return res, None
                cur = nxt
            return res, cur     # cur: the bound is larger than len
        los, lo_big = values(st, lo_t)
        if lo_big is not None:
            outs.append(Outcome(lo_big, 'ret', NONE))
        for s1, lo in los:
            his, hi_big = values(s1, hi_t)
            if hi_big is not None:
                outs.append(Outcome(hi_big, 'ret', NONE))
            for s2, hi in his:
                if lo > hi:
                    outs.append(Outcome(s2, 'ret', NONE))
                else:
                    outs.append(Outcome(s2, 'ret', some(Ref(s2.alloc(Agg('[]', seq.fields[lo:hi])), ()))))
        return outs

    @M(r'^<Vec<.*> as Index<usize>>::index$|^<VecDeque<.*> as Index<usize>>::index$|^<Vec<.*> as IndexMut<usize>>::index_mut$|^Vec::<.*>::get$|^VecDeque::<.*>::get(_mut)?$|^core::slice::<impl \[.*\]>::get(_mut)?$', 'index / get')
    def m_index(I, st, f, args, fr):
        r = args[0]
        if isinstance(args[1], Agg) and args[1].ty and args[1].ty.startswith('Range'):
            return m_get_range(I, st, f, args, fr)
        v = norm_coll(I.read(st, r.cell, r.path), 'Vec')
        i = int_of(I, st, args[1]).concrete()
        if i is None:
            raise Unmodelled('symbolic collection index')
        is_get = re.search(r'::get(_mut)?$', f) is not None
        if i >= len(v.fields):
            return I.ret(st, NONE) if is_get else panic(I, st, 'index out of bounds')
        ref = Ref(r.cell, r.path + (i,), 'mut' in f)
        return I.ret(st, some(ref) if is_get else ref)

    @M(r'^core::slice::<impl \[.*\]>::contains$|^Vec::<.*>::contains$|^VecDeque::<.*>::contains$|^<\[.*\]>::contains$', 'slice::contains')
    def m_contains(I, st, f, args, fr):
        v = norm_coll(rd(I, st, args[0]), 'Vec')
        x = rd(I, st, args[1])
        conds = [key_eq(I, st, it, x) for it in v.fields]
        return I.ret(st, z3.simplify(z3.Or(conds)) if conds else z3.BoolVal(False))

    @M(r'^VecDeque::<.*>::remove$|^Vec::<.*>::remove$|^Vec::<.*>::swap_remove$', 'remove(index)')
    def m_remove_idx(I, st, f, args, fr):
        r = args[0]
        v = norm_coll(I.read(st, r.cell, r.path), 'Vec')
        i = int_of(I, st, args[1]).concrete()
        if i is None:
            raise Unmodelled('symbolic collection index')
        if i >= len(v.fields):
            return I.ret(st, NONE) if f.startswith('VecDeque') else panic(I, st, 'removal index out of bounds')
        I.write(st, r.cell, r.path, Agg(v.ty, v.fields[:i] + v.fields[i + 1:]))
        return I.ret(st, some(v.fields[i]) if f.startswith('VecDeque') else v.fields[i])

    @M(r'^Vec::<.*>::iter(_mut)?$|^VecDeque::<.*>::iter(_mut)?$|^core::slice::<impl \[.*\]>::iter(_mut)?$|^HashSet::<.*>::iter$', 'iter()')
    def m_iter(I, st, f, args, fr):
        return I.ret(st, as_iter(I, st, Ref(args[0].cell, args[0].path, f.endswith('_mut'))))

    # ------------------------------------------------------------------ HashMap / HashSet
    def map_find(I, st, m, key):
        """returns list of (state, index or None)"""
        res = []
        cur = st
        for i, pair in enumerate(m.fields):
            eq = key_eq(I, cur, pair.fields[0], key)
            if z3.is_true(eq):
                res.append((cur, i))
                return res
            if z3.is_false(eq):
                continue
            br = branch(I, cur, eq)
            nxt = None
            for s2, same in br:
                if same:
                    res.append((s2, i))
                else:
                    nxt = s2
            if nxt is None:
                return res
            cur = nxt
        res.append((cur, None))
        return res

    I.map_find = map_find

    @M(r'^HashMap::<.*>::insert$|^BTreeMap::<.*>::insert$', 'HashMap / BTreeMap::insert (BTreeMap entries are kept in key order)')
    def m_map_insert(I, st, f, args, fr):
        r = args[0]
        kind = 'BTreeMap' if 'BTreeMap' in f.split('::<')[0] else 'HashMap'
        m = norm_coll(I.read(st, r.cell, r.path), kind)
        outs = []
        for s2, idx in map_find(I, st, m, args[1]):
            if idx is None and kind == 'BTreeMap':
                # position: before the first entry with a greater key
                cur = s2
                placed = False
                for i, e in enumerate(m.fields):
                    lt, _eq = cmp_terms(I, cur, args[1], e.fields[0])
                    nxt = None
                    for s3, less in branch(I, cur, lt):
                        if less:
                            I.write(s3, r.cell, r.path, Agg('BTreeMap', m.fields[:i] + (Agg('()', (args[1], args[2])),) + m.fields[i:]))
                            outs.append(Outcome(s3, 'ret', NONE))
                        else:
                            nxt = s3
                    if nxt is None:
                        placed = True
                        break
                    cur = nxt
                if not placed:
                    I.write(cur, r.cell, r.path, Agg('BTreeMap', m.fields + (Agg('()', (args[1], args[2])),)))
                    outs.append(Outcome(cur, 'ret', NONE))
            elif idx is None:
                I.write(s2, r.cell, r.path, Agg('HashMap', m.fields + (Agg('()', (args[1], args[2])),)))
                outs.append(Outcome(s2, 'ret', NONE))
            else:
                old = m.fields[idx].fields[1]
                nf = list(m.fields)
                nf[idx] = Agg('()', (m.fields[idx].fields[0], args[2]))
                I.write(s2, r.cell, r.path, Agg(kind, nf))
                outs.append(Outcome(s2, 'ret', some(old)))
        return outs

    @M(r'^HashMap::<.*>::remove(::<.*>)?$|^BTreeMap::<.*>::remove(::<.*>)?$', 'HashMap::remove')
    def m_map_remove(I, st, f, args, fr):
        r = args[0]
        kind = 'BTreeMap' if 'BTreeMap' in f.split('::<')[0] else 'HashMap'
        m = norm_coll(I.read(st, r.cell, r.path), kind)
        key = rd(I, st, args[1])
        outs = []
        for s2, idx in map_find(I, st, m, key):
            if idx is None:
                outs.append(Outcome(s2, 'ret', NONE))
            else:
                I.write(s2, r.cell, r.path, Agg(kind, m.fields[:idx] + m.fields[idx + 1:]))
                outs.append(Outcome(s2, 'ret', some(m.fields[idx].fields[1])))
        return outs

    @M(r'^HashMap::<.*>::(get|get_mut)(::<.*>)?$|^BTreeMap::<.*>::(get|get_mut)(::<.*>)?$', 'HashMap::get')
    def m_map_get(I, st, f, args, fr):
        r = args[0]
        m = norm_coll(I.read(st, r.cell, r.path), 'HashMap')
        key = rd(I, st, args[1])
        outs = []
        for s2, idx in map_find(I, st, m, key):
            outs.append(Outcome(s2, 'ret', NONE if idx is None else some(Ref(r.cell, r.path + (idx, 1), 'get_mut' in f))))
        return outs

    # entry API: Entry::Occupied(OccupiedEntry{map, index}) / Entry::Vacant(VacantEntry{map, key})
    @M(r'^HashMap::<.*>::entry$', 'HashMap::entry')
    def m_map_entry(I, st, f, args, fr):
        r = args[0]
        m = norm_coll(I.read(st, r.cell, r.path), 'HashMap')
        outs = []
        for s2, idx in map_find(I, st, m, args[1]):
            if idx is None:
                outs.append(Outcome(s2, 'ret', Enum('Entry', 'Vacant', 1, (Agg('VacantEntry', (Ref(r.cell, r.path, True), args[1])),))))
            else:
                outs.append(Outcome(s2, 'ret', Enum('Entry', 'Occupied', 0, (Agg('OccupiedEntry', (Ref(r.cell, r.path, True), idx)),))))
        return outs

    def _occ(I, st, a):
        e = rd(I, st, a) if isinstance(a, Ref) else a
        if not (isinstance(e, Agg) and e.ty == 'OccupiedEntry'):
            raise Unmodelled('not an OccupiedEntry: %r' % (e,))
        return e.fields[0], e.fields[1]

    @M(r'(^|::)OccupiedEntry::<.*>::(get|get_mut|into_mut)$', 'OccupiedEntry::get / get_mut / into_mut')
    def m_occ_get(I, st, f, args, fr):
        mr, idx = _occ(I, st, args[0])
        return I.ret(st, Ref(mr.cell, mr.path + (idx, 1), not f.endswith('::get')))

    @M(r'(^|::)OccupiedEntry::<.*>::remove$', 'OccupiedEntry::remove')
    def m_occ_remove(I, st, f, args, fr):
        mr, idx = _occ(I, st, args[0])
        m = norm_coll(I.read(st, mr.cell, mr.path), 'HashMap')
        I.write(st, mr.cell, mr.path, Agg('HashMap', m.fields[:idx] + m.fields[idx + 1:]))
        return I.ret(st, m.fields[idx].fields[1])

    @M(r'(^|::)Entry::<.*>::or_default$', 'Entry::or_default (integer value types: 0)')
    def m_entry_or_default(I, st, f, args, fr):
        if 'dashmap' in f:
            return NotImplemented      # returns a RefMut, not &mut V (props/pgworld.py)
        e = args[0]
        if e.variant == 'Occupied':
            mr, idx = _occ(I, st, e.fields[0])
            return I.ret(st, Ref(mr.cell, mr.path + (idx, 1), True))
        mm = re.search(r'Entry::<.*, ([iu](?:8|16|32|64|128|size))>::or_default$', f)
        if not mm:
            raise Unmodelled('or_default for a non-integer value type: ' + f)
        ve = e.fields[0]
        mr, key = ve.fields
        m = norm_coll(I.read(st, mr.cell, mr.path), 'HashMap')
        I.write(st, mr.cell, mr.path, Agg('HashMap', m.fields + (Agg('()', (key, I.mk_int(0, mm.group(1)))),)))
        return I.ret(st, Ref(mr.cell, mr.path + (len(m.fields), 1), True))

    @M(r'^<(std::collections::)?(HashMap|BTreeMap)<.*> as (std::ops::)?Index<&.*>>::index$', 'HashMap[&key] (panics when absent)')
    def m_map_index(I, st, f, args, fr):
        r = args[0]
        m = norm_coll(I.read(st, r.cell, r.path), 'HashMap')
        key = rd(I, st, args[1])
        outs = []
        for s2, idx in map_find(I, st, m, key):
            if idx is None:
                outs.extend(panic(I, s2, 'key not found in map index'))
            else:
                outs.append(Outcome(s2, 'ret', Ref(r.cell, r.path + (idx, 1))))
        return outs

    @M(r'^HashMap::<.*>::contains_key(::<.*>)?$|^BTreeMap::<.*>::contains_key(::<.*>)?$|^HashSet::<.*>::contains(::<.*>)?$', 'contains_key')
    def m_map_contains(I, st, f, args, fr):
        r = args[0]
        m = norm_coll(I.read(st, r.cell, r.path), 'HashMap')
        key = rd(I, st, args[1])
        if m.ty == 'HashSet':
            m = Agg('HashMap', [Agg('()', (k, UNIT)) for k in m.fields])
        return [Outcome(s2, 'ret', z3.BoolVal(idx is not None)) for s2, idx in map_find(I, st, m, key)]

    @M(r'^HashSet::<.*>::insert$', 'HashSet::insert')
    def m_set_insert(I, st, f, args, fr):
        r = args[0]
        s_ = norm_coll(I.read(st, r.cell, r.path), 'HashSet')
        m = Agg('HashMap', [Agg('()', (k, UNIT)) for k in s_.fields])
        outs = []
        for s2, idx in map_find(I, st, m, args[1]):
            if idx is None:
                I.write(s2, r.cell, r.path, Agg('HashSet', s_.fields + (args[1],)))
            outs.append(Outcome(s2, 'ret', z3.BoolVal(idx is None)))
        return outs

    @M(r'^HashSet::<.*>::remove(::<.*>)?$', 'HashSet::remove')
    def m_set_remove(I, st, f, args, fr):
        r = args[0]
        s_ = norm_coll(I.read(st, r.cell, r.path), 'HashSet')
        m = Agg('HashMap', [Agg('()', (k, UNIT)) for k in s_.fields])
        outs = []
        for s2, idx in map_find(I, st, m, rd(I, st, args[1])):
            if idx is not None:
                I.write(s2, r.cell, r.path, Agg('HashSet', s_.fields[:idx] + s_.fields[idx + 1:]))
            outs.append(Outcome(s2, 'ret', z3.BoolVal(idx is not None)))
        return outs

    @M(r'^HashMap::<.*>::(values|values_mut)$', 'HashMap::values')
    def m_map_values(I, st, f, args, fr):
        r = args[0]
        m = norm_coll(I.read(st, r.cell, r.path), 'HashMap')
        return I.ret(st, mk_iter('list', Agg('()', [Ref(r.cell, r.path + (i, 1), f.endswith('_mut')) for i in range(len(m.fields))]), 0))

    @M(r'^HashMap::<.*>::keys$', 'HashMap::keys')
    def m_map_keys(I, st, f, args, fr):
        r = args[0]
        m = norm_coll(I.read(st, r.cell, r.path), 'HashMap')
        return I.ret(st, mk_iter('list', Agg('()', [Ref(r.cell, r.path + (i, 0)) for i in range(len(m.fields))]), 0))

    @M(r'^BTreeMap::<.*>::(pop_first|pop_last)$', 'BTreeMap::pop_first / pop_last (entries are kept in key order)')
    def m_btree_pop(I, st, f, args, fr):
        r = args[0]
        m = norm_coll(I.read(st, r.cell, r.path), 'BTreeMap')
        if not m.fields:
            return I.ret(st, NONE)
        first = f.endswith('pop_first')
        e = m.fields[0] if first else m.fields[-1]
        I.write(st, r.cell, r.path, Agg('BTreeMap', m.fields[1:] if first else m.fields[:-1]))
        return I.ret(st, some(Agg('()', (e.fields[0], e.fields[1]))))

    @M(r'^BTreeMap::<.*>::range(::<.*>)?$', 'BTreeMap::range (entries in key order within the bounds)')
    def m_btree_range(I, st, f, args, fr):
        r = args[0]
        m = norm_coll(I.read(st, r.cell, r.path), 'BTreeMap')
        b = args[1]
        if not (isinstance(b, Agg) and len(b.fields) == 2):
            raise Unmodelled('BTreeMap::range with %r' % (b,))

        def bound(x):
            name = x.variant if isinstance(x, Enum) else x.ty.split('::')[-1]
            return name, (x.fields[0] if x.fields else None)
        lo, hi = bound(b.fields[0]), bound(b.fields[1])
        if hi[0] != 'Unbounded':
            raise Unmodelled('BTreeMap::range upper bound ' + hi[0])
        outs = []
        cur = st
        # entries are sorted: the range starts at the first entry inside the lower bound
        for i, e in enumerate(m.fields):
            if lo[0] == 'Unbounded':
                inside = z3.BoolVal(True)
            else:
                lt, eq = cmp_terms(I, cur, lo[1], e.fields[0])
                inside = lt if lo[0] == 'Excluded' else z3.Or(lt, eq)
            nxt = None
            for s3, yes in branch(I, cur, inside):
                if yes:
                    items = [Agg('()', (Ref(r.cell, r.path + (j, 0)), Ref(r.cell, r.path + (j, 1)))) for j in range(i, len(m.fields))]
                    outs.append(Outcome(s3, 'ret', mk_iter('list', Agg('()', items), 0)))
                else:
                    nxt = s3
            if nxt is None:
                return outs
            cur = nxt
        outs.append(Outcome(cur, 'ret', mk_iter('list', Agg('()', ()), 0)))
        return outs

    @M(r'^HashMap::<.*>::(iter|iter_mut)$|^BTreeMap::<.*>::(iter|iter_mut)$', 'HashMap::iter')
    def m_map_iter(I, st, f, args, fr):
        return I.ret(st, as_iter(I, st, Ref(args[0].cell, args[0].path, f.endswith('_mut'))))

    @M(r'^HashMap::<.*>::into_values$', 'HashMap::into_values')
    def m_map_into_values(I, st, f, args, fr):
        m = norm_coll(args[0], 'HashMap')
        return I.ret(st, mk_iter('list', Agg('()', [p.fields[1] for p in m.fields]), 0))

    @M(r'^HashMap::<.*>::into_keys$', 'HashMap::into_keys')
    def m_map_into_keys(I, st, f, args, fr):
        m = norm_coll(args[0], 'HashMap')
        return I.ret(st, mk_iter('list', Agg('()', [p.fields[0] for p in m.fields]), 0))

    # ------------------------------------------------------------------ iterators
    @M(r'^<.* as IntoIterator>::into_iter$', 'IntoIterator::into_iter')
    def m_into_iter(I, st, f, args, fr):
        try:
            return I.ret(st, as_iter(I, st, args[0]))
        except Unmodelled as e:
            st.ghost['last_into_iter_error'] = str(e)
            return NotImplemented

    @M(r'^<.* as Iterator>::next$', 'Iterator::next')
    def m_next(I, st, f, args, fr):
        r = args[0]
        it = I.read(st, r.cell, r.path)
        if not (isinstance(it, Agg) and it.ty == 'It'):
            return NotImplemented
        outs = []
        for (s2, it2, item) in iter_next(I, st, it, fr):
            I.write(s2, r.cell, r.path, it2)
            outs.append(Outcome(s2, 'ret', NONE if item is None else some(item)))
        return outs

    def adaptor(kind):
        def fn(I, st, f, args, fr):
            it = as_iter(I, st, args[0])
            return I.ret(st, mk_iter(kind, it, *args[1:]))
        return fn
    for k in ('map', 'filter', 'filter_map'):
        M(r'^<.* as Iterator>::%s(::<.*>)?$' % k, 'Iterator::' + k)(adaptor(k))

    @M(r'^<.* as Iterator>::(cloned|copied)$', 'Iterator::cloned')
    def m_cloned(I, st, f, args, fr):
        return I.ret(st, mk_iter('cloned', as_iter(I, st, args[0])))

    @M(r'^<.* as Iterator>::enumerate$', 'Iterator::enumerate')
    def m_enum(I, st, f, args, fr):
        return I.ret(st, mk_iter('enumerate', as_iter(I, st, args[0]), 0))

    @M(r'^<.* as Iterator>::take$', 'Iterator::take')
    def m_take(I, st, f, args, fr):
        n = int_of(I, st, args[1]).concrete()
        if n is None:
            raise Unmodelled('symbolic take(n)')
        return I.ret(st, mk_iter('take', as_iter(I, st, args[0]), n))

    @M(r'^<.* as Iterator>::zip(::<.*>)?$', 'Iterator::zip (stops at the shorter side)')
    def m_zip(I, st, f, args, fr):
        return I.ret(st, mk_iter('zip', as_iter(I, st, args[0]), as_iter(I, st, args[1])))

    @M(r'^<.* as Iterator>::fold(::<.*>)?$', 'Iterator::fold')
    def m_fold(I, st, f, args, fr):
        outs = []
        for (s2, items) in drain_all(I, st, as_iter(I, st, args[0]), fr):
            states = [(s2, args[1])]
            for item in items:
                nxt = []
                for (s3, acc) in states:
                    ccell = s3.alloc(args[2])
                    for o in I.call_callable(s3, Ref(ccell, (), True), [acc, item], fr):
                        if o.kind != 'ret':
                            outs.append(o)
                        else:
                            nxt.append((o.st, o.val))
                states = nxt
            outs.extend(Outcome(s3, 'ret', acc) for (s3, acc) in states)
        return outs

    @M(r'^<.* as Iterator>::chain', 'Iterator::chain')
    def m_chain(I, st, f, args, fr):
        return I.ret(st, mk_iter('chain', as_iter(I, st, args[0]), as_iter(I, st, args[1])))

    @M(r'^<.* as Iterator>::rev$|^<.* as DoubleEndedIterator>::rev$', 'Iterator::rev (list-like sources)')
    def m_rev(I, st, f, args, fr):
        it = as_iter(I, st, args[0])
        if it.fields[0].s != 'list':
            raise Unmodelled('rev of a non-list iterator')
        rest = it.fields[1].fields[it.fields[2]:]
        return I.ret(st, mk_iter('list', Agg('()', tuple(reversed(rest))), 0))

    @M(r'^<.* as Iterator>::collect::<(Vec|VecDeque|HashSet|HashMap)<', 'Iterator::collect')
    def m_collect(I, st, f, args, fr):
        kind = re.search(r'collect::<(Vec|VecDeque|HashSet|HashMap)<', f).group(1)
        outs = []
        for (s2, items) in drain_all(I, st, as_iter(I, st, args[0]), fr):
            if kind == 'HashMap':
                outs.append(Outcome(s2, 'ret', Agg('HashMap', items)))
            else:
                outs.append(Outcome(s2, 'ret', Agg(kind, items)))
        return outs

    @M(r'^<.* as Iterator>::(any|all)(::<.*>)?$', 'Iterator::any/all')
    def m_any(I, st, f, args, fr):
        is_any = re.search(r'::any(::<.*>)?$', f) is not None
        r = args[0]
        it0 = I.read(st, r.cell, r.path) if isinstance(r, Ref) else as_iter(I, st, r)
        if not (isinstance(it0, Agg) and it0.ty == 'It'):
            it0 = as_iter(I, st, r)
        work = [(st, it0)]
        outs = []
        while work:
            s, it = work.pop()
            for (s2, it2, item) in iter_next(I, s, it, fr):
                if item is None:
                    outs.append(Outcome(s2, 'ret', z3.BoolVal(not is_any)))
                    continue
                for o in I.call_callable(s2, args[1], [item], fr):
                    if o.kind != 'ret':
                        outs.append(o)
                        continue
                    for s3, yes in branch(I, o.st, I.as_bool(o.val)):
                        if yes == is_any:
                            outs.append(Outcome(s3, 'ret', z3.BoolVal(is_any)))
                        else:
                            work.append((s3, it2))
        return outs

    @M(r'^<.* as Iterator>::(find|find_map|position)(::<.*>)?$', 'Iterator::find/find_map/position')
    def m_find(I, st, f, args, fr):
        which = re.search(r'::(find|find_map|position)(::<.*>)?$', f).group(1)
        r = args[0]
        it0 = I.read(st, r.cell, r.path) if isinstance(r, Ref) else as_iter(I, st, r)
        if not (isinstance(it0, Agg) and it0.ty == 'It'):
            it0 = as_iter(I, st, r)
        work = [(st, it0, 0)]
        outs = []
        while work:
            s, it, n = work.pop()
            for (s2, it2, item) in iter_next(I, s, it, fr):
                if item is None:
                    outs.append(Outcome(s2, 'ret', NONE))
                    continue
                arg = item
                if which == 'find':
                    c = s2.alloc(item)
                    arg = Ref(c, ())
                for o in I.call_callable(s2, args[1], [arg], fr):
                    if o.kind != 'ret':
                        outs.append(o)
                        continue
                    if which == 'find_map':
                        if o.val.variant == 'Some':
                            outs.append(Outcome(o.st, 'ret', o.val))
                        else:
                            work.append((o.st, it2, n + 1))
                        continue
                    for s3, yes in branch(I, o.st, I.as_bool(o.val)):
                        if yes:
                            if isinstance(r, Ref):
                                I.write(s3, r.cell, r.path, it2)
                            outs.append(Outcome(s3, 'ret', some(item) if which == 'find' else some(I.mk_int(n, 'usize'))))
                        else:
                            work.append((s3, it2, n + 1))
        return outs

    @M(r'^<.* as Iterator>::count$', 'Iterator::count')
    def m_count(I, st, f, args, fr):
        return [Outcome(s2, 'ret', I.mk_int(len(items), 'usize')) for (s2, items) in drain_all(I, st, as_iter(I, st, args[0]), fr)]

    @M(r'^<.* as Iterator>::(min|max)$', 'Iterator::min/max')
    def m_min(I, st, f, args, fr):
        is_min = f.endswith('min')
        outs = []
        for (s2, items) in drain_all(I, st, as_iter(I, st, args[0]), fr):
            if not items:
                outs.append(Outcome(s2, 'ret', NONE))
                continue
            # fold with forks on comparisons of structured values; scalars use ite
            cur = [(s2, items[0])]
            for x in items[1:]:
                nxt = []
                for (s3, best) in cur:
                    lt, eq = cmp_terms(I, s3, x, best)
                    better = lt if is_min else z3.And(z3.Not(lt), z3.Not(eq)) if False else (lt if is_min else z3.Not(lt))
                    # max returns the last maximal element, min the first minimal one
                    if isinstance(x, Sc) and isinstance(best, Sc):
                        nxt.append((s3, Sc(z3.If(better, x.t, best.t), x.ty)))
                    else:
                        for s4, b in branch(I, s3, better):
                            nxt.append((s4, x if b else best))
                cur = nxt
            for (s3, best) in cur:
                outs.append(Outcome(s3, 'ret', some(best)))
        return outs

    @M(r'^<.* as Iterator>::(for_each)(::<.*>)?$', 'Iterator::for_each')
    def m_for_each(I, st, f, args, fr):
        work = [(st, as_iter(I, st, args[0]))]
        outs = []
        while work:
            s, it = work.pop()
            for (s2, it2, item) in iter_next(I, s, it, fr):
                if item is None:
                    outs.append(Outcome(s2, 'ret', UNIT))
                    continue
                for o in I.call_callable(s2, args[1], [item], fr):
                    if o.kind != 'ret':
                        outs.append(o)
                    else:
                        work.append((o.st, it2))
        return outs

    @M(r'^<.* as FnMut<.*>>::call_mut$|^<.* as Fn<.*>>::call$|^<.* as FnOnce<.*>>::call_once$', 'Fn*::call')
    def m_call(I, st, f, args, fr):
        tup = args[1]
        return I.call_callable(st, args[0], list(tup.fields) if isinstance(tup, Agg) else [tup], fr)

    @M(r'^<Range<.*> as Iterator>::next$', 'Range::next')
    def m_range_next(I, st, f, args, fr):
        r = args[0]
        rg = I.read(st, r.cell, r.path)
        if not (isinstance(rg, Agg) and rg.ty == 'Range'):
            return NotImplemented
        cur, end = rg.fields
        outs = []
        for s2, more in branch(I, st, I.binop('Lt', cur, end, st)):
            if more:
                I.write(s2, r.cell, r.path, Agg('Range', (I.binop('Add', cur, I.mk_int(1, cur.ty), s2), end)))
                outs.append(Outcome(s2, 'ret', some(cur)))
            else:
                outs.append(Outcome(s2, 'ret', NONE))
        return outs
