"""Value domain of the MIR symbolic interpreter.

All values are immutable. Integer scalars are `Sc(term, ty)`: a z3 term plus the Rust integer type name; the term is a
bit-vector (default) or a mathematical integer constrained to the type's range ("int mode", used where the code divides
128-bit quantities by symbolic divisors). Booleans are plain z3 Bool terms.
"""
import itertools
import z3

INT_BITS = {'u8': 8, 'u16': 16, 'u32': 32, 'u64': 64, 'u128': 128, 'usize': 64,
            'i8': 8, 'i16': 16, 'i32': 32, 'i64': 64, 'i128': 128, 'isize': 64, 'char': 32}


def is_int_ty(t):
    return t in INT_BITS


def signed(t):
    return t[0] == 'i'


_ids = itertools.count(1)


def fresh_id():
    return next(_ids)


class Sc:
    """integer scalar"""
    __slots__ = ('t', 'ty')

    def __init__(self, t, ty):
        self.t = t
        self.ty = ty

    def __repr__(self):
        return 'Sc(%s:%s)' % (z3.simplify(self.t) if not isinstance(self.t, int) else self.t, self.ty)

    def concrete(self):
        s = z3.simplify(self.t)
        if z3.is_bv_value(s) or z3.is_int_value(s):
            v = s.as_long()
            if signed(self.ty) and z3.is_bv_value(s):
                v = s.as_signed_long()
            return v
        return None


class Agg:
    """struct / tuple / closure captures"""
    __slots__ = ('ty', 'fields')

    def __init__(self, ty, fields):
        self.ty = ty
        self.fields = tuple(fields)

    def __repr__(self):
        return '%s{%s}' % (self.ty, ', '.join(map(repr, self.fields)))


class Enum:
    """enum value with a concrete variant"""
    __slots__ = ('ty', 'variant', 'discr', 'fields')

    def __init__(self, ty, variant, discr, fields=()):
        self.ty = ty
        self.variant = variant
        self.discr = discr
        self.fields = tuple(fields)

    def __repr__(self):
        return '%s::%s(%s)' % (self.ty, self.variant, ', '.join(map(repr, self.fields)))


class SymEnum:
    """field-less enum whose discriminant is a term (e.g. a status byte read from shared memory)"""
    __slots__ = ('ty', 'discr')

    def __init__(self, ty, discr):
        self.ty = ty
        self.discr = discr   # Sc

    def __repr__(self):
        return '%s::?(%r)' % (self.ty, self.discr)


class Ref:
    __slots__ = ('cell', 'path', 'mut')

    def __init__(self, cell, path=(), mut=False):
        self.cell = cell
        self.path = tuple(path)
        self.mut = mut

    def __repr__(self):
        return '&c%d%s' % (self.cell, ''.join('.%s' % (p,) for p in self.path))


class BoxV:
    """owning pointer (Box / Arc / Rc / Pin<Box>) to a heap cell"""
    __slots__ = ('cell', 'kind')

    def __init__(self, cell, kind='Box'):
        self.cell = cell
        self.kind = kind

    def __repr__(self):
        return '%s(c%d)' % (self.kind, self.cell)


class Opaque:
    """uninterpreted value with identity"""
    __slots__ = ('tag', 'ident', 'info')

    def __init__(self, tag, ident=None, info=None):
        self.tag = tag
        self.ident = ident if ident is not None else fresh_id()
        self.info = info

    def __repr__(self):
        return '<%s#%s>' % (self.tag, self.ident)


class Obj:
    """handle of a modelled library object (atomic, channel end, notify, mutex, map ...); state lives in State.objs"""
    __slots__ = ('kind', 'oid', 'role')

    def __init__(self, kind, oid, role=None):
        self.kind = kind
        self.oid = oid
        self.role = role

    def __repr__(self):
        return '%s@%s%s' % (self.kind, self.oid, ('/' + self.role) if self.role else '')


class Coro:
    """coroutine / async block state machine"""
    __slots__ = ('defname', 'state', 'upvars', 'saved', 'cid')

    def __init__(self, defname, state, upvars, saved=None, cid=None):
        self.defname = defname
        self.state = state
        self.upvars = tuple(upvars)
        self.saved = dict(saved or {})
        self.cid = cid if cid is not None else fresh_id()

    def __repr__(self):
        return 'Coro(%s @%d)' % (self.defname[-50:], self.state)


class FnItem:
    __slots__ = ('path',)

    def __init__(self, path):
        self.path = path

    def __repr__(self):
        return 'fn{%s}' % self.path


class Str:
    __slots__ = ('s',)

    def __init__(self, s):
        self.s = s

    def __repr__(self):
        return 'Str(%r)' % self.s


class Uninit:
    def __repr__(self):
        return 'UNINIT'


UNINIT = Uninit()
UNIT = Agg('()', ())


def is_unit(v):
    return isinstance(v, Agg) and not v.fields
