import importlib
import sys
import framework


def load(prop):
    return importlib.import_module(prop)


if __name__ == '__main__':
    framework.main(load)
