"""Produce (and cache by source hash) the nightly MIR dump of a crate of the repository under test."""
import hashlib
import os
import subprocess
import time

REPO = os.environ.get('VERIF_REPO', '/repo')
BUILD = os.environ.get('VERIF_BUILD', '/verif/.build')
GUARD = 'slawlor_ractor_verif'

import mirparse
import srcscan
from exec import Program


def source_hash(crate_dir, features):
    h = hashlib.sha256()
    h.update(('features:' + ','.join(sorted(features))).encode())
    paths = []
    for dp, dn, fn in os.walk(crate_dir):
        if '/target' in dp:
            continue
        for f in fn:
            if f.endswith(('.rs', '.toml', '.proto')):
                paths.append(os.path.join(dp, f))
    for extra in ('Cargo.lock', 'Cargo.toml'):
        paths.append(os.path.join(REPO, extra))
    # hook sources are part of the compiled crate when the guard is on
    for dp, dn, fn in os.walk('/verif/hooks'):
        for f in fn:
            paths.append(os.path.join(dp, f))
    for p in sorted(paths):
        if os.path.exists(p):
            h.update(p.encode())
            h.update(open(p, 'rb').read())
    return h.hexdigest()[:16]


def dump(crate, features=(), default_features=True, guard=True):
    """returns (path of MIR text, hash, seconds spent, cached?)"""
    crate_dir = os.path.join(REPO, crate)
    feats = tuple(sorted(features))
    tag = '%s-%s%s%s' % (crate, 'def' if default_features else 'nodef', ('-' + '+'.join(feats)) if feats else '', '' if guard else '-noguard')
    os.makedirs(BUILD, exist_ok=True)
    h = source_hash(crate_dir, feats + (('nodef',) if not default_features else ()) + (('noguard',) if not guard else ()))
    out = os.path.join(BUILD, 'mir-%s-%s.mir' % (tag, h))
    if os.path.exists(out) and os.path.getsize(out) > 0:
        return out, h, 0.0, True
    # several checks may want the same dump at once (parallel runs): one produces it, the others wait for the lock and reuse it
    import fcntl
    lock = open(os.path.join(BUILD, 'mir-%s.lock' % tag), 'w')
    fcntl.flock(lock, fcntl.LOCK_EX)
    try:
        if os.path.exists(out) and os.path.getsize(out) > 0:
            return out, h, 0.0, True
        return _dump_locked(crate_dir, tag, h, out, feats, default_features, guard)
    finally:
        fcntl.flock(lock, fcntl.LOCK_UN)
        lock.close()


def _dump_locked(crate_dir, tag, h, out, feats, default_features, guard):
    # remove stale dumps of the same tag
    import re
    for f in os.listdir(BUILD):
        if re.fullmatch(r'mir-%s-[0-9a-f]{16}\.mir' % re.escape(tag), f):
            os.remove(os.path.join(BUILD, f))
    env = dict(os.environ)
    env['CARGO_NET_OFFLINE'] = 'true'
    env['CARGO_TARGET_DIR'] = os.path.join(BUILD, 'target-mir')
    if guard:
        env['RUSTFLAGS'] = '--cfg ' + GUARD
    else:
        env.pop('RUSTFLAGS', None)
    cmd = ['cargo', '+nightly', 'rustc', '--offline', '--lib']
    if not default_features:
        cmd.append('--no-default-features')
    if feats:
        cmd += ['--features', ','.join(feats)]
    cmd += ['--', '-Zunpretty=mir', '-C', 'debug-assertions=off', '-C', 'overflow-checks=on']
    t0 = time.time()
    # touching lib.rs is not allowed (repo is read-only for checks): force re-run by a unique --cfg instead
    cmd += ['--cfg', 'verif_dump_%s_%d' % (h, int(time.time() * 1000))]
    tmp = out + '.%d.tmp' % os.getpid()
    with open(tmp, 'w') as fo:
        p = subprocess.run(cmd, cwd=crate_dir, env=env, stdout=fo, stderr=subprocess.PIPE, text=True)
    if p.returncode != 0 or os.path.getsize(tmp) == 0:
        err = p.stderr[-3000:]
        os.remove(tmp)
        raise RuntimeError('MIR dump failed for %s: %s' % (tag, err))
    os.rename(tmp, out)
    return out, h, time.time() - t0, False


def crate_features(crate, features, default_features):
    """effective feature set for cfg evaluation of the source scanner"""
    import re
    feats = set(features)
    toml = open(os.path.join(REPO, crate, 'Cargo.toml')).read()
    table = {}
    m = re.search(r'^\[features\](.*?)(^\[|\Z)', toml, re.S | re.M)
    if m:
        for ln in m.group(1).split('\n'):
            mm = re.match(r'^\s*([\w-]+)\s*=\s*\[(.*)\]', ln)
            if mm:
                table[mm.group(1)] = [x.strip().strip('"') for x in mm.group(2).split(',') if x.strip()]
    if default_features:
        feats.add('default')
    changed = True
    while changed:
        changed = False
        for f in list(feats):
            for d in table.get(f, []):
                if '/' in d or d.startswith('dep:'):
                    continue
                if d not in feats:
                    feats.add(d)
                    changed = True
    return feats


_programs = {}


def load(crate, features=(), default_features=True, guard=True):
    """parse + scan; returns (Program, info dict)"""
    key = (crate, tuple(sorted(features)), default_features, guard)
    if key in _programs:
        return _programs[key]
    path, h, secs, cached = dump(crate, features, default_features, guard)
    t0 = time.time()
    bodies, errs = mirparse.parse_file(path)
    feats = crate_features(crate, features, default_features)
    cr = srcscan.Crate(os.path.join(REPO, crate), features=feats, extra_cfg=(GUARD,) if guard else ())
    prog = Program(bodies, cr)
    info = {'crate': crate, 'features': sorted(feats), 'dump': path, 'dump_hash': h, 'dump_s': round(secs, 1), 'dump_cached': cached,
            'bodies': len(bodies), 'parse_errors': [(ln, e[:200]) for ln, e in errs], 'parse_s': round(time.time() - t0, 2)}
    prog.info = info
    prog.parse_errors = errs
    _programs[key] = (prog, info)
    return prog, info


def dump_external(name, src_dir, hash_crates=()):
    """MIR of a small crate kept under /verif (sources in src_dir: Cargo.toml.in with @REPO@ / @SRC@, src/lib.rs) that depends on the repository under test by
    path - used where the code to execute only exists after macro expansion (derive output). The cache key covers the crate's own sources and the sources of
    the repository crates named in hash_crates."""
    import shutil
    h = hashlib.sha256()
    for c in hash_crates:
        h.update(source_hash(os.path.join(REPO, c), ()).encode())
    for dp, dn, fn in os.walk(src_dir):
        for f in sorted(fn):
            h.update(open(os.path.join(dp, f), 'rb').read())
    h = h.hexdigest()[:16]
    os.makedirs(BUILD, exist_ok=True)
    out = os.path.join(BUILD, 'mir-ext-%s-%s.mir' % (name, h))
    if os.path.exists(out) and os.path.getsize(out) > 0:
        return out, h, 0.0, True
    import fcntl
    lock = open(os.path.join(BUILD, 'mir-ext-%s.lock' % name), 'w')
    fcntl.flock(lock, fcntl.LOCK_EX)
    try:
        if os.path.exists(out) and os.path.getsize(out) > 0:
            return out, h, 0.0, True
        import re
        for f in os.listdir(BUILD):
            if re.fullmatch(r'mir-ext-%s-[0-9a-f]{16}\.mir' % re.escape(name), f):
                os.remove(os.path.join(BUILD, f))
        d = os.path.join(BUILD, 'ext-' + name)
        os.makedirs(d, exist_ok=True)
        toml = open(os.path.join(src_dir, 'Cargo.toml.in')).read().replace('@REPO@', REPO).replace('@SRC@', os.path.join(src_dir, 'src'))
        open(os.path.join(d, 'Cargo.toml'), 'w').write(toml)
        shutil.copy(os.path.join(REPO, 'Cargo.lock'), os.path.join(d, 'Cargo.lock'))
        env = dict(os.environ)
        env['CARGO_NET_OFFLINE'] = 'true'
        env['CARGO_TARGET_DIR'] = os.path.join(BUILD, 'target-mir-ext')
        env.pop('RUSTFLAGS', None)
        cmd = ['cargo', '+nightly', 'rustc', '--offline', '--lib', '--', '-Zunpretty=mir', '-C', 'debug-assertions=off', '-C', 'overflow-checks=on',
               '--cfg', 'verif_dump_%s_%d' % (h, int(time.time() * 1000))]
        t0 = time.time()
        tmp = out + '.%d.tmp' % os.getpid()
        with open(tmp, 'w') as fo:
            p = subprocess.run(cmd, cwd=d, env=env, stdout=fo, stderr=subprocess.PIPE, text=True)
        if p.returncode != 0 or os.path.getsize(tmp) == 0:
            err = p.stderr[-3000:]
            os.remove(tmp)
            raise RuntimeError('MIR dump failed for %s: %s' % (name, err))
        os.rename(tmp, out)
        return out, h, time.time() - t0, False
    finally:
        fcntl.flock(lock, fcntl.LOCK_UN)
        lock.close()
