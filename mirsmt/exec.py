"""Path-forking symbolic interpreter for MIR bodies parsed by mirparse.

Calls are resolved as: crate body (interpreted) | model (catalogue, models.py) | allow-listed effect-free call | UNMODELLED.
An UNMODELLED call, an unparsable construct or an exceeded bound never counts as a pass: the driver maps them to exit 2.
"""
import os
import re
import time
import z3

from mirparse import Place, Operand, Rvalue, ParseError, split_top, scan, ALLOC_STATICS
from values import *


class Unmodelled(Exception):
    pass


class Inconclusive(Exception):
    pass


# ----------------------------------------------------------------------------------------------
# name handling
# ----------------------------------------------------------------------------------------------
def strip_generics(s):
    """remove `::<...>` turbofish and `<...>` argument lists that directly follow an identifier; keep leading
    `<T as Trait>` qualification brackets (they start a path segment)"""
    out = []
    i = 0
    n = len(s)
    while i < n:
        c = s[i]
        if c == '<':
            prev = s[i - 1] if i > 0 else ''
            is_qual = (i == 0) or prev in ' (,&<' or s[max(0, i - 2):i] == '::' and False
            # turbofish "::<" or generic list after identifier
            if s[max(0, i - 2):i] == '::' and not _qual_follows(s, i):
                # drop the '::' already emitted
                if out[-2:] == [':', ':']:
                    out.pop()
                    out.pop()
                i = _skip_angle(s, i)
                continue
            if prev and (prev.isalnum() or prev == '_'):
                i = _skip_angle(s, i)
                continue
            # qualification: keep but strip generics inside recursively
            j = _skip_angle(s, i)
            inner = s[i + 1:j - 1]
            out.append('<' + strip_generics(inner) + '>')
            i = j
            continue
        out.append(c)
        i += 1
    return ''.join(out)


def _qual_follows(s, i):
    """is the '<' at s[i] (preceded by '::') a `<impl at ...>` / `<T as X>` path segment rather than a turbofish?"""
    return s.startswith('<impl at ', i)


def _skip_angle(s, i):
    depth = 0
    n = len(s)
    while i < n:
        c = s[i]
        if c == '<':
            depth += 1
        elif c == '>' and s[i - 1] not in '-=':
            depth -= 1
            if depth == 0:
                return i + 1
        i += 1
    return n


EXTERNAL_ROOTS = {'tokio', 'std', 'core', 'alloc', 'futures', 'futures_util', 'dashmap', 'once_cell', 'tracing', 'tracing_core', 'bon', 'strum', 'rand', 'prost', 'sha2',
                  'bytes', 'tokio_rustls', 'rustls', 'socket2', 'hashbrown', 'async_trait', 'serde', 'pot'}
_QUAL_PATH = re.compile(r' as (?:[A-Za-z_]\w*::)+')
_WRAPPER_TY = re.compile(r'^(std::mem::ManuallyDrop<|std::mem::MaybeDangling<|std::ptr::Unique<|std::ptr::NonNull<|std::mem::MaybeUninit<|core::mem::ManuallyDrop<)')
STD_DERIVES = ('Debug', 'Clone', 'Copy', 'PartialEq', 'Eq', 'PartialOrd', 'Ord', 'Hash', 'Default')


def strip_lifetimes(t):
    return re.sub(r"'\w+\s*,?\s*", '', t)


def _type_shape(t):
    """type text with module paths removed and generic arguments blanked: `(a::Sender<T>, b::Duration)` -> `(Sender<_>,Duration)`"""
    t = _TRIM_MODS.sub('', t.replace(' ', ''))
    out, depth = [], 0
    for c in t:
        if c == '<':
            if depth == 0:
                out.append('<_>')
            depth += 1
        elif c == '>':
            depth -= 1
        elif depth == 0:
            out.append(c)
    return ''.join(out)


_TRIM_MODS = re.compile(r'(?<![\w:])(?:[a-z_][a-z0-9_]*::)+(?=[A-Z])')
_IMPL_AT = re.compile(r'<impl at ([^:>]+):(\d+):(\d+): (\d+):(\d+)>')


class Program:
    """parsed bodies + source facts + name resolution"""

    def __init__(self, bodies, crate):
        self.bodies = bodies
        self.crate = crate
        self.by_last = {}
        self.closure_by_type = {}
        self.drop_impls = {}      # self type last segment -> body
        self.impl_of = {}         # body name -> impl info
        self.const_cache = {}
        for name, b in bodies.items():
            base = name.split('~')[0]
            segs = self._segments(base)
            self.by_last.setdefault(segs[-1], []).append(b)
            m = _IMPL_AT.search(base)
            if m:
                info = crate.impl_info(m.group(1), int(m.group(2)), int(m.group(3)), int(m.group(4)), int(m.group(5)))
                self.impl_of[name] = info
                if info and info['trait'] == 'Drop' and segs[-1] == 'drop' and base.endswith('>::drop'):
                    self.drop_impls[info['self_ty']] = b
            if b.kind == 'fn' and b.args:
                t0 = b.args[0][1]
                mm = re.match(r'^(&mut |&)?(\{(closure|coroutine)@[^}]*\})$', t0)
                if mm:
                    self.closure_by_type.setdefault(_closure_key(mm.group(2)), []).append(b)
                mm = re.match(r'^Pin<&mut (\{.*\})>$', t0)
                if mm:
                    self.closure_by_type.setdefault(_closure_key(mm.group(1)), []).append(b)
        self.closures_restored = self.fix_truncated_closure_aggregates()
        self.macro_closures_resolved = self.resolve_macro_closures()

    @staticmethod
    def _capture_count(cb):
        texts = [cb.header] + list(cb.debug.values()) + [st_.text for bl in cb.blocks.values() for st_ in bl.stmts] + [bl.term.text for bl in cb.blocks.values() if bl.term is not None]
        ks = [int(k) for t in texts for k in re.findall(r'\(\*?_1\)?\.(\d+):', t)] + [int(k) for t in texts for k in re.findall(r'\(_1\.(\d+):', t)]
        return (max(ks) + 1) if ks else 0

    def resolve_macro_closures(self):
        """closures generated by one macro invocation share one source span, so `{closure@file:l:c: l:c}` names several bodies of one parent. Inside a
        parent they are told apart statically: the capturing closures / async blocks are paired, in order, with the aggregate statements that create them
        (rustc numbers `{closure#N}` in source order and lowers the statements in source order; the pairing is accepted only if kinds, capture names and
        counts agree for every pair); a captureless closure passed as `const ZeroSized` is chosen by the argument types named in the callee's generics, and
        where several remain they must be textually identical bodies. The resolved body name is appended to the type text after a NUL."""
        from mirparse import Rvalue, Operand
        fixed = 0
        for body in self.bodies.values():
            base = body.name.split('~')[0]
            sites = {}
            for bi in sorted(body.blocks):
                blk = body.blocks[bi]
                for i, s in enumerate(blk.stmts):
                    rv = s.rvalue
                    if s.kind == 'assign' and rv is not None and rv.kind == 'aggregate' and str(rv.args[0]).startswith(('{closure@', '{coroutine@')) and '\x00' not in str(rv.args[0]):
                        sites.setdefault(_closure_key(rv.args[0]), []).append((bi, i, s))
            for key, lst in sites.items():
                cands = [b for b in (self.closure_by_type.get(key) or []) if re.fullmatch(re.escape(base) + r'::\{closure#\d+\}', b.name.split('~')[0])]
                if len(cands) <= 1:
                    continue
                def num(b):
                    return int(re.search(r'\{closure#(\d+)\}$', b.name.split('~')[0]).group(1))
                def is_coro(b):
                    return b.args and b.args[0][1].startswith('Pin<&mut ')
                capturing = sorted([b for b in cands if is_coro(b) or self._capture_count(b) > 0], key=num)
                if len(capturing) != len(lst):
                    continue
                okk = True
                for (bi, i, s), b in zip(lst, capturing):
                    rv = s.rvalue
                    if str(rv.args[0]).startswith('{coroutine@') != bool(is_coro(b)):
                        okk = False
                    names = [n for (n, _) in rv.args[2]] if rv.args[1] == 'named' else []
                    if not is_coro(b):
                        dbg = [n for n, pl in b.debug.items() if re.search(r'\(\*?_1\)?\.\d+:|\(_1\.\d+:', pl)]
                        if dbg and names and set(dbg) != set(names):
                            okk = False
                        if names and self._capture_count(b) != len(names):
                            okk = False
                if not okk:
                    continue
                for (bi, i, s), b in zip(lst, capturing):
                    rv = s.rvalue
                    s.rvalue = Rvalue('aggregate', (str(rv.args[0]) + '\x00' + b.name, rv.args[1], rv.args[2]))
                    fixed += 1
            # captureless closures handed over as constants
            for bi in sorted(body.blocks):
                t = body.blocks[bi].term
                if t is None or t.kind != 'call' or not isinstance(t.func, str):
                    continue
                new_args = []
                changed = False
                for a in t.args:
                    c = getattr(a, 'const', None)
                    if a.kind == 'const' and c and c.startswith('ZeroSized: {closure@') and '\x00' not in c:
                        key = _closure_key(c[11:])
                        cands = [b for b in (self.closure_by_type.get(key) or []) if re.fullmatch(re.escape(base) + r'::\{closure#\d+\}', b.name.split('~')[0])]
                        cands = [b for b in cands if not b.args[0][1].startswith('Pin<&mut ') and self._capture_count(b) == 0]
                        if len(cands) > 1:
                            def fits(b):
                                return all(ty in t.func or (len(_last_seg(ty)) > 2 and re.search(r'\b' + re.escape(_last_seg(ty)) + r'\b', t.func)) for (_, ty) in b.args[1:])
                            sel = [b for b in cands if fits(b)]
                            if sel and len({repr(sorted((k, [x.text for x in v.stmts], v.term.text) for k, v in b.blocks.items())) + repr([ty for _, ty in b.args[1:]]) for b in sel}) == 1:
                                new_args.append(Operand('const', None, c + '\x00' + sel[0].name))
                                changed = True
                                fixed += 1
                                continue
                    new_args.append(a)
                if changed:
                    t.args = tuple(new_args)
        return fixed

    def fix_truncated_closure_aggregates(self):
        """rustc's MIR printer zips the *root* captured variables' names with the closure aggregate's operands and drops the operands beyond them
        (edition-2021 disjoint captures: `{closure@..} { self: move _28, worker_hint: move _29 }` for a closure with four captured places). The
        missing operands are the temporaries assigned right before the aggregate; they are restored when - and only when - the listed ones are
        a prefix of those temporaries and the closure body uses exactly that many captures."""
        from mirparse import Rvalue, Operand, Place
        fixed = 0
        for body in self.bodies.values():
            for blk in body.blocks.values():
                for i, s in enumerate(blk.stmts):
                    rv = s.rvalue
                    if s.kind != 'assign' or rv is None or rv.kind != 'aggregate' or not str(rv.args[0]).startswith('{closure@') or rv.args[1] != 'named':
                        continue
                    cands = self.closure_by_type.get(_closure_key(rv.args[0])) or []
                    if len(cands) > 1:
                        base = body.name.split('~')[0]
                        cands = [b for b in cands if b.name.split('~')[0].startswith(base + '::{closure#')] or cands
                    if not cands:
                        continue
                    cb = cands[0]
                    texts = [cb.header] + list(cb.debug.values()) + [st_.text for bl in cb.blocks.values() for st_ in bl.stmts] + [bl.term.text for bl in cb.blocks.values() if bl.term is not None]
                    ks = [int(k) for t in texts for k in re.findall(r'\(\*?_1\)?\.(\d+):', t)] + [int(k) for t in texts for k in re.findall(r'\(_1\.(\d+):', t)]
                    if not ks:
                        continue
                    n = max(ks) + 1
                    items = rv.args[2]
                    if len(items) >= n:
                        continue
                    prev = []
                    j = i - 1
                    while j >= 0 and len(prev) < n:
                        ps = blk.stmts[j]
                        if ps.kind == 'assign' and ps.place is not None and not ps.place.proj:
                            prev.append(ps.place.local)
                        elif ps.kind != 'nop':
                            break
                        j -= 1
                    prev.reverse()
                    listed = [op.place.local if op.place is not None and not op.place.proj else None for (_, op) in items]
                    if len(prev) == n and prev[:len(listed)] == listed:
                        new_items = tuple(('up%d' % k, Operand('move', Place(loc, ()), None)) for k, loc in enumerate(prev))
                        s.rvalue = Rvalue('aggregate', (rv.args[0], rv.args[1], new_items))
                        fixed += 1
        return fixed

    @staticmethod
    def _segments(name):
        segs = []
        i = 0
        start = 0
        n = len(name)
        while i < n:
            j = scan(name, i, ':')
            if j >= n:
                break
            if name.startswith('::', j):
                segs.append(name[start:j])
                i = j + 2
                start = i
            else:
                i = j + 1
        segs.append(name[start:])
        return segs

    def find_fn(self, text):
        """resolve the printed callee path to a crate body or None"""
        canon = strip_generics(text)
        segs = self._segments(canon)
        last = segs[-1]
        cands = [b for b in self.by_last.get(last, []) if b.kind == 'fn']
        if not cands:
            return None
        if canon.startswith('<'):
            m = re.match(r'^<(.*) as ([^>]*)>$', segs[0]) if len(segs) >= 2 else None
            if not m:
                # `<impl Foo>::bar`  or <T>::f
                return None
            self_last = _last_seg(m.group(1))
            trait_last = _last_seg(m.group(2))
            out = []
            for b in cands:
                info = self.impl_of.get(b.name)
                bsegs = self._segments(b.name.split('~')[0])
                if info and info['self_ty'] == self_last and info['trait'] == trait_last and bsegs[-len(segs) + 1:] == segs[1:]:
                    out.append(b)
            if len(out) == 1:
                return out[0]
            if len(out) > 1 and trait_last in ('From', 'TryFrom'):
                # several `impl From<X> for T`: tell them apart by the shape of X against the impl's argument type
                mm = re.search(r' as (?:\w+::)*(?:From|TryFrom)<(.*)>>::\w+$', text)
                if mm:
                    want = _type_shape(mm.group(1))
                    same = [b for b in out if len(b.args) == 1 and _type_shape(b.args[0][1]) == want]
                    if len(same) == 1:
                        return same[0]
            if len(out) > 1:
                return self._disamb(out, text)
            # impls generated by a custom derive (one span for several traits, e.g. prost::Enumeration => From / TryFrom): match on the signature
            if len(segs) == 2:
                mm = re.search(r' as (?:\w+::)*(?:From|TryFrom)<(.*)>>::\w+$', text) if trait_last in ('From', 'TryFrom') else None
                src_last = _last_seg(strip_generics(mm.group(1))) if mm else None
                word = re.compile(r'\b%s\b' % re.escape(self_last))
                for b in cands:
                    info = self.impl_of.get(b.name)
                    if not (info and info.get('derive') and info['trait'] not in STD_DERIVES):
                        continue
                    if trait_last in ('From', 'TryFrom'):
                        if len(b.args) == 1 and src_last and _last_seg(b.args[0][1].lstrip('&')) == src_last and word.search(b.ret):
                            out.append(b)
                    elif info['self_ty'] == self_last and (word.search(b.ret) or any(word.search(t) for _, t in b.args)):
                        out.append(b)
                if len(out) == 1:
                    return out[0]
            return None
        # type-relative or free path
        if segs[0] in EXTERNAL_ROOTS:
            return None
        out = []
        owner = segs[-2] if len(segs) >= 2 else None
        for b in cands:
            base = b.name.split('~')[0]
            bsegs = self._segments(strip_generics(base))
            info = self.impl_of.get(b.name)
            if info:
                # method in an impl block: compare owner type and the trailing closure segments
                k = len(bsegs) - 1
                while k >= 0 and not bsegs[k].startswith('<impl at'):
                    k -= 1
                tail = bsegs[k + 1:]
                if segs[-len(tail):] == tail and len(segs) > len(tail) and _last_seg(segs[-len(tail) - 1]) == info['self_ty'] and info['trait'] is None:
                    out.append(b)
                elif segs[-len(tail):] == tail and len(segs) > len(tail) and _last_seg(segs[-len(tail) - 1]) == info['self_ty']:
                    out.append(b)
            else:
                # free function / trait default method: suffix match on '::' boundaries
                if _suffix(bsegs, segs) or _suffix(segs, bsegs):
                    out.append(b)
        if len(out) == 1:
            return out[0]
        if len(out) > 1:
            exact = [b for b in out if not self.impl_of.get(b.name) and self._segments(strip_generics(b.name.split('~')[0])) == segs]
            if len({b.name.split('~')[0] for b in exact}) == 1:
                return exact[0]
            return self._disamb(out, text)
        return None

    def _disamb(self, out, text):
        # a type-relative path (`Type::method`) that matched both a method of `Type` and a free function of the same name
        # (suffix rule) means the method
        meth = [b for b in out if self.impl_of.get(b.name)]
        if meth and len(meth) < len(out):
            out = meth
            if len(out) == 1:
                return out[0]
        # prefer inherent impls, then the first by name; callers can pass hints through text
        inh = [b for b in out if (self.impl_of.get(b.name) or {}).get('trait') is None]
        if len(inh) == 1:
            return inh[0]
        # identical duplicates (#2 suffix) -- e.g. callsite statics -- pick the first
        names = {b.name.split('~')[0] for b in out}
        if len(names) == 1:
            return out[0]
        raise Unmodelled('ambiguous callee %s: %s' % (text, [b.name for b in out][:4]))

    def rescan_impls(self):
        """after sources were added to the crate scanner (generated files): resolve the impl spans that were unknown before"""
        for name, b in self.bodies.items():
            if self.impl_of.get(name) is None:
                base = name.split('~')[0]
                m = _IMPL_AT.search(base)
                if m:
                    info = self.crate.impl_info(m.group(1), int(m.group(2)), int(m.group(3)), int(m.group(4)), int(m.group(5)))
                    self.impl_of[name] = info
                    segs = self._segments(base)
                    if info and info['trait'] == 'Drop' and segs[-1] == 'drop' and base.endswith('>::drop'):
                        self.drop_impls[info['self_ty']] = b

    def find_closure(self, ty_text):
        if '\x00' in ty_text:
            b = self.bodies.get(ty_text.split('\x00', 1)[1])
            return [b] if b is not None else None
        c = self.closure_by_type.get(_closure_key(ty_text))
        if not c:
            return None
        return c


def _closure_key(t):
    m = re.match(r'^\{(closure|coroutine|async block|async closure|async fn body)@([^ }]+:\d+:\d+: \d+:\d+)', t)
    return m.group(2) if m else t


def _suffix(a, b):
    """is list a a suffix of list b"""
    return len(a) <= len(b) and b[len(b) - len(a):] == a


def _last_seg(ty):
    ty = strip_generics(ty.strip())
    ty = re.sub(r'^(&mut |&|dyn )', '', ty)
    return ty.split('::')[-1]


# ----------------------------------------------------------------------------------------------
# machine state
# ----------------------------------------------------------------------------------------------
class State:
    __slots__ = ('cells', 'objs', 'pc', 'trace', 'notes', 'depth', 'ghost')

    def __init__(self):
        self.cells = {}
        self.objs = {}
        self.pc = []
        self.trace = []
        self.notes = []
        self.depth = 0
        self.ghost = {}

    def fork(self):
        s = State()
        s.cells = dict(self.cells)
        s.objs = dict(self.objs)
        s.pc = list(self.pc)
        s.trace = list(self.trace)
        s.notes = list(self.notes)
        s.depth = self.depth
        s.ghost = dict(self.ghost)
        return s

    def alloc(self, v):
        c = fresh_id()
        self.cells[c] = v
        return c

    def new_obj(self, kind, state, role=None):
        oid = fresh_id()
        self.objs[oid] = state
        return Obj(kind, oid, role)

    def assume(self, cond):
        self.pc.append(cond)

    def emit(self, *ev):
        self.trace.append(tuple(ev))


class Outcome:
    __slots__ = ('st', 'kind', 'val')

    def __init__(self, st, kind, val=None):
        self.st = st
        self.kind = kind      # 'ret' | 'unwind' | 'abort' | 'trunc' | 'diverge'
        self.val = val

    def __repr__(self):
        return 'Outcome(%s, %r)' % (self.kind, self.val)


class Frame:
    __slots__ = ('body', 'locals')

    def __init__(self, body):
        self.body = body
        self.locals = {}


# ----------------------------------------------------------------------------------------------
STD_ENUMS = {
    'Option': [('None', 0), ('Some', 1)],
    'Result': [('Ok', 0), ('Err', 1)],
    'Poll': [('Ready', 0), ('Pending', 1)],
    'ControlFlow': [('Continue', 0), ('Break', 1)],
    'Ordering': [('Less', -1), ('Equal', 0), ('Greater', 1)],
    'Entry': [('Occupied', 0), ('Vacant', 1)],
    'Bound': [('Included', 0), ('Excluded', 1), ('Unbounded', 2)],
    'Cow': [('Borrowed', 0), ('Owned', 1)],
    'TryRecvError': [('Empty', 0), ('Disconnected', 1)],   # tokio mpsc: Empty, Disconnected
    'Either': [('Left', 0), ('Right', 1)],
}
ATOMIC_ORDERINGS = ('Relaxed', 'Release', 'Acquire', 'AcqRel', 'SeqCst')


class Interp:
    def __init__(self, program, mode='bv', loop_bound=4, max_paths=20000, call_depth=60):
        self.prog = program
        self.mode = mode
        self.loop_bound = loop_bound
        self.max_paths = max_paths
        self.call_depth = call_depth
        self.models = []          # list of (regex, fn)
        self.allow = []           # list of regex  (effect free, returns opaque/unit)
        self.solver = z3.Solver()
        self.stats = {'paths': 0, 'feas_queries': 0, 'solver_s': 0.0, 'calls_inlined': set(), 'models_used': set(),
                      'allow_used': set(), 'blocks': 0}
        self.hooks = {}           # name -> callable (property specific overrides), checked before models
        self.statics = {}         # static name -> cell id (shared by all states: created lazily in initial state only)
        self.override = []        # (regex, fn) property-specific call overrides
        self.seed = 0
        self.feas_timeout_ms = 5000
        self.deadline = time.time() + float(os.environ.get('VERIF_EXPLORE_LIMIT_S', '900' if os.environ.get('VERIF_TIER', 'quick') == 'quick' else '3600'))
        self.merge_pure = True
        self.event_mode = False
        self.cur_tid = 0
        self.objinfo = {}
        self.type_drops = {}

    # ------------------------------------------------------------------ scalars
    def mk_int(self, v, ty):
        bits = INT_BITS[ty]
        if self.mode == 'int':
            return Sc(z3.IntVal(v), ty)
        return Sc(z3.BitVecVal(v, bits), ty)

    def fresh_int(self, name, ty, st=None):
        bits = INT_BITS[ty]
        nm = '%s!%d' % (name, fresh_id())
        if self.mode == 'int':
            t = z3.Int(nm)
            if st is not None:
                lo, hi = self.ty_range(ty)
                st.assume(z3.And(t >= lo, t <= hi))
            return Sc(t, ty)
        return Sc(z3.BitVec(nm, bits), ty)

    def fresh_bool(self, name):
        return z3.Bool('%s!%d' % (name, fresh_id()))

    @staticmethod
    def ty_range(ty):
        bits = INT_BITS[ty]
        if signed(ty):
            return -(1 << (bits - 1)), (1 << (bits - 1)) - 1
        return 0, (1 << bits) - 1

    def cast_int(self, v, ty):
        """IntToInt cast"""
        if isinstance(v, (z3.BoolRef,)):
            one, zero = self.mk_int(1, ty), self.mk_int(0, ty)
            return Sc(z3.If(v, one.t, zero.t), ty)
        if isinstance(v, SymEnum):
            v = v.discr
        if isinstance(v, Enum):
            v = self.mk_int(v.discr, 'isize')
        sb, db = INT_BITS[v.ty], INT_BITS[ty]
        if self.mode == 'int':
            lo, hi = self.ty_range(ty)
            slo, shi = self.ty_range(v.ty)
            if slo >= lo and shi <= hi:
                return Sc(v.t, ty)
            m = 1 << db
            r = v.t % m
            if signed(ty):
                r = z3.If(r >= (1 << (db - 1)), r - m, r)
            return Sc(r, ty)
        if db == sb:
            return Sc(v.t, ty)
        if db < sb:
            return Sc(z3.Extract(db - 1, 0, v.t), ty)
        if signed(v.ty):
            return Sc(z3.SignExt(db - sb, v.t), ty)
        return Sc(z3.ZeroExt(db - sb, v.t), ty)

    def binop(self, op, a, b, st):
        # booleans
        if isinstance(a, z3.BoolRef) or isinstance(b, z3.BoolRef):
            a = self.as_bool(a)
            b = self.as_bool(b)
            if op == 'Eq':
                return a == b
            if op == 'Ne':
                return a != b
            if op == 'BitAnd':
                return z3.And(a, b)
            if op == 'BitOr':
                return z3.Or(a, b)
            if op == 'BitXor':
                return z3.Xor(a, b)
            if op in ('Lt', 'Le', 'Gt', 'Ge'):
                ai, bi = z3.If(a, 1, 0), z3.If(b, 1, 0)
                return {'Lt': ai < bi, 'Le': ai <= bi, 'Gt': ai > bi, 'Ge': ai >= bi}[op]
            raise Unmodelled('bool binop ' + op)
        if isinstance(a, SymEnum):
            a = a.discr
        if isinstance(b, SymEnum):
            b = b.discr
        if not isinstance(a, Sc) or not isinstance(b, Sc):
            # pointer / opaque equality
            if op in ('Eq', 'Ne'):
                same = self.same_value(a, b)
                return z3.BoolVal(same if op == 'Eq' else not same)
            raise Unmodelled('binop %s on %r %r' % (op, a, b))
        ty = a.ty
        sg = signed(ty)
        bits = INT_BITS[ty]
        x, y = a.t, b.t
        if self.mode == 'int':
            return self._binop_int(op, x, y, ty, b.ty, st)
        if op in ('Shl', 'Shr', 'ShlUnchecked', 'ShrUnchecked') and INT_BITS[b.ty] != bits:
            y = self.cast_int(Sc(y, 'u' + str(INT_BITS[b.ty]) if not signed(b.ty) else b.ty), ty if not sg else ty).t
            if y.size() != bits:
                y = z3.ZeroExt(bits - y.size(), y) if y.size() < bits else z3.Extract(bits - 1, 0, y)
        if op in ('Add', 'AddUnchecked'):
            return Sc(x + y, ty)
        if op in ('Sub', 'SubUnchecked'):
            return Sc(x - y, ty)
        if op in ('Mul', 'MulUnchecked'):
            return Sc(x * y, ty)
        if op == 'Div':
            return Sc(x / y if sg else z3.UDiv(x, y), ty)
        if op == 'Rem':
            return Sc(z3.SRem(x, y) if sg else z3.URem(x, y), ty)
        if op == 'BitAnd':
            return Sc(x & y, ty)
        if op == 'BitOr':
            return Sc(x | y, ty)
        if op == 'BitXor':
            return Sc(x ^ y, ty)
        if op in ('Shl', 'ShlUnchecked'):
            return Sc(x << y, ty)
        if op in ('Shr', 'ShrUnchecked'):
            return Sc(x >> y if sg else z3.LShR(x, y), ty)
        if op == 'Eq':
            return x == y
        if op == 'Ne':
            return x != y
        if op == 'Lt':
            return x < y if sg else z3.ULT(x, y)
        if op == 'Le':
            return x <= y if sg else z3.ULE(x, y)
        if op == 'Gt':
            return x > y if sg else z3.UGT(x, y)
        if op == 'Ge':
            return x >= y if sg else z3.UGE(x, y)
        if op == 'Cmp':
            lt = x < y if sg else z3.ULT(x, y)
            return ('cmp', lt, x == y)
        if op == 'AddWithOverflow':
            r = x + y
            ov = z3.Not(z3.BVAddNoOverflow(x, y, sg))
            if sg:
                ov = z3.Or(ov, z3.Not(z3.BVAddNoUnderflow(x, y)))
            return Agg('(int,bool)', (Sc(r, ty), ov))
        if op == 'SubWithOverflow':
            r = x - y
            if sg:
                ov = z3.Or(z3.Not(z3.BVSubNoOverflow(x, y)), z3.Not(z3.BVSubNoUnderflow(x, y, True)))
            else:
                ov = z3.ULT(x, y)
            return Agg('(int,bool)', (Sc(r, ty), ov))
        if op == 'MulWithOverflow':
            r = x * y
            ov = z3.Not(z3.BVMulNoOverflow(x, y, sg))
            if sg:
                ov = z3.Or(ov, z3.Not(z3.BVMulNoUnderflow(x, y)))
            return Agg('(int,bool)', (Sc(r, ty), ov))
        raise Unmodelled('binop ' + op)

    def _binop_int(self, op, x, y, ty, ty2, st):
        lo, hi = self.ty_range(ty)
        m = hi - lo + 1

        def wrap(r):
            if signed(ty):
                w = (r - lo) % m + lo
            else:
                w = r % m
            return Sc(w, ty)

        def wrap1(r, over, under):
            # one-step wrap (sum/difference of two in-range numbers)
            return Sc(z3.If(over, r - m, z3.If(under, r + m, r)), ty)

        if op in ('Add', 'AddUnchecked'):
            r = x + y
            return wrap1(r, r > hi, r < lo)
        if op in ('Sub', 'SubUnchecked'):
            r = x - y
            return wrap1(r, r > hi, r < lo)
        if op in ('Mul', 'MulUnchecked'):
            return wrap(x * y)
        if op == 'Div':
            if signed(ty):
                raise Unmodelled('signed Div in int mode')
            return Sc(x / y, ty)
        if op == 'Rem':
            if signed(ty):
                raise Unmodelled('signed Rem in int mode')
            return Sc(x % y, ty)
        if op == 'Eq':
            return x == y
        if op == 'Ne':
            return x != y
        if op == 'Lt':
            return x < y
        if op == 'Le':
            return x <= y
        if op == 'Gt':
            return x > y
        if op == 'Ge':
            return x >= y
        if op == 'Cmp':
            return ('cmp', x < y, x == y)
        if op == 'AddWithOverflow':
            r = x + y
            return Agg('(int,bool)', (wrap1(r, r > hi, r < lo), z3.Or(r > hi, r < lo)))
        if op == 'SubWithOverflow':
            r = x - y
            return Agg('(int,bool)', (wrap1(r, r > hi, r < lo), z3.Or(r > hi, r < lo)))
        if op == 'MulWithOverflow':
            r = x * y
            return Agg('(int,bool)', (wrap(r), z3.Or(r > hi, r < lo)))
        raise Unmodelled('binop %s in int mode' % op)

    def as_bool(self, v):
        if isinstance(v, z3.BoolRef):
            return v
        if isinstance(v, bool):
            return z3.BoolVal(v)
        if isinstance(v, Sc):
            return v.t != 0
        raise Unmodelled('as_bool %r' % (v,))

    def same_value(self, a, b):
        if isinstance(a, Opaque) and isinstance(b, Opaque):
            return a.ident == b.ident
        if isinstance(a, Ref) and isinstance(b, Ref):
            return a.cell == b.cell and a.path == b.path
        if isinstance(a, BoxV) and isinstance(b, BoxV):
            return a.cell == b.cell
        if isinstance(a, Obj) and isinstance(b, Obj):
            return a.oid == b.oid
        raise Unmodelled('identity comparison of %r and %r' % (a, b))

    # ------------------------------------------------------------------ feasibility
    def feasible(self, st, cond=None):
        c = z3.simplify(cond) if cond is not None else None
        if c is not None:
            if z3.is_true(c):
                return True if not st.pc else True
            if z3.is_false(c):
                return False
        t0 = time.time()
        self.stats['feas_queries'] += 1
        s = self.solver
        s.set('timeout', self.feas_timeout_ms)
        s.push()
        for p in st.pc:
            s.add(p)
        if c is not None:
            s.add(c)
        r = s.check()
        s.pop()
        self.stats['solver_s'] += time.time() - t0
        if r == z3.unknown:
            # over-approximate: keep the path. Its obligations still carry the full path condition, so an
            # infeasible path can only add (vacuously true) obligations, never hide or invent a violation.
            self.stats['feas_unknown'] = self.stats.get('feas_unknown', 0) + 1
            return True
        return r == z3.sat

    # ------------------------------------------------------------------ memory
    def read(self, st, cell, path):
        v = st.cells.get(cell, UNINIT)
        for p in path:
            v = self.project(st, v, p)
        return v

    def project(self, st, v, p):
        if isinstance(p, tuple) and p[0] == 'v':
            # downcast: no-op on the value, remembered by caller for Coro
            if isinstance(v, Coro):
                return ('corovariant', v, p[1])
            if isinstance(v, Enum):
                if not self._variant_matches(v, p[1]):
                    raise Inconclusive('downcast to %s of %r' % (p[1], v))
            return v
        if isinstance(v, tuple) and v and v[0] == 'corovariant':
            co, var = v[1], v[2]
            return co.saved.get((var, p), UNINIT)
        if isinstance(v, (Agg, Enum)):
            if isinstance(p, int):
                if p < len(v.fields):
                    return v.fields[p]
                return UNINIT
        if isinstance(v, Coro) and isinstance(p, int):
            return v.upvars[p] if p < len(v.upvars) else UNINIT
        if isinstance(v, Uninit):
            return UNINIT
        if isinstance(v, Opaque):
            # lazily materialised field of an opaque value: stable per (ident, path)
            key = ('opaque_field', v.ident, p)
            if key not in st.ghost:
                st.ghost[key] = Opaque(v.tag + '.' + str(p), info=('fieldof', v, p))
            return st.ghost[key]
        if isinstance(p, tuple) and p[0] == 'i':
            if isinstance(v, Agg):
                return v.fields[p[1]]
        raise Unmodelled('project %r on %r' % (p, v))

    @staticmethod
    def _variant_matches(v, name):
        if name.startswith('variant#'):
            return True
        return v.variant == name or v.variant is None

    def write(self, st, cell, path, val):
        if not path:
            st.cells[cell] = val
            return
        st.cells[cell] = self._write_into(st, st.cells.get(cell, UNINIT), path, val)

    def _write_into(self, st, v, path, val):
        if not path:
            return val
        p = path[0]
        rest = path[1:]
        if isinstance(p, tuple) and p[0] == 'v':
            if isinstance(v, Coro):
                # next element is the saved-field index
                idx = rest[0]
                old = v.saved.get((p[1], idx), UNINIT)
                nv = self._write_into(st, old, rest[1:], val)
                saved = dict(v.saved)
                saved[(p[1], idx)] = nv
                return Coro(v.defname, v.state, v.upvars, saved, v.cid)
            if isinstance(v, Uninit):
                v = Enum(None, p[1], None, ())
            return self._write_into(st, v, rest, val)
        if isinstance(p, tuple) and p[0] == 'i':
            p = p[1]
        if isinstance(v, Agg):
            f = list(v.fields)
            while len(f) <= p:
                f.append(UNINIT)
            f[p] = self._write_into(st, f[p], rest, val)
            return Agg(v.ty, f)
        if isinstance(v, Enum):
            f = list(v.fields)
            while len(f) <= p:
                f.append(UNINIT)
            f[p] = self._write_into(st, f[p], rest, val)
            return Enum(v.ty, v.variant, v.discr, f)
        if isinstance(v, Coro):
            f = list(v.upvars)
            while len(f) <= p:
                f.append(UNINIT)
            f[p] = self._write_into(st, f[p], rest, val)
            return Coro(v.defname, v.state, f, v.saved, v.cid)
        if isinstance(v, Uninit):
            f = [UNINIT] * (p + 1)
            f[p] = self._write_into(st, UNINIT, rest, val)
            return Agg(None, f)
        if isinstance(v, Opaque):
            # writing a field of an opaque value: record as ghost field
            key = ('opaque_field', v.ident, p)
            st.ghost[key] = self._write_into(st, st.ghost.get(key, UNINIT), rest, val)
            return v
        raise Unmodelled('write %r into %r' % (path, v))

    def lvalue(self, st, fr, place):
        """(cell, path) of a MIR place"""
        if place.local not in fr.locals:
            fr.locals[place.local] = st.alloc(UNINIT)
        cell = fr.locals[place.local]
        path = ()
        prev_wrapper = False
        for pr in place.proj:
            k = pr[0]
            if k == 'field':
                # std wrapper types that are transparent in this value model (Box internals, MaybeUninit, ManuallyDrop ...)
                is_wrapper = _WRAPPER_TY.match(pr[2]) is not None
                if is_wrapper or prev_wrapper:
                    prev_wrapper = is_wrapper
                    continue
            prev_wrapper = False
            if k == 'deref':
                v = self.read(st, cell, path)
                if isinstance(v, Ref):
                    cell, path = v.cell, v.path
                elif isinstance(v, BoxV):
                    cell, path = v.cell, ()
                elif isinstance(v, Agg) and v.ty and v.ty.startswith('Pin') and v.fields and isinstance(v.fields[0], (Ref, BoxV)):
                    r = v.fields[0]
                    cell, path = r.cell, (r.path if isinstance(r, Ref) else ())
                else:
                    raise Unmodelled('deref of %r in %s (%s)' % (v, fr.body.name, place))
            elif k == 'field':
                path = path + (pr[1],)
            elif k == 'downcast':
                path = path + (('v', pr[1]),)
            elif k == 'index':
                iv = self.read(st, fr.locals[pr[1]], ())
                c = iv.concrete() if isinstance(iv, Sc) else None
                if c is None:
                    raise Unmodelled('symbolic index in %s' % fr.body.name)
                path = path + (('i', c),)
            elif k == 'constidx':
                if pr[2]:
                    arr = self.read(st, cell, path)
                    path = path + (('i', len(arr.fields) - pr[1]),)
                else:
                    path = path + (('i', pr[1]),)
            else:
                raise Unmodelled('projection ' + k)
        return cell, path

    # ------------------------------------------------------------------ operands / constants
    def operand(self, st, fr, op, want_ty=None):
        if op.kind in ('copy', 'move'):
            cell, path = self.lvalue(st, fr, op.place)
            v = self.read(st, cell, path)
            if isinstance(v, tuple) and v and v[0] == 'corovariant':
                raise Unmodelled('read of a bare coroutine variant')
            if op.kind == 'move' and not op.place.proj:
                pass   # leave the value in place: MIR never reads a moved-from local before re-initialising it
            return v
        return self.constant(st, fr, op.const, want_ty)

    _INT_CONST = re.compile(r'^(-?[0-9_]+)_(u8|u16|u32|u64|u128|usize|i8|i16|i32|i64|i128|isize)$')

    def constant(self, st, fr, c, want_ty=None):
        m = self._INT_CONST.match(c)
        if m:
            return self.mk_int(int(m.group(1).replace('_', '')), m.group(2))
        if c == 'true':
            return z3.BoolVal(True)
        if c == 'false':
            return z3.BoolVal(False)
        if c == '()':
            return UNIT
        if c.startswith('"'):
            return Str(_unescape(c[1:-1]))
        if c.startswith('b"'):
            return Str(c[2:-1])
        if c.startswith("'"):
            return self.mk_int(ord(_unescape(c[1:-1])), 'char')
        if c.startswith('ZeroSized: '):
            return self.zst(c[11:], fr)
        if c.startswith('fnitem '):
            return FnItem(c[7:])
        if c.startswith('{alloc'):
            m = re.match(r'^\{(alloc\d+)(?:<imm>)?: (.*)\}$', c)
            if m:
                sname = ALLOC_STATICS.get(m.group(1))
                key = sname or m.group(1)
                return self.static_ref(st, key, m.group(2))
        # float constants etc.
        m = re.match(r'^(-?[0-9.eE+-]+)(f32|f64)$', c)
        if m:
            return Opaque('float:' + c, ident='float:' + c)
        return self.named_const(st, fr, c)

    def zst(self, ty, fr=None):
        ty = ty.strip()
        if ty.startswith('{closure@') or ty.startswith('{coroutine@'):
            return Agg(self.closure_ty(fr, ty) if ty.startswith('{closure@') else ty, ())
        if ty.startswith('fn(') or ty.startswith('for<'):
            # fn item type: `fn(A) -> B {path}`
            j = ty.rfind('{')
            return FnItem(ty[j + 1:-1])
        if ty.startswith('PhantomData'):
            return Agg('PhantomData', ())
        return Agg(_last_seg(ty), ())

    def static_ref(self, st, key, ty):
        gk = ('static', key)
        if gk not in st.ghost:
            init = self.static_init(st, key, ty)
            st.ghost[gk] = st.alloc(init)
        return Ref(st.ghost[gk], ())

    def static_init(self, st, key, ty):
        h = self.hooks.get('static_init')
        if h:
            v = h(self, st, key, ty)
            if v is not None:
                return v
        return Opaque('static:' + key, ident='static:' + key)

    STD_CONSTS = {
        'core::num::<impl usize>::MAX': ((1 << 64) - 1, 'usize'), 'core::num::<impl u64>::MAX': ((1 << 64) - 1, 'u64'),
        'core::num::<impl u32>::MAX': ((1 << 32) - 1, 'u32'), 'core::num::<impl u16>::MAX': ((1 << 16) - 1, 'u16'),
        'core::num::<impl u8>::MAX': (255, 'u8'), 'core::num::<impl u128>::MAX': ((1 << 128) - 1, 'u128'),
        'core::num::<impl isize>::MAX': ((1 << 63) - 1, 'isize'), 'core::num::<impl i64>::MAX': ((1 << 63) - 1, 'i64'),
        'core::num::<impl i32>::MAX': ((1 << 31) - 1, 'i32'), 'core::num::<impl usize>::MIN': (0, 'usize'),
        'core::num::<impl u64>::MIN': (0, 'u64'), 'core::num::<impl usize>::BITS': (64, 'u32'),
        'core::num::<impl u64>::BITS': (64, 'u32'), 'core::num::<impl u32>::BITS': (32, 'u32'),
        'core::num::<impl isize>::MIN': (-(1 << 63), 'isize'), 'core::num::<impl i64>::MIN': (-(1 << 63), 'i64'),
    }

    def named_const(self, st, fr, c):
        h = self.hooks.get('named_const')
        if h:
            r = h(self, st, c)
            if r is not None:
                return r
        if c in self.STD_CONSTS:
            v, ty = self.STD_CONSTS[c]
            return self.mk_int(v, ty)
        if c.startswith(('tracing::', 'tracing_core::')):
            return Opaque('const:' + c, ident='const:' + c)
        h = self.hooks.get('const')
        if h:
            v = h(self, st, c)
            if v is not None:
                return v
        canon = strip_generics(c)
        # own promoted
        m = re.search(r'::promoted\[(\d+)\]$', canon)
        if m and fr is not None:
            name = fr.body.name.split('~')[0] + '::promoted[%s]' % m.group(1)
            cands = [b for n, b in self.prog.bodies.items() if n.split('~')[0] == name]
            # duplicates with #k suffix belong to duplicate bodies (same name); pick by owner identity
            if fr.body.name.find('~') >= 0:
                suffix = fr.body.name[fr.body.name.find('~'):]
                c2 = [b for b in cands if b.name.endswith(suffix)]
                cands = c2 or cands
            if cands:
                return self.eval_const_body(st, cands[0])
        # enum unit variant / unit struct printed as const
        segs = Program._segments(canon)
        if len(segs) >= 2:
            ed = self.enum_def(segs[-2], segs[-1])
            if ed:
                for (vn, d) in ed:
                    if vn == segs[-1]:
                        return Enum(_last_seg(segs[-2]), vn, d, ())
        # crate const body
        cands = []
        for b in self.prog.by_last.get(segs[-1], []):
            if b.kind in ('const',):
                bsegs = Program._segments(strip_generics(b.name.split('~')[0]))
                info = self.prog.impl_of.get(b.name)
                if info:
                    k = len(bsegs) - 1
                    while k >= 0 and not bsegs[k].startswith('<impl at'):
                        k -= 1
                    tail = bsegs[k + 1:]
                    if segs[-len(tail):] == tail and len(segs) > len(tail) and _last_seg(segs[-len(tail) - 1]) == info['self_ty']:
                        cands.append(b)
                elif _suffix(bsegs, segs) or _suffix(segs, bsegs):
                    cands.append(b)
        if len({b.name.split('~')[0] for b in cands}) > 1:
            raise Unmodelled('ambiguous constant %s: %s' % (c, [b.name for b in cands][:3]))
        if len(cands) >= 1:
            return self.eval_const_body(st, cands[0])
        sd = self.prog.crate.struct(segs[-1])
        if sd and not sd['fields']:
            return Agg(segs[-1], ())
        # `Enum::<..>::Variant(const)` printed as a constant
        mm = re.match(r'^(.*)::(\w+)\((.*)\)$', c)
        if mm and ',' not in mm.group(3):
            hsegs = Program._segments(strip_generics(mm.group(1)))
            ed = self.enum_def(hsegs[-1], mm.group(2))
            if ed:
                for (vn, d) in ed:
                    if vn == mm.group(2):
                        inner = self.constant(st, fr, mm.group(3).strip()) if mm.group(3).strip() else None
                        return Enum(_last_seg(hsegs[-1]), vn, d, (inner,) if inner is not None else ())
        raise Unmodelled('constant ' + c)

    def eval_const_body(self, st, b):
        if b.value is not None and not b.blocks:
            return self.constant(st, None, b.value.replace('const ', '', 1) if b.value.startswith('const ') else b.value)
        outs = self.run_body(st, b, [])
        outs = [o for o in outs if o.kind == 'ret']
        if len(outs) != 1:
            raise Unmodelled('const body with %d outcomes: %s' % (len(outs), b.name))
        # const evaluation has no side effects we care about; values may reference cells of st (same state object)
        if outs[0].st is not st:
            st.cells.update(outs[0].st.cells)
        return outs[0].val

    def enum_src(self, tyname, variant=None):
        """source definition of a crate enum; several enums of the same name (e.g. prost `Msg` oneofs) are told apart by the variant"""
        last = _last_seg(tyname)
        defs = self.prog.crate.enums.get(last, [])
        if len(defs) > 1 and variant is not None:
            have = [d for d in defs if any(v[0] == variant for v in d['variants'])]
            if len(have) == 1:
                return have[0]
            if len(have) > 1:
                sig = {tuple(v for v in d['variants'] if v[0] == variant)[0][1:] for d in have}
                if len(sig) == 1:
                    return have[0]
                raise Inconclusive('enum %s::%s is ambiguous between %s' % (last, variant, [d['file'] for d in have]))
            return None
        return self.prog.crate.enum(last)

    def enum_def(self, tyname, variant=None):
        """list of (variant name, discr) or None"""
        last = _last_seg(tyname)
        if last in STD_ENUMS:
            return STD_ENUMS[last]
        d = self.enum_src(last, variant)
        if d:
            return [(v[0], v[1]) for v in d['variants']]
        return None

    # ------------------------------------------------------------------ rvalues
    def rvalue(self, st, fr, rv, dest_ty):
        k = rv.kind
        a = rv.args
        if k == 'use':
            return self.operand(st, fr, a[0], dest_ty)
        if k == 'ref' or k == 'rawptr':
            cell, path = self.lvalue(st, fr, a[0])
            return Ref(cell, path, a[1])
        if k == 'binop':
            x = self.operand(st, fr, a[1])
            y = self.operand(st, fr, a[2])
            r = self.binop(a[0], x, y, st)
            if isinstance(r, tuple) and r[0] == 'cmp':
                return ('ordering', r[1], r[2])
            return r
        if k == 'unop':
            x = self.operand(st, fr, a[1])
            if a[0] == 'Not':
                if isinstance(x, z3.BoolRef):
                    return z3.Not(x)
                if self.mode == 'int':
                    raise Unmodelled('bitwise Not in int mode')
                return Sc(~x.t, x.ty)
            if a[0] == 'Neg':
                if self.mode == 'int':
                    return Sc(-x.t, x.ty)
                return Sc(-x.t, x.ty)
            if a[0] == 'PtrMetadata':
                return self.hooks['ptr_metadata'](self, st, x) if 'ptr_metadata' in self.hooks else self._ptr_meta(st, x)
            raise Unmodelled('unop ' + a[0])
        if k == 'discr':
            cell, path = self.lvalue(st, fr, a[0])
            v = self.read(st, cell, path)
            ty = dest_ty if dest_ty in INT_BITS else 'isize'
            if isinstance(v, Enum):
                if v.discr is None:
                    raise Unmodelled('discriminant of partially built enum')
                return self.mk_int(v.discr, ty)
            if isinstance(v, SymEnum):
                return self.cast_int(v.discr, ty)
            if isinstance(v, Coro):
                return self.mk_int(v.state, ty)
            if isinstance(v, tuple) and v and v[0] == 'ordering':
                return Sc(z3.If(v[1], self.mk_int(-1, ty).t, z3.If(v[2], self.mk_int(0, ty).t, self.mk_int(1, ty).t)), ty)
            raise Unmodelled('discriminant of %r in %s' % (v, fr.body.name))
        if k == 'cast':
            v = self.operand(st, fr, a[0])
            ty, kind = a[1], a[2]
            if kind == 'IntToInt':
                if ty in INT_BITS:
                    return self.cast_int(v, ty)
                if ty == 'bool':
                    return self.as_bool(v)
                raise Unmodelled('IntToInt to ' + ty)
            if kind.startswith('PointerCoercion') or kind in ('Transmute', 'Subtype', 'PtrToPtr', 'FnPtrToPtr'):
                if kind == 'Transmute' and ty in INT_BITS and isinstance(v, Sc) and INT_BITS[v.ty] == INT_BITS[ty]:
                    return Sc(v.t, ty)
                return v
            raise Unmodelled('cast kind ' + kind)
        if k == 'tuple':
            return Agg('()', [self.operand(st, fr, o) for o in a])
        if k == 'array':
            return Agg('[]', [self.operand(st, fr, o) for o in a])
        if k == 'repeat':
            v = self.operand(st, fr, a[0])
            n = self.constant(st, fr, a[1]) if not a[1].isdigit() else None
            cnt = int(a[1]) if a[1].isdigit() else (n.concrete() if isinstance(n, Sc) else None)
            if cnt is None or cnt > getattr(self, 'max_repeat', 64):
                raise Unmodelled('repeat count ' + a[1])
            return Agg('[]', [v] * cnt)
        if k == 'len':
            cell, path = self.lvalue(st, fr, a[0])
            v = self.read(st, cell, path)
            return self.mk_int(len(v.fields), 'usize')
        if k == 'aggregate':
            return self.aggregate(st, fr, a[0], a[1], a[2], dest_ty)
        if k == 'shallowbox':
            return self.operand(st, fr, a[0])
        if k == 'nullop':
            if a[0] in ('UbChecks', 'ContractChecks', 'OverflowChecks'):
                return z3.BoolVal(False)
            raise Unmodelled('nullop ' + a[0])
        raise Unmodelled('rvalue ' + k)

    def _ptr_meta(self, st, x):
        if isinstance(x, Ref):
            v = self.read(st, x.cell, x.path)
            if isinstance(v, Agg):
                return self.mk_int(len(v.fields), 'usize')
            if isinstance(v, Str):
                return self.mk_int(len(v.s), 'usize')
        raise Unmodelled('PtrMetadata of %r' % (x,))

    def aggregate(self, st, fr, path, form, items, dest_ty=None):
        if path.startswith('{coroutine@') or path.startswith('{closure@'):
            vals = [self.operand(st, fr, o) for (_, o) in items] if form == 'named' else []
            if path.startswith('{coroutine@'):
                cands = self.prog.find_closure(path)
                if not cands:
                    # `async fn`: the resume function is the constructor's {closure#0}
                    nm = fr.body.name.split('~')[0] + '::{closure#0}'
                    suffix = fr.body.name[len(fr.body.name.split('~')[0]):]
                    b = self.prog.bodies.get(nm + suffix) or self.prog.bodies.get(nm)
                    cands = [b] if b is not None else []
                if cands and len(cands) > 1:
                    own = [b for b in cands if b.name.startswith(fr.body.name.split('~')[0] + '::{closure#')]
                    cands = own or cands
                defname = cands[0].name if cands else path
                return Coro(defname, 0, vals)
            return Agg(self.closure_ty(fr, path), vals)
        canon = strip_generics(path)
        segs = Program._segments(canon)
        last = segs[-1]
        if len(segs) == 1 and dest_ty and not self.prog.crate.struct(last):
            # rustc prints a variant whose name is unique in scope without its enum (`Cast { .. }`): the destination's type names the enum
            dl = _last_seg(dest_ty)
            ed0 = self.enum_def(dl, last) if dl and dl not in STD_ENUMS else None
            if ed0 and any(vn == last for (vn, _) in ed0):
                segs = [dl, last]
        if len(segs) >= 3 and segs[-2] == 'Out' and segs[-3] == '__tokio_select_util':
            # enum generated by tokio::select!: Out<_0, .., _{n-1}> { _0(_0), .., Disabled }
            vals = [self.operand(st, fr, o) for o in items] if form == 'tuple' else []
            if last == 'Disabled':
                m = re.search(r'Out::<(.*)>::Disabled$', path)
                from models_std import split_top_types
                d = len(split_top_types(m.group(1))) if m else None
            else:
                d = int(last[1:])
            return Enum('Out', last, d, vals)
        if form == 'named':
            vals_by_name = [(n, self.operand(st, fr, o)) for (n, o) in items]
        else:
            vals_by_name = [(str(i), self.operand(st, fr, o)) for i, o in enumerate(items)]
        # enum variant?
        if len(segs) >= 2:
            ed = self.enum_def(segs[-2], last)
            if ed:
                for (vn, d) in ed:
                    if vn == last:
                        fields = self._order_fields(segs[-2], vn, vals_by_name)
                        return Enum(_last_seg(segs[-2]), vn, d, fields)
            if ed is None and _last_seg(segs[-2])[:1].isupper():
                # variant of an enum defined in another crate (`Type::Variant`): fields in MIR (= declaration) order; its discriminant is unknown
                return Enum(_last_seg(segs[-2]), last, None, [v for _, v in vals_by_name])
        sd = self.prog.crate.struct(last)
        if sd and form == 'named':
            order = sd['fields']
            d = dict(vals_by_name)
            if set(order) != set(d):
                # mismatch between scanned struct and MIR aggregate: fail closed
                raise Inconclusive('struct %s: source fields %s vs MIR fields %s' % (last, order, list(d)))
            return Agg(last, [d[n] for n in order])
        if form == 'named':
            # std struct literal with named fields: keep MIR order (declaration order is what rustc prints)
            return Agg(last, [v for _, v in vals_by_name])
        return Agg(last, [v for _, v in vals_by_name])

    def closure_ty(self, fr, path):
        """closures created by macros share one source span: disambiguate by the creating body (closure bodies are named
        `<creator>::{closure#N}`)"""
        if '\x00' in path:
            return path
        cands = self.prog.closure_by_type.get(_closure_key(path)) or []
        if len(cands) > 1 and fr is not None:
            base = fr.body.name.split('~')[0]
            own = [b for b in cands if b.name.split('~')[0].startswith(base + '::{closure#') and '::{closure#' not in b.name.split('~')[0][len(base) + 2 + len('{closure#'):]]
            if len(own) == 1:
                return path + '\x00' + own[0].name
            if len(own) > 1:
                raise Unmodelled('ambiguous closure %s created in %s' % (path[-60:], base))
        return path

    def _order_fields(self, enum_ty, variant, vals_by_name):
        d = self.enum_src(enum_ty, variant)
        if d:
            for (vn, _, kind, fields) in d['variants']:
                if vn == variant and kind == 'named':
                    m = dict(vals_by_name)
                    if set(fields) != set(m):
                        raise Inconclusive('enum %s::%s fields mismatch' % (enum_ty, variant))
                    return [m[f] for f in fields]
        return [v for _, v in vals_by_name]

    # ------------------------------------------------------------------ running bodies
    def run_body(self, st, body, args, ret_hint=None):
        """interpret `body` from its entry with the given argument values; returns a list of Outcomes"""
        if st.depth > self.call_depth:
            raise Inconclusive('call depth exceeded at ' + body.name)
        fr = Frame(body)
        for (loc, _ty), v in zip(body.args, args):
            fr.locals[loc] = st.alloc(v)
        st.depth += 1
        results = []
        work = [(st, fr, 0, {})]   # state, frame, block, visit counts
        while work:
            st, fr, bb, visits = work.pop()
            if self.stats['paths'] + len(work) > self.max_paths:
                raise Inconclusive('path budget exceeded in ' + body.name)
            if time.time() > self.deadline:
                raise Inconclusive('exploration time limit reached in ' + body.name)
            while True:
                visits = dict(visits)
                visits[bb] = visits.get(bb, 0) + 1
                if visits[bb] > self.loop_bound:
                    results.append(Outcome(st, 'trunc', 'loop bound in %s bb%d' % (body.name, bb)))
                    break
                blk = body.blocks[bb]
                self.stats['blocks'] += 1
                for s in blk.stmts:
                    self.stmt(st, fr, s)
                nxt = self.terminator(st, fr, blk.term, results, work, visits)
                if nxt is None:
                    break
                bb = nxt
        for o in results:
            o.st.depth -= 1
        return results

    def stmt(self, st, fr, s):
        if s.kind == 'nop':
            return
        if s.kind == 'assign':
            dty = self.place_type(fr.body, s.place)
            v = self.rvalue(st, fr, s.rvalue, dty)
            cell, path = self.lvalue(st, fr, s.place)
            self.write(st, cell, path, v)
            return
        if s.kind == 'setdiscr':
            cell, path = self.lvalue(st, fr, s.place)
            v = self.read(st, cell, path)
            if isinstance(v, Coro):
                self.write(st, cell, path, Coro(v.defname, s.value, v.upvars, v.saved, v.cid))
                return
            if isinstance(v, Enum):
                # find the variant name for this index
                self.write(st, cell, path, Enum(v.ty, v.variant, s.value if v.discr is None else v.discr, v.fields))
                return
            raise Unmodelled('SetDiscriminant on %r' % (v,))
        raise Unmodelled('stmt ' + s.kind)

    def place_type(self, body, place):
        if not place.proj:
            return body.locals.get(place.local)
        last = place.proj[-1]
        if last[0] == 'field':
            return last[2]
        return None

    def terminator(self, st, fr, t, results, work, visits):
        k = t.kind
        if k == 'goto':
            return t.target
        if k == 'return':
            v = self.read(st, fr.locals[0], ()) if 0 in fr.locals else UNIT
            self.stats['paths'] += 0
            results.append(Outcome(st, 'ret', v))
            return None
        if k == 'resume':
            results.append(Outcome(st, 'unwind', st.ghost.get('panic_payload')))
            return None
        if k == 'unreachable':
            # reaching `unreachable` means our model produced a value the compiler proved impossible
            raise Inconclusive('reached `unreachable` in %s' % fr.body.name)
        if k == 'terminate':
            results.append(Outcome(st, 'abort', 'terminate'))
            return None
        if k == 'switch':
            v = self.operand(st, fr, t.operand)
            if isinstance(v, z3.BoolRef):
                conds = []
                for (val, bb) in t.arms:
                    conds.append(((v if val else z3.Not(v)), bb))
                rest = z3.And([z3.Not(c) for c, _ in conds]) if conds else z3.BoolVal(True)
            else:
                if isinstance(v, SymEnum):
                    v = v.discr
                if isinstance(v, Enum):
                    v = self.mk_int(v.discr, 'isize')
                if not isinstance(v, Sc):
                    raise Unmodelled('switchInt on %r in %s' % (v, fr.body.name))
                conds = []
                for (val, bb) in t.arms:
                    lo, hi = self.ty_range(v.ty)
                    if val > hi and signed(v.ty):
                        val -= (1 << INT_BITS[v.ty])
                    conds.append((v.t == self.mk_int(val, v.ty).t, bb))
                rest = z3.And([z3.Not(c) for c, _ in conds]) if conds else z3.BoolVal(True)
            succ = []
            for c, bb in conds + ([(rest, t.target)] if t.target is not None else []):
                cs = z3.simplify(c)
                if z3.is_false(cs):
                    continue
                if z3.is_true(cs):
                    succ = [(None, bb)]
                    break
                succ.append((cs, bb))
            if len(succ) > 1:
                succ = [(c, bb) for (c, bb) in succ if self.feasible(st, c)]
            if not succ:
                # infeasible path (the path condition itself became unsat)
                return None
            for c, bb in succ[1:]:
                s2 = st.fork()
                f2 = self.fork_frame(fr)
                if c is not None:
                    s2.assume(c)
                work.append((s2, f2, bb, visits))
                self.stats['paths'] += 1
            c, bb = succ[0]
            if c is not None:
                st.assume(c)
            return bb
        if k == 'assert':
            v = self.as_bool(self.operand(st, fr, t.operand))
            ok = v if t.expected else z3.Not(v)
            oks = z3.simplify(ok)
            if z3.is_true(oks):
                return t.target
            can_fail = (not z3.is_true(oks)) and self.feasible(st, z3.Not(ok))
            can_pass = (not z3.is_false(oks)) and self.feasible(st, ok)
            if can_fail:
                s2 = st.fork()
                s2.assume(z3.Not(ok))
                s2.emit('PANIC', 'assert', t.msg, fr.body.name)
                s2.ghost['panic_payload'] = Opaque('panic:' + t.msg)
                f2 = self.fork_frame(fr) if can_pass else fr
                self.unwind_to(s2, f2, t.unwind, results, work, visits)
            if can_pass:
                st.assume(ok)
                return t.target
            return None
        if k == 'drop':
            cell, path = self.lvalue(st, fr, t.place)
            v = self.read(st, cell, path)
            outs = self.drop_value(st, v, Ref(cell, path, True))
            return self.continue_after(outs, fr, t, None, results, work, visits)
        if k == 'call':
            args = [self.operand(st, fr, a) for a in t.args]
            if isinstance(t.func, Operand):
                callee = self.operand(st, fr, t.func)
                outs = self.call_value(st, callee, args, fr)
            else:
                outs = self.call(st, t.func, args, fr)
            return self.continue_after(outs, fr, t, t.dest, results, work, visits)
        raise Unmodelled('terminator ' + k)

    def fork_frame(self, fr):
        f2 = Frame(fr.body)
        f2.locals = dict(fr.locals)
        return f2

    def continue_after(self, outs, fr, t, dest, results, work, visits):
        """distribute callee outcomes over the caller's return / unwind edges; returns next bb for the first one"""
        nxt = None
        first = True
        n_live = len(outs)
        for i, o in enumerate(outs):
            f = fr if i == n_live - 1 else self.fork_frame(fr)
            if o.kind == 'ret':
                if t.target is None:
                    # diverging callee returned?!
                    raise Inconclusive('diverging call returned: ' + t.text[:80])
                if dest is not None:
                    cell, path = self.lvalue(o.st, f, dest)
                    self.write(o.st, cell, path, o.val)
                work.append((o.st, f, t.target, visits))
            elif o.kind == 'unwind':
                o.st.ghost['panic_payload'] = o.val if o.val is not None else o.st.ghost.get('panic_payload')
                self.unwind_to(o.st, f, t.unwind, results, work, visits)
            else:
                results.append(o)
        if len(outs) > 1:
            self.stats['paths'] += len(outs) - 1
        return None

    def unwind_to(self, st, fr, unwind, results, work, visits):
        if unwind is None or unwind == 'continue':
            results.append(Outcome(st, 'unwind', st.ghost.get('panic_payload')))
        elif unwind == 'terminate':
            results.append(Outcome(st, 'abort', 'panic in cleanup'))
        elif unwind == 'unreachable':
            raise Inconclusive('unwind unreachable taken')
        else:
            work.append((st, fr, unwind[1], visits))

    # ------------------------------------------------------------------ calls
    def call(self, st, func_text, args, fr=None):
        """returns list of Outcomes"""
        canon = strip_generics(func_text)
        # rustc prints "trimmed" paths whose length depends on which names are unique in the crate: also try the last two segments
        segs = Program._segments(canon)
        short = '::'.join(segs[-2:]) if len(segs) > 2 and not canon.startswith('<') else canon
        if ' as ' in func_text:
            # `<T as some::path::Trait<..>>::m` -> `<T as Trait<..>>::m` (the printed trait path depends on name uniqueness)
            short = _QUAL_PATH.sub(' as ', func_text)
        # rustc prints a path in full when its last name is not unique in the crate graph: also try the text with module prefixes removed
        trim = _TRIM_MODS.sub('', func_text)
        for rx, fn in self.override:
            if rx.search(func_text) or rx.search(short) or rx.search(trim):
                r = fn(self, st, func_text, args, fr)
                if r is not NotImplemented:
                    return r
        body = self.prog.find_fn(func_text)
        if body is not None:
            self.stats['calls_inlined'].add(body.name)
            if not self.merge_pure:
                return self.run_body(st, body, args)
            snap = (len(st.pc), len(st.trace), dict(st.cells), dict(st.objs), dict(st.ghost))
            outs = self.run_body(st, body, args)
            return self.try_merge(snap, outs)
        for rx, fn, label in self.models:
            if rx.search(canon) or rx.search(func_text) or rx.search(short) or rx.search(trim):
                self.stats['models_used'].add(label)
                r = fn(self, st, func_text, args, fr)
                if r is not NotImplemented:
                    return r
        for rx in self.allow:
            if rx.search(canon) or rx.search(func_text) or rx.search(short) or rx.search(trim):
                self.stats['allow_used'].add(rx.pattern)
                return [Outcome(st, 'ret', Opaque('allow:' + canon[:40]))]
        raise Unmodelled('call ' + func_text + ((' in ' + fr.body.name) if fr else ''))

    def try_merge(self, snap, outs):
        """state merging at call return. Outcomes that performed the same events (identical Event objects / trace entries),
        left memory in structurally identical shape and return structurally identical values are joined into one outcome whose
        path condition is the disjunction of the joined suffixes. Pure calls that only differ in a scalar / field-less enum
        result are joined with an if-then-else value. Keeps thread trees and path counts small; loses nothing (the disjunction is
        exactly the union of the joined paths)."""
        if len(outs) < 2:
            return outs
        npc, ntr, cells, objs, ghost = snap
        groups = {}
        order = []
        for o in outs:
            try:
                key = (o.kind, tuple(id(e[1]) if e[0] == 'EV' else val_key(e) for e in o.st.trace[ntr:]),
                       tuple((c, val_key(o.st.cells.get(c))) for c in cells if o.st.cells.get(c) is not cells[c]),
                       tuple((k, val_key(v)) for k, v in sorted(o.st.objs.items(), key=lambda kv: str(kv[0])) if objs.get(k) is not v),
                       tuple(sorted((str(k), val_key(v)) for k, v in o.st.ghost.items() if ghost.get(k) is not v)))
            except Unmodelled:
                key = ('nomerge', id(o))
            if key not in groups:
                groups[key] = []
                order.append(key)
            groups[key].append(o)
        res = []
        for key in order:
            g = groups[key]
            if len(g) == 1 or key[0] == 'nomerge':
                res.extend(g)
                continue
            # only the part of the path condition added after the last event of the callee may be joined: earlier entries are
            # shared by construction and are indexed by the events' recorded pc lengths
            base = npc
            for e in g[0].st.trace[ntr:]:
                if e[0] == 'EV':
                    base = max(base, e[2])
            if any(len(o.st.pc) < base or any(a is not b for a, b in zip(o.st.pc[npc:base], g[0].st.pc[npc:base])) for o in g):
                res.extend(g)
                continue
            merged_val = self._merge_values([o.val for o in g], [self._suffix(o, base) for o in g])
            if merged_val is None:
                # same effects but values that cannot be joined: keep separate
                sub = {}
                for o in g:
                    try:
                        vk = val_key(o.val)
                    except Unmodelled:
                        vk = id(o)
                    sub.setdefault(vk, []).append(o)
                for vk, gg in sub.items():
                    if len(gg) == 1:
                        res.extend(gg)
                    else:
                        st = gg[0].st
                        cond = z3.Or([self._suffix(o, base) for o in gg])
                        del st.pc[base:]
                        st.pc.append(z3.simplify(cond))
                        self.stats['merged_calls'] = self.stats.get('merged_calls', 0) + 1
                        res.append(Outcome(st, gg[0].kind, gg[0].val))
                continue
            st = g[0].st
            cond = z3.simplify(z3.Or([self._suffix(o, base) for o in g]))
            del st.pc[base:]
            if not z3.is_true(cond):
                st.pc.append(cond)
            self.stats['merged_calls'] = self.stats.get('merged_calls', 0) + 1
            res.append(Outcome(st, g[0].kind, merged_val))
        return res

    @staticmethod
    def _suffix(o, npc):
        return z3.And(o.st.pc[npc:]) if len(o.st.pc) > npc else z3.BoolVal(True)

    def _merge_values(self, vals, conds):
        v0 = vals[0]
        try:
            k0 = val_key(v0)
            if all(val_key(v) == k0 for v in vals[1:]):
                return v0
        except Unmodelled:
            return None
        if all(isinstance(v, Sc) and v.ty == v0.ty for v in vals):
            t = vals[-1].t
            for c, v in zip(reversed(conds[:-1]), reversed(vals[:-1])):
                t = z3.If(c, v.t, t)
            return Sc(t, v0.ty)
        if all(isinstance(v, z3.BoolRef) for v in vals):
            t = vals[-1]
            for c, v in zip(reversed(conds[:-1]), reversed(vals[:-1])):
                t = z3.If(c, v, t)
            return t
        if all(isinstance(v, Enum) and not v.fields and v.ty == v0.ty and v.discr is not None for v in vals) and self.enum_def(v0.ty or ''):
            t = self.mk_int(vals[-1].discr, 'isize').t
            for c, v in zip(reversed(conds[:-1]), reversed(vals[:-1])):
                t = z3.If(c, self.mk_int(v.discr, 'isize').t, t)
            return SymEnum(v0.ty, Sc(t, 'isize'))
        return None

    def shared_op(self, st, obj, opname, op, res_sorts, label=None, free=None, info=None):
        """operation on a modelled shared object: executes on State.objs (sequential mode) or emits an event whose results are
        fresh variables (event mode, see conc.py)"""
        if self.event_mode and obj.oid not in st.objs:
            from conc import Event
            res = {}
            for k, srt in res_sorts.items():
                nm = 'r%d_%s' % (fresh_id(), k)
                res[k] = z3.Bool(nm) if srt == 'bool' else z3.BitVec(nm, srt)
            ev = Event(obj.oid, opname, op, res, label or opname, free, info)
            st.trace.append(('EV', ev, len(st.pc)))
            return res
        state = st.objs[obj.oid]
        enabled, ns, res = op(state)
        en = z3.simplify(enabled)
        if not z3.is_true(en):
            if z3.is_false(en) or not self.feasible(st, en):
                raise Inconclusive('sequential run blocks forever on %s.%s' % (obj, opname))
            st.assume(en)
        st.objs[obj.oid] = {k: (z3.simplify(v) if isinstance(v, z3.ExprRef) else v) for k, v in ns.items()}
        st.emit('OP', obj.oid, opname)
        return {k: z3.simplify(res[k]) for k in res_sorts}

    def call_value(self, st, callee, args, fr=None):
        """call through a closure value / fn item"""
        if isinstance(callee, FnItem):
            return self.call_fnitem(st, callee, args, fr)
        if isinstance(callee, Agg) and callee.ty and callee.ty.startswith('{closure@'):
            return self.call_closure(st, callee, args, fr)
        if isinstance(callee, Ref):
            return self.call_value(st, self.read(st, callee.cell, callee.path), args, fr)
        if isinstance(callee, Opaque) or isinstance(callee, BoxV):
            h = self.hooks.get('call_opaque')
            if h:
                return h(self, st, callee, args, fr)
        raise Unmodelled('indirect call of %r' % (callee,))

    def call_fnitem(self, st, item, args, fr=None):
        """fn item (possibly an enum variant / tuple struct constructor) applied to positional args"""
        canon = strip_generics(item.path)
        segs = Program._segments(canon)
        if len(segs) >= 2:
            ed = self.enum_def(segs[-2], segs[-1])
            if ed:
                for (vn, d) in ed:
                    if vn == segs[-1]:
                        return [Outcome(st, 'ret', Enum(_last_seg(segs[-2]), vn, d, args))]
        sd = self.prog.crate.struct(segs[-1])
        if sd and sd['kind'] == 'tuple' and self.prog.find_fn(item.path) is None:
            return [Outcome(st, 'ret', Agg(segs[-1], args))]
        return self.call(st, item.path, args, fr)

    def call_closure(self, st, clo, args, fr=None, by='value'):
        """clo: Agg with ty '{closure@...}'; args: list of positional args (already untupled)"""
        cands = self.prog.find_closure(clo.ty)
        if not cands:
            raise Unmodelled('closure body not found: ' + clo.ty)
        body = cands[0]
        t0 = body.args[0][1]
        if t0.startswith('&'):
            cell = st.alloc(clo)
            self_arg = Ref(cell, (), t0.startswith('&mut'))
        else:
            self_arg = clo
        self.stats['calls_inlined'].add(body.name)
        return self.run_body(st, body, [self_arg] + list(args))

    def call_callable(self, st, f, args, fr=None):
        """apply a callable *value* (closure Agg, reference to closure, fn item) to positional args"""
        if isinstance(f, Ref):
            v = self.read(st, f.cell, f.path)
            if isinstance(v, Agg) and v.ty and v.ty.startswith('{closure@'):
                cands = self.prog.find_closure(v.ty)
                if not cands:
                    raise Unmodelled('closure body not found: ' + v.ty)
                body = cands[0]
                t0 = body.args[0][1]
                self_arg = f if t0.startswith('&') else v
                self.stats['calls_inlined'].add(body.name)
                outs = self.run_body(st, body, [self_arg] + list(args))
                return outs
            return self.call_callable(st, v, args, fr)
        return self.call_value(st, f, args, fr)

    # ------------------------------------------------------------------ drop glue
    def drop_value(self, st, v, ref):
        """run Drop impls (crate bodies or model hooks) for v located at ref; returns Outcomes (ret UNIT / unwind)"""
        outs = [Outcome(st, 'ret', UNIT)]
        if isinstance(v, (Uninit, Sc, z3.ExprRef, Str, FnItem, Ref, SymEnum, int, float, str)) or v is None:
            return outs
        if isinstance(v, (Agg, Enum)):
            tyname = v.ty
            if tyname and tyname in self.type_drops:
                r = self.type_drops[tyname](self, st, v, ref)
                if r is not None:
                    return r
            if tyname and tyname in self.prog.drop_impls:
                b = self.prog.drop_impls[tyname]
                self.stats['calls_inlined'].add(b.name)
                snap = (len(st.pc), len(st.trace), dict(st.cells), dict(st.objs), dict(st.ghost))
                outs = self.run_body(st, b, [Ref(ref.cell, ref.path, True)])
                if self.merge_pure:
                    outs = self.try_merge(snap, outs)
            final = []
            for o in outs:
                if o.kind != 'ret':
                    final.append(o)
                    continue
                cur = [o]
                vv = self.read(o.st, ref.cell, ref.path)
                fields = vv.fields if isinstance(vv, (Agg, Enum)) else ()
                for i, f in enumerate(fields):
                    nxt = []
                    for oo in cur:
                        if oo.kind != 'ret':
                            nxt.append(oo)
                            continue
                        nxt.extend(self.drop_value(oo.st, f, Ref(ref.cell, ref.path + (i,), True)))
                    cur = nxt
                final.extend(cur)
            return [Outcome(o.st, o.kind, UNIT if o.kind == 'ret' else o.val) for o in final]
        h = self.hooks.get('drop')
        if h:
            r = h(self, st, v, ref)
            if r is not None:
                return r
        if isinstance(v, (Opaque, Obj, BoxV, Coro)):
            st.emit('DROP', repr(v))
            return outs
        if isinstance(v, tuple):
            return outs
        raise Unmodelled('drop of %r' % (v,))

    # ------------------------------------------------------------------ registration helpers
    def model(self, pattern, label=None):
        def deco(fn):
            self.models.append((re.compile(pattern), fn, label or pattern))
            return fn
        return deco

    def allow_call(self, pattern):
        self.allow.append(re.compile(pattern))

    def ret(self, st, v=UNIT):
        return [Outcome(st, 'ret', v)]


def val_key(v):
    """hashable structural identity of a value"""
    if v is None or isinstance(v, (int, str, bool)):
        return v
    if isinstance(v, z3.ExprRef):
        return ('z', v.get_id())
    if isinstance(v, Sc):
        return ('sc', v.ty, v.t.get_id())
    if isinstance(v, Agg):
        return ('agg', v.ty, tuple(val_key(f) for f in v.fields))
    if isinstance(v, Enum):
        return ('enum', v.ty, v.variant, tuple(val_key(f) for f in v.fields))
    if isinstance(v, SymEnum):
        return ('symenum', v.ty, v.discr.t.get_id())
    if isinstance(v, Ref):
        return ('ref', v.cell, v.path)
    if isinstance(v, BoxV):
        return ('box', v.cell)
    if isinstance(v, Opaque):
        return ('opq', v.ident)
    if isinstance(v, Obj):
        return ('obj', v.oid)
    if isinstance(v, Str):
        return ('str', v.s)
    if isinstance(v, FnItem):
        return ('fn', v.path)
    if isinstance(v, Uninit):
        return ('uninit',)
    if isinstance(v, Coro):
        return ('coro', v.cid, v.state, tuple(val_key(f) for f in v.upvars), tuple(sorted((str(k), val_key(x)) for k, x in v.saved.items())))
    if isinstance(v, tuple):
        return tuple(val_key(x) for x in v)
    if isinstance(v, dict):
        return tuple(sorted((str(k), val_key(x)) for k, x in v.items()))
    raise Unmodelled('val_key of %r' % (v,))


def _unescape(s):
    try:
        return bytes(s, 'utf-8').decode('unicode_escape').encode('latin-1').decode('utf-8')
    except Exception:
        return s
