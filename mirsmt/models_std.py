"""Contract models of std / core primitives (part of the trusted base; every model used by a run is listed in evidence).

Each model: fn(interp, st, func_text, args, frame) -> [Outcome]; NotImplemented lets the next candidate try.
"""
import re
import z3

from values import *
from exec import Outcome, Unmodelled, Inconclusive, strip_generics, _last_seg

NANOS = 1_000_000_000
DUR_MAX_NANOS = ((1 << 64) - 1) * NANOS + 999_999_999
INSTANT_MAX_NANOS = ((1 << 63) - 1) * NANOS + 999_999_999


def some(v):
    return Enum('Option', 'Some', 1, (v,))


NONE = Enum('Option', 'None', 0, ())


def ok(v):
    return Enum('Result', 'Ok', 0, (v,))


def err(v):
    return Enum('Result', 'Err', 1, (v,))


def ready(v):
    return Enum('Poll', 'Ready', 0, (v,))


PENDING = Enum('Poll', 'Pending', 1, ())


def branch(I, st, cond):
    """fork st on cond; returns list of (state, bool) for the feasible sides (st itself is reused for the first)"""
    c = z3.simplify(cond)
    if z3.is_true(c):
        return [(st, True)]
    if z3.is_false(c):
        return [(st, False)]
    out = []
    t_ok = I.feasible(st, c)
    f_ok = I.feasible(st, z3.Not(c))
    if t_ok and f_ok:
        s2 = st.fork()
        st.assume(c)
        s2.assume(z3.Not(c))
        return [(st, True), (s2, False)]
    if t_ok:
        st.assume(c)
        return [(st, True)]
    if f_ok:
        st.assume(z3.Not(c))
        return [(st, False)]
    return []


def panic(I, st, msg):
    st.emit('PANIC', msg)
    st.ghost['panic_payload'] = Opaque('panic:' + str(msg)[:60])
    return [Outcome(st, 'unwind', st.ghost['panic_payload'])]


def deref_val(I, st, v):
    """follow references / boxes to the pointee value"""
    while True:
        if isinstance(v, Ref):
            v = I.read(st, v.cell, v.path)
        elif isinstance(v, BoxV):
            v = I.read(st, v.cell, ())
        else:
            return v


def int_of(I, st, v):
    v = deref_val(I, st, v)
    if isinstance(v, SymEnum):
        return v.discr
    if isinstance(v, Enum) and not v.fields:
        return I.mk_int(v.discr, 'isize')
    return v


def cmp_terms(I, st, a, b):
    """returns (lt, eq) z3 bools for two comparable scalar-like values"""
    da, db = deref_val(I, st, a), deref_val(I, st, b)
    if isinstance(da, Enum) and isinstance(db, Enum) and (da.fields or db.fields):
        # e.g. Option::None against Option::Some(x): decided by the variant, then field-wise
        if da.variant != db.variant:
            return z3.BoolVal((da.discr or 0) < (db.discr or 0)), z3.BoolVal(False)
        return cmp_terms(I, st, Agg('()', da.fields), Agg('()', db.fields))
    if isinstance(da, Enum) and isinstance(db, Enum) and not da.fields and not db.fields and str(da.ty).split('::')[-1] == str(db.ty).split('::')[-1] and (da.discr is None or db.discr is None):
        # field-less variants of an enum whose discriminants are not known (another crate's enum): equality by variant name; order is not available
        if da.variant == db.variant:
            return z3.BoolVal(False), z3.BoolVal(True)
        return z3.Bool('enum_order!%s!%s' % (da.variant, db.variant)), z3.BoolVal(False)
    for x, y in ((da, db), (db, da)):
        if isinstance(x, Enum) and x.discr is None and not x.fields and isinstance(y, Agg) and not y.fields and y.ty and re.fullmatch(r'[A-Z]\w*', str(y.ty).split('::')[-1]):
            # a field-less variant of another crate's enum printed as a bare constant (`UnexpectedEof`): equality by name
            if str(y.ty).split('::')[-1] == x.variant:
                return z3.BoolVal(False), z3.BoolVal(True)
            return z3.Bool('enum_order!%s!%s' % (x.variant, y.ty)), z3.BoolVal(False)
    if isinstance(da, Enum) and da.discr is None and not da.fields or isinstance(db, Enum) and db.discr is None and not db.fields:
        raise Unmodelled('comparison of enum values without known discriminants: %r vs %r' % (da, db))
    a = int_of(I, st, a)
    b = int_of(I, st, b)
    if isinstance(a, z3.BoolRef) or isinstance(b, z3.BoolRef):
        a, b = I.as_bool(a), I.as_bool(b)
        return z3.And(z3.Not(a), b), a == b
    if isinstance(a, Sc) and isinstance(b, Sc):
        if a.ty != b.ty and INT_BITS[a.ty] != INT_BITS[b.ty]:
            b = I.cast_int(b, a.ty)
        return I.binop('Lt', a, Sc(b.t, a.ty), st), I.binop('Eq', a, Sc(b.t, a.ty), st)
    if isinstance(a, Agg) and isinstance(b, Agg) and (len(a.fields) == len(b.fields) or (a.ty in ('Vec', '[]', 'VecDeque') and b.ty in ('Vec', '[]', 'VecDeque'))):
        # lexicographic; sequences of different lengths are unequal and ordered by the common prefix, then by length
        lt = z3.BoolVal(False)
        eq = z3.BoolVal(True)
        for x, y in zip(a.fields, b.fields):
            l, e = cmp_terms(I, st, x, y)
            lt = z3.Or(lt, z3.And(eq, l))
            eq = z3.And(eq, e)
        if len(a.fields) != len(b.fields):
            if len(a.fields) < len(b.fields):
                lt = z3.Or(lt, eq)
            eq = z3.BoolVal(False)
        return lt, eq
    if isinstance(a, Str) and isinstance(b, Str):
        return z3.BoolVal(a.s < b.s), z3.BoolVal(a.s == b.s)
    if isinstance(a, Enum) and isinstance(b, Enum):
        if a.variant != b.variant:
            return z3.BoolVal(a.discr < b.discr), z3.BoolVal(False)
        return cmp_terms(I, st, Agg('()', a.fields), Agg('()', b.fields))
    if isinstance(a, (Opaque, Obj, Ref, BoxV)) and isinstance(b, (Opaque, Obj, Ref, BoxV)):
        h = I.hooks.get('opaque_eq')
        if h:
            r = h(I, st, a, b)
            if r is not None:
                return z3.BoolVal(False), r
        return z3.BoolVal(False), z3.BoolVal(I.same_value(a, b))
    raise Unmodelled('compare %r with %r' % (a, b))


def clone_val(I, st, v):
    """structural Clone: scalars copy, Arc-like pointers alias, boxes deep-copy, model objects via hook"""
    if isinstance(v, (Sc, z3.ExprRef, Str, FnItem, Uninit, SymEnum, Opaque, int, Ref)) or v is None:
        return v
    if isinstance(v, Agg):
        return Agg(v.ty, [clone_val(I, st, f) for f in v.fields])
    if isinstance(v, Enum):
        return Enum(v.ty, v.variant, v.discr, [clone_val(I, st, f) for f in v.fields])
    if isinstance(v, BoxV):
        if v.kind in ('Arc', 'Rc'):
            return v
        return BoxV(st.alloc(clone_val(I, st, I.read(st, v.cell, ()))), v.kind)
    if isinstance(v, Ref):
        return v
    if isinstance(v, Obj):
        h = I.hooks.get('clone_obj')
        if h:
            return h(I, st, v)
        return v
    raise Unmodelled('clone of %r' % (v,))


def targs(func_text):
    """generic arguments of the *last* turbofish / of the leading qualified type; crude but sufficient"""
    m = re.search(r'<impl ([a-z0-9]+)>', func_text)
    return m.group(1) if m else None


def install(I):
    M = I.model
    # schedule-replay hook points are no-ops for the analysis (they only exist in guard-on builds)
    def hook_point(I, st, f, args, fr):
        b = I.prog.find_fn(f)
        if b is not None and 'label' in b.debug and len(b.args) == 1:
            I.stats['allow_used'].add('verif_hooks::point (schedule-replay hook, no-op)')
            return I.ret(st, UNIT)
        return NotImplemented
    I.override.append((re.compile(r'(^|::)point$'), hook_point))

    # ------------------------------------------------------------------ panics
    @M(r'(^|::)(panic_fmt|panic|panic_cold_explicit|panic_explicit|begin_panic|unwrap_failed|expect_failed|panic_display|panic_nounwind|unreachable_display|panic_const::\w+|panic_bounds_check|slice_index_fail|resume_unwind)$', 'core::panicking::*')
    def m_panic(I, st, f, args, fr):
        msg = args[0] if args else f
        if isinstance(msg, Opaque) and msg.info:
            msg = msg.info
        return panic(I, st, repr(msg))

    @M(r'^Arguments::from_str(_nonconst)?$|^Arguments::new(_const|_v1|_v1_formatted)?$|^core::fmt::rt::<impl Arguments>::new', 'fmt::Arguments::*')
    def m_args(I, st, f, args, fr):
        a0 = deref_val(I, st, args[0]) if args else None
        info = a0.s if isinstance(a0, Str) else (repr(a0) if a0 is not None else None)
        return I.ret(st, Opaque('fmt::Arguments', info=('args', info, tuple(args[1:]))))

    @M(r'^(alloc::fmt::format|std::fmt::format|format)$', 'alloc::fmt::format')
    def m_format(I, st, f, args, fr):
        a = args[0]
        return I.ret(st, Opaque('String(format)', info=getattr(a, 'info', None)))

    @M(r'^core::fmt::rt::Argument::.*new_(display|debug|lower_hex|upper_hex)$|^Argument::.*::new_(display|debug)', 'fmt::rt::Argument::new_*')
    def m_fmtarg(I, st, f, args, fr):
        return I.ret(st, Opaque('fmt::Argument', info=deref_val(I, st, args[0])))

    # ------------------------------------------------------------------ integer helpers
    def two(I, st, args):
        return int_of(I, st, args[0]), int_of(I, st, args[1])

    @M(r'^core::num::<impl [iu](8|16|32|64|128|size)>::(saturating_add|saturating_sub|saturating_mul)$', 'int::saturating_*')
    def m_sat(I, st, f, args, fr):
        a, b = two(I, st, args)
        ty = a.ty
        lo, hi = I.ty_range(ty)
        op = {'saturating_add': 'AddWithOverflow', 'saturating_sub': 'SubWithOverflow', 'saturating_mul': 'MulWithOverflow'}[f.rsplit('::', 1)[1]]
        if signed(ty):
            raise Unmodelled('signed saturating op')
        r = I.binop(op, a, b, st)
        val, ov = r.fields
        sat = I.mk_int(lo if op == 'SubWithOverflow' else hi, ty)
        return I.ret(st, Sc(z3.If(ov, sat.t, val.t), ty))

    @M(r'^core::num::<impl [iu](8|16|32|64|128|size)>::(wrapping_add|wrapping_sub|wrapping_mul)$', 'int::wrapping_*')
    def m_wrap(I, st, f, args, fr):
        a, b = two(I, st, args)
        op = {'wrapping_add': 'Add', 'wrapping_sub': 'Sub', 'wrapping_mul': 'Mul'}[f.rsplit('::', 1)[1]]
        return I.ret(st, I.binop(op, a, b, st))

    @M(r'^(std|core)::mem::size_of::<([iu](8|16|32|64|128|size)|bool|char)>$', 'mem::size_of of a primitive')
    def m_size_of(I, st, f, args, fr):
        t = re.search(r'size_of::<(\w+)>$', f).group(1)
        n = {'bool': 1, 'char': 4, 'usize': 8, 'isize': 8}.get(t) or int(t[1:]) // 8
        return I.ret(st, I.mk_int(n, 'usize'))

    @M(r'^core::num::<impl [iu](8|16|32|64|128|size)>::(checked_add|checked_sub|checked_mul)$', 'int::checked_*')
    def m_chk(I, st, f, args, fr):
        a, b = two(I, st, args)
        op = {'checked_add': 'AddWithOverflow', 'checked_sub': 'SubWithOverflow', 'checked_mul': 'MulWithOverflow'}[f.rsplit('::', 1)[1]]
        val, ov = I.binop(op, a, b, st).fields
        outs = []
        for s2, is_ov in branch(I, st, ov):
            outs.append(Outcome(s2, 'ret', NONE if is_ov else some(val)))
        return outs

    @M(r'^core::num::<impl [iu](8|16|32|64|128|size)>::(overflowing_add|overflowing_sub|overflowing_mul)$', 'int::overflowing_*')
    def m_ovf(I, st, f, args, fr):
        a, b = two(I, st, args)
        op = {'overflowing_add': 'AddWithOverflow', 'overflowing_sub': 'SubWithOverflow', 'overflowing_mul': 'MulWithOverflow'}[f.rsplit('::', 1)[1]]
        val, ov = I.binop(op, a, b, st).fields
        return I.ret(st, Agg('()', (val, ov)))

    @M(r'^core::num::<impl [iu](8|16|32|64|128|size)>::(min|max)$|^<[iu](8|16|32|64|128|size) as Ord>::(min|max)$|^std::cmp::(min|max)(::<.*>)?$|^(min|max)(::<.*>)?$', 'Ord::min/max (ints)')
    def m_minmax(I, st, f, args, fr):
        a, b = two(I, st, args)
        if not isinstance(a, Sc):
            return NotImplemented
        lt = I.binop('Lt', a, b, st)
        mm = re.search(r'(?:^|::)(min|max)(?:::<.*>)?$', f)
        if mm is None:
            return NotImplemented
        if mm.group(1) == 'min':
            # Ord::min returns `other` only if other < self ... for ints value-identical
            return I.ret(st, Sc(z3.If(lt, a.t, b.t), a.ty))
        return I.ret(st, Sc(z3.If(lt, b.t, a.t), a.ty))

    @M(r'^core::num::<impl [iu](8|16|32|64|128|size)>::(abs_diff)$', 'int::abs_diff')
    def m_absdiff(I, st, f, args, fr):
        a, b = two(I, st, args)
        lt = I.binop('Lt', a, b, st)
        return I.ret(st, Sc(z3.If(lt, I.binop('Sub', b, a, st).t, I.binop('Sub', a, b, st).t), a.ty))

    @M(r'^core::num::<impl [iu](8|16|32|64|128|size)>::(to_be_bytes|to_le_bytes|to_ne_bytes)$', 'int::to_*_bytes')
    def m_tobytes(I, st, f, args, fr):
        a = int_of(I, st, args[0])
        if I.mode == 'int':
            raise Unmodelled('to_bytes in int mode')
        n = INT_BITS[a.ty] // 8
        bs = [Sc(z3.Extract(8 * i + 7, 8 * i, a.t), 'u8') for i in range(n)]
        if f.endswith('to_be_bytes'):
            bs.reverse()
        return I.ret(st, Agg('[]', bs))

    @M(r'^core::num::<impl ([iu](8|16|32|64|128|size))>::(from_be_bytes|from_le_bytes|from_ne_bytes)$', 'int::from_*_bytes')
    def m_frombytes(I, st, f, args, fr):
        ty = re.search(r'<impl ([iu]\w+)>', f).group(1)
        arr = deref_val(I, st, args[0])
        bs = [x.t for x in arr.fields]
        if f.endswith('from_be_bytes'):
            bs = list(reversed(bs))
        return I.ret(st, Sc(z3.Concat(*reversed(bs)) if len(bs) > 1 else bs[0], ty))

    @M(r'^<([iu](8|16|32|64|128|size)) as TryFrom<([iu](8|16|32|64|128|size))>>::try_from$', 'TryFrom<int> for int')
    def m_tryfrom(I, st, f, args, fr):
        m = re.match(r'^<(\w+) as TryFrom<(\w+)>>', strip_generics(f).replace(' ', ' '))
        m = re.match(r'^<(\w+) as TryFrom<(\w+)>>', f)
        dty, sty = m.group(1), m.group(2)
        v = int_of(I, st, args[0])
        lo, hi = I.ty_range(dty)
        slo, shi = I.ty_range(sty)
        conds = []
        if shi > hi:
            conds.append(I.binop('Gt', v, I.mk_int(hi, sty), st))
        if slo < lo:
            conds.append(I.binop('Lt', v, I.mk_int(lo, sty), st))
        bad = z3.Or(conds) if conds else z3.BoolVal(False)
        outs = []
        for s2, is_bad in branch(I, st, bad):
            outs.append(Outcome(s2, 'ret', err(Agg('TryFromIntError', ())) if is_bad else ok(I.cast_int(v, dty))))
        return outs

    @M(r'^<([iu](8|16|32|64|128|size)) as From<([iu](8|16|32|64|128|size)|bool|char)>>::from$|^<([iu](8|16|32|64|128|size)|bool) as Into<([iu](8|16|32|64|128|size))>>::into$', 'From<int> for int')
    def m_from_int(I, st, f, args, fr):
        m = re.match(r'^<(\w+) as From<(\w+)>>', f)
        if m:
            dty = m.group(1)
        else:
            dty = re.match(r'^<(\w+) as Into<(\w+)>>', f).group(2)
        v = int_of(I, st, args[0])
        return I.ret(st, I.cast_int(v, dty))

    @M(r'^<(.*) as (From|Into)<(.*)>>::(from|into)$', 'From/Into identity')
    def m_from_id(I, st, f, args, fr):
        h = I.hooks.get('from_into')
        if h:
            r = h(I, st, f, args)
            if r is not None:
                return r
        q = parse_qualified(f)
        if q is None:
            return NotImplemented
        a, tr, b = q
        a, b = a.strip(), (b or '').strip()
        if tr == 'Into' and b:
            # blanket impl<T, U: From<T>> Into<U> for T
            txt = '<%s as From<%s>>::from' % (b, a)
            if I.prog.find_fn(txt) is not None:
                return I.call(st, txt, args, fr)
        if a == b or _last_seg(a) == _last_seg(b):
            return I.ret(st, args[0])
        v = deref_val(I, st, args[0]) if isinstance(args[0], Ref) else args[0]
        str_like = ('String', 'str', '&str', '&String')
        if isinstance(v, Str) and (b in str_like or a in str_like):
            return I.ret(st, v)
        if re.fullmatch(r'[A-Z]\w{0,8}', a) and isinstance(v, Str):
            return I.ret(st, v)
        return NotImplemented

    # ------------------------------------------------------------------ comparisons
    @M(r'^<(.*) as PartialOrd(<.*>)?>::(lt|le|gt|ge)$', 'PartialOrd::{lt,le,gt,ge}')
    def m_pord(I, st, f, args, fr):
        lt, eq = cmp_terms(I, st, args[0], args[1])
        op = f.rsplit('::', 1)[1]
        r = {'lt': lt, 'le': z3.Or(lt, eq), 'gt': z3.And(z3.Not(lt), z3.Not(eq)), 'ge': z3.Not(lt)}[op]
        return I.ret(st, z3.simplify(r))

    @M(r'^<(.*) as PartialEq(<.*>)?>::(eq|ne)$', 'PartialEq::{eq,ne}')
    def m_peq(I, st, f, args, fr):
        lt, eq = cmp_terms(I, st, args[0], args[1])
        return I.ret(st, z3.simplify(eq if f.endswith('eq') else z3.Not(eq)))

    @M(r'^<(.*) as Ord>::cmp$|^<(.*) as PartialOrd(<.*>)?>::partial_cmp$', 'Ord::cmp')
    def m_cmp(I, st, f, args, fr):
        lt, eq = cmp_terms(I, st, args[0], args[1])
        outs = []
        for s2, is_lt in branch(I, st, lt):
            if is_lt:
                o = Enum('Ordering', 'Less', -1, ())
                outs.append(Outcome(s2, 'ret', some(o) if f.endswith('partial_cmp') else o))
            else:
                for s3, is_eq in branch(I, s2, eq):
                    o = Enum('Ordering', 'Equal', 0, ()) if is_eq else Enum('Ordering', 'Greater', 1, ())
                    outs.append(Outcome(s3, 'ret', some(o) if f.endswith('partial_cmp') else o))
        return outs

    @M(r'^<(.*) as Ord>::(min|max)$', 'Ord::min/max')
    def m_ordminmax(I, st, f, args, fr):
        lt, eq = cmp_terms(I, st, args[1], args[0])    # other < self
        outs = []
        for s2, o_lt in branch(I, st, lt):
            if f.endswith('min'):
                outs.append(Outcome(s2, 'ret', args[1] if o_lt else args[0]))
            else:
                outs.append(Outcome(s2, 'ret', args[0] if o_lt else args[1]))
        return outs

    # ------------------------------------------------------------------ Option / Result
    def as_enum(I, st, v):
        v2 = v
        if isinstance(v, Ref):
            v2 = I.read(st, v.cell, v.path)
        if not isinstance(v2, Enum):
            raise Unmodelled('expected Option/Result value, got %r' % (v2,))
        return v2

    @M(r'^(Option|Result)::(unwrap|expect|unwrap_unchecked)$', 'Option/Result::unwrap')
    def m_unwrap(I, st, f, args, fr):
        v = as_enum(I, st, args[0])
        if v.variant in ('Some', 'Ok'):
            return I.ret(st, v.fields[0])
        return panic(I, st, 'unwrap on %s' % v.variant)

    @M(r'^(Option|Result)::(unwrap_err|expect_err)$', 'Result::unwrap_err')
    def m_unwrap_err(I, st, f, args, fr):
        v = as_enum(I, st, args[0])
        if v.variant == 'Err':
            return I.ret(st, v.fields[0])
        return panic(I, st, 'unwrap_err on Ok')

    @M(r'^(Option|Result)::unwrap_or$', 'Option/Result::unwrap_or')
    def m_unwrap_or(I, st, f, args, fr):
        v = as_enum(I, st, args[0])
        return I.ret(st, v.fields[0] if v.variant in ('Some', 'Ok') else args[1])

    @M(r'^(Option|Result)::unwrap_or_default$', 'unwrap_or_default')
    def m_unwrap_or_default(I, st, f, args, fr):
        v = as_enum(I, st, args[0])
        if v.variant in ('Some', 'Ok'):
            return I.ret(st, v.fields[0])
        return I.call(st, '<T as Default>::default', [], fr)

    @M(r'^(Option|Result)::(unwrap_or_else)$', 'unwrap_or_else')
    def m_unwrap_or_else(I, st, f, args, fr):
        v = as_enum(I, st, args[0])
        if v.variant in ('Some', 'Ok'):
            return I.ret(st, v.fields[0])
        return I.call_callable(st, args[1], list(v.fields), fr)

    @M(r'^(Option|Result)::(is_some|is_ok|is_none|is_err)$', 'is_some/is_none/is_ok/is_err')
    def m_is(I, st, f, args, fr):
        v = as_enum(I, st, args[0])
        pos = v.variant in ('Some', 'Ok')
        want = f.endswith(('is_some', 'is_ok'))
        return I.ret(st, z3.BoolVal(pos == want))

    @M(r'^(Option|Result)::(is_some_and|is_ok_and|is_none_or)$', 'is_some_and')
    def m_is_and(I, st, f, args, fr):
        v = as_enum(I, st, args[0])
        if v.variant in ('Some', 'Ok'):
            return I.call_callable(st, args[1], [v.fields[0]], fr)
        return I.ret(st, z3.BoolVal(f.endswith('is_none_or')))

    @M(r'^(Option|Result)::map$', 'Option/Result::map')
    def m_map(I, st, f, args, fr):
        v = as_enum(I, st, args[0])
        if v.variant in ('Some', 'Ok'):
            outs = I.call_callable(st, args[1], [v.fields[0]], fr)
            return [Outcome(o.st, o.kind, Enum(v.ty, v.variant, v.discr, (o.val,)) if o.kind == 'ret' else o.val) for o in outs]
        return I.ret(st, v)

    @M(r'^Result::map_err$', 'Result::map_err')
    def m_map_err(I, st, f, args, fr):
        v = as_enum(I, st, args[0])
        if v.variant == 'Err':
            outs = I.call_callable(st, args[1], [v.fields[0]], fr)
            return [Outcome(o.st, o.kind, err(o.val) if o.kind == 'ret' else o.val) for o in outs]
        return I.ret(st, v)

    @M(r'^(Option|Result)::(and_then)$', 'and_then')
    def m_and_then(I, st, f, args, fr):
        v = as_enum(I, st, args[0])
        if v.variant in ('Some', 'Ok'):
            return I.call_callable(st, args[1], [v.fields[0]], fr)
        return I.ret(st, v)

    @M(r'^(Option|Result)::(or_else)$', 'or_else')
    def m_or_else(I, st, f, args, fr):
        v = as_enum(I, st, args[0])
        if v.variant in ('Some', 'Ok'):
            return I.ret(st, v)
        return I.call_callable(st, args[1], list(v.fields), fr)

    @M(r'^(Option|Result)::map_or$', 'map_or')
    def m_map_or(I, st, f, args, fr):
        v = as_enum(I, st, args[0])
        if v.variant in ('Some', 'Ok'):
            return I.call_callable(st, args[2], [v.fields[0]], fr)
        return I.ret(st, args[1])

    @M(r'^(Option|Result)::map_or_else$', 'map_or_else')
    def m_map_or_else(I, st, f, args, fr):
        v = as_enum(I, st, args[0])
        if v.variant in ('Some', 'Ok'):
            return I.call_callable(st, args[2], [v.fields[0]], fr)
        return I.call_callable(st, args[1], list(v.fields) if v.ty == 'Result' else [], fr)

    @M(r'^Result::ok$', 'Result::ok')
    def m_ok(I, st, f, args, fr):
        v = as_enum(I, st, args[0])
        return I.ret(st, some(v.fields[0]) if v.variant == 'Ok' else NONE)

    @M(r'^Result::err$', 'Result::err')
    def m_err(I, st, f, args, fr):
        v = as_enum(I, st, args[0])
        return I.ret(st, some(v.fields[0]) if v.variant == 'Err' else NONE)

    @M(r'^Option::ok_or$', 'Option::ok_or')
    def m_ok_or(I, st, f, args, fr):
        v = as_enum(I, st, args[0])
        return I.ret(st, ok(v.fields[0]) if v.variant == 'Some' else err(args[1]))

    @M(r'^Option::ok_or_else$', 'Option::ok_or_else')
    def m_ok_or_else(I, st, f, args, fr):
        v = as_enum(I, st, args[0])
        if v.variant == 'Some':
            return I.ret(st, ok(v.fields[0]))
        outs = I.call_callable(st, args[1], [], fr)
        return [Outcome(o.st, o.kind, err(o.val) if o.kind == 'ret' else o.val) for o in outs]

    @M(r'^Option::(take)$', 'Option::take')
    def m_take(I, st, f, args, fr):
        r = args[0]
        v = I.read(st, r.cell, r.path)
        I.write(st, r.cell, r.path, NONE)
        return I.ret(st, v)

    @M(r'^Option::(replace)$', 'Option::replace')
    def m_replace(I, st, f, args, fr):
        r = args[0]
        v = I.read(st, r.cell, r.path)
        I.write(st, r.cell, r.path, some(args[1]))
        return I.ret(st, v)

    @M(r'^Option::(insert|get_or_insert)$', 'Option::insert')
    def m_insert(I, st, f, args, fr):
        r = args[0]
        v = I.read(st, r.cell, r.path)
        if f.endswith('get_or_insert') and v.variant == 'Some':
            return I.ret(st, Ref(r.cell, r.path + (0,), True))
        I.write(st, r.cell, r.path, some(args[1]))
        return I.ret(st, Ref(r.cell, r.path + (0,), True))

    @M(r'^(Option|Result)::(as_ref|as_mut|as_deref|as_deref_mut|as_pin_mut)$', 'as_ref/as_mut')
    def m_as_ref(I, st, f, args, fr):
        r = args[0]
        if isinstance(r, Agg) and r.ty and r.ty.startswith('Pin'):
            r = r.fields[0]
        v = I.read(st, r.cell, r.path)
        if not isinstance(v, Enum):
            raise Unmodelled('as_ref on %r' % (v,))
        if v.variant in ('Some', 'Ok', 'Err'):
            inner = Ref(r.cell, r.path + (0,), f.endswith('mut'))
            if 'deref' in f:
                iv = v.fields[0]
                if isinstance(iv, BoxV):
                    inner = Ref(iv.cell, (), f.endswith('mut'))
            return I.ret(st, Enum(v.ty, v.variant, v.discr, (inner,)))
        return I.ret(st, v)

    @M(r'^Option::(cloned|copied)$', 'Option::cloned')
    def m_cloned(I, st, f, args, fr):
        v = as_enum(I, st, args[0])
        if v.variant == 'Some':
            return I.ret(st, some(clone_val(I, st, deref_val(I, st, v.fields[0]))))
        return I.ret(st, v)

    @M(r'^Option::(filter)$', 'Option::filter')
    def m_filter(I, st, f, args, fr):
        v = as_enum(I, st, args[0])
        if v.variant != 'Some':
            return I.ret(st, v)
        cell = st.alloc(v.fields[0])
        outs = I.call_callable(st, args[1], [Ref(cell, ())], fr)
        res = []
        for o in outs:
            if o.kind != 'ret':
                res.append(o)
                continue
            for s2, keep in branch(I, o.st, I.as_bool(o.val)):
                res.append(Outcome(s2, 'ret', v if keep else NONE))
        return res

    @M(r'^Option::(or|and|xor|zip)$', 'Option::or')
    def m_or(I, st, f, args, fr):
        v = as_enum(I, st, args[0])
        if f.endswith('::or'):
            return I.ret(st, v if v.variant == 'Some' else args[1])
        if f.endswith('::and'):
            return I.ret(st, args[1] if v.variant == 'Some' else NONE)
        raise Unmodelled(f)

    @M(r'^bool::(then|then_some)(::<.*>)?$|^core::bool::<impl bool>::(then|then_some)(::<.*>)?$', 'bool::then')
    def m_then(I, st, f, args, fr):
        outs = []
        for s2, yes in branch(I, st, I.as_bool(args[0])):
            if not yes:
                outs.append(Outcome(s2, 'ret', NONE))
            elif 'then_some' in f:
                outs.append(Outcome(s2, 'ret', some(args[1])))
            else:
                for o in I.call_callable(s2, args[1], [], fr):
                    outs.append(Outcome(o.st, o.kind, some(o.val) if o.kind == 'ret' else o.val))
        return outs

    @M(r'^<(Result|Option)<.*> as Try>::branch$', 'Try::branch')
    def m_try_branch(I, st, f, args, fr):
        v = as_enum(I, st, args[0])
        if v.variant in ('Ok', 'Some'):
            return I.ret(st, Enum('ControlFlow', 'Continue', 0, (v.fields[0],)))
        return I.ret(st, Enum('ControlFlow', 'Break', 1, (v,)))

    @M(r'^<(Result|Option)<.*> as FromResidual<.*>>::from_residual$', 'FromResidual::from_residual')
    def m_from_residual(I, st, f, args, fr):
        v = as_enum(I, st, args[0])
        if v.variant == 'Err':
            # `?` converts the error with From::from
            m = re.match(r'^<Result<(.*)> as FromResidual<Result<Infallible, (.*)>>>::from_residual$', f)
            inner = v.fields[0]
            if m:
                tparts = split_top_types(m.group(1))
                src = m.group(2).strip()
                dst = tparts[-1].strip() if tparts else None
                if dst and src != dst:
                    outs = I.call(st, '<%s as From<%s>>::from' % (dst, src), [inner], fr)
                    return [Outcome(o.st, o.kind, err(o.val) if o.kind == 'ret' else o.val) for o in outs]
            return I.ret(st, err(inner))
        return I.ret(st, v)

    # ------------------------------------------------------------------ mem / clone / deref / boxes
    @M(r'^(std|core)::mem::replace$', 'mem::replace')
    def m_mem_replace(I, st, f, args, fr):
        r = args[0]
        v = I.read(st, r.cell, r.path)
        I.write(st, r.cell, r.path, args[1])
        return I.ret(st, v)

    @M(r'^(std|core)::mem::swap$', 'mem::swap')
    def m_mem_swap(I, st, f, args, fr):
        a, b = args
        va, vb = I.read(st, a.cell, a.path), I.read(st, b.cell, b.path)
        I.write(st, a.cell, a.path, vb)
        I.write(st, b.cell, b.path, va)
        return I.ret(st)

    @M(r'^(std|core)::mem::take$', 'mem::take')
    def m_mem_take(I, st, f, args, fr):
        r = args[0]
        v = I.read(st, r.cell, r.path)
        outs = I.call(st, '<T as Default>::default#for:' + repr(type(v)), [], fr) if False else None
        h = I.hooks.get('default_for')
        dv = h(I, st, v) if h else None
        if dv is None:
            if isinstance(v, Enum) and v.ty == 'Option':
                dv = NONE
            elif isinstance(v, Sc):
                dv = I.mk_int(0, v.ty)
            elif isinstance(v, z3.BoolRef):
                dv = z3.BoolVal(False)
            elif isinstance(v, Agg) and v.ty in ('HashMap', 'HashSet', 'Vec', 'VecDeque', 'BTreeMap'):
                dv = Agg(v.ty, ())
            else:
                raise Unmodelled('mem::take of %r' % (v,))
        I.write(st, r.cell, r.path, dv)
        return I.ret(st, v)

    @M(r'^(std|core)::mem::(drop)$|^drop$', 'mem::drop')
    def m_mem_drop(I, st, f, args, fr):
        cell = st.alloc(args[0])
        return I.drop_value(st, args[0], Ref(cell, (), True))

    @M(r'^(std|core)::mem::forget$|^ManuallyDrop::<.*>::new$|^ManuallyDrop::new$', 'mem::forget')
    def m_forget(I, st, f, args, fr):
        return I.ret(st, args[0] if 'ManuallyDrop' in f else UNIT)

    @M(r'^<(.*) as Clone>::clone$', 'Clone::clone')
    def m_clone(I, st, f, args, fr):
        v = args[0]
        while isinstance(v, Ref):
            v = I.read(st, v.cell, v.path)
        return I.ret(st, clone_val(I, st, v))

    @M(r'^<(.*) as ToOwned>::to_owned$|^<str as ToString>::to_string$|^<String as ToString>::to_string$|^<String as From<&str>>::from$|^<&str as Into<String>>::into$|^String::from$|^str::to_string$|^str::to_owned$|^<&str as ToString>::to_string$|^<str as ToOwned>::to_owned$', 'str -> String')
    def m_to_string(I, st, f, args, fr):
        return I.ret(st, deref_val(I, st, args[0]))

    @M(r'^<(.*) as ToString>::to_string$', 'ToString::to_string')
    def m_to_string2(I, st, f, args, fr):
        v = deref_val(I, st, args[0])
        if isinstance(v, Str):
            return I.ret(st, v)
        return I.ret(st, Opaque('String(to_string)', info=v))

    @M(r'^<(Arc|Rc|Box)<.*> as Deref>::deref$|^<(Arc|Box)<.*> as DerefMut>::deref_mut$|^<(Arc|Rc|Box)<.*> as AsRef<.*>>::as_ref$', 'Arc/Box::deref')
    def m_arc_deref(I, st, f, args, fr):
        v = args[0]
        b = I.read(st, v.cell, v.path) if isinstance(v, Ref) else v
        if isinstance(b, BoxV):
            return I.ret(st, Ref(b.cell, (), 'Mut' in f))
        raise Unmodelled('deref of %r' % (b,))

    @M(r'^<String as Deref>::deref$|^String::as_str$|^<String as AsRef<str>>::as_ref$|^<String as Borrow<str>>::borrow$|^<Vec<.*> as Deref>::deref$|^<Vec<.*> as DerefMut>::deref_mut$|^Vec::<.*>::as_slice$', 'String/Vec::deref')
    def m_str_deref(I, st, f, args, fr):
        return I.ret(st, args[0])

    @M(r'^(Box|Arc|Rc)::(<.*>::)?new$|^Box::<.*>::pin$|^Box::pin$|^Arc::<.*>::pin$', 'Box/Arc::new')
    def m_box_new(I, st, f, args, fr):
        kind = 'Arc' if f.startswith('Arc') else ('Rc' if f.startswith('Rc') else 'Box')
        b = BoxV(st.alloc(args[0]), kind)
        if f.endswith('pin'):
            return I.ret(st, Agg('Pin', (b,)))
        return I.ret(st, b)

    @M(r'^<Box<(.*)> as From<\1>>::from$', 'Box<T>: From<T> (the boxing conversion `?` applies to a boxed error type)')
    def m_box_from(I, st, f, args, fr):
        return I.ret(st, BoxV(st.alloc(args[0]), 'Box'))

    @M(r'^Pin::<.*>::(new_unchecked|new)$|^Pin::(new_unchecked|new)$', 'Pin::new')
    def m_pin_new(I, st, f, args, fr):
        return I.ret(st, Agg('Pin', (args[0],)))

    @M(r'^Pin::<.*>::(get_mut|get_unchecked_mut|into_inner|get_ref|into_inner_unchecked|into_ref)$', 'Pin::get_mut')
    def m_pin_get(I, st, f, args, fr):
        p = args[0]
        if isinstance(p, Ref):
            p = I.read(st, p.cell, p.path)
        return I.ret(st, p.fields[0])

    @M(r'^Pin::<.*>::(as_mut|as_ref)$', 'Pin::as_mut')
    def m_pin_as_mut(I, st, f, args, fr):
        p = args[0]
        pv = I.read(st, p.cell, p.path) if isinstance(p, Ref) else p
        inner = pv.fields[0]
        if isinstance(inner, BoxV):
            inner = Ref(inner.cell, (), True)
        return I.ret(st, Agg('Pin', (inner,)))

    @M(r'^Pin::<.*>::(map_unchecked_mut|map_unchecked)$', 'Pin::map_unchecked_mut')
    def m_pin_map(I, st, f, args, fr):
        p = args[0]
        outs = I.call_callable(st, args[1], [p.fields[0]], fr)
        return [Outcome(o.st, o.kind, Agg('Pin', (o.val,)) if o.kind == 'ret' else o.val) for o in outs]

    @M(r'^<Pin<.*> as Deref(Mut)?>::deref(_mut)?$', 'Pin::deref')
    def m_pin_deref(I, st, f, args, fr):
        p = args[0]
        pv = I.read(st, p.cell, p.path) if isinstance(p, Ref) else p
        inner = pv.fields[0]
        if isinstance(inner, BoxV):
            inner = Ref(inner.cell, (), True)
        return I.ret(st, inner)

    @M(r'^<(.*) as (std::future::)?IntoFuture>::into_future$', 'IntoFuture identity')
    def m_into_future(I, st, f, args, fr):
        return I.ret(st, args[0])

    @M(r'^<.* as AsRef<str>>::as_ref$|^<.* as Borrow<str>>::borrow$|^<.* as AsRef<\[u8\]>>::as_ref$', 'AsRef<str>::as_ref (identity on string values)')
    def m_as_ref_str(I, st, f, args, fr):
        return I.ret(st, args[0])

    @M(r'(^|::)must_use(::<.*>)?$', 'hint::must_use (identity)')
    def m_must_use(I, st, f, args, fr):
        return I.ret(st, args[0])

    @M(r'^AssertUnwindSafe$', 'AssertUnwindSafe')
    def m_aus(I, st, f, args, fr):
        return I.ret(st, Agg('AssertUnwindSafe', (args[0],)))

    @M(r'(^|::)NonZero::<[iu](8|16|32|64|128|size)>::new$|(^|::)NonZero[IU](8|16|32|64|128|size)::new$', 'NonZero::new (None for zero)')
    def m_nonzero_new(I, st, f, args, fr):
        v = args[0]
        outs = []
        for s2, z in branch(I, st, v.t == 0):
            outs.append(Outcome(s2, 'ret', NONE if z else some(v)))
        return outs

    @M(r'(^|::)NonZero::<[iu](8|16|32|64|128|size)>::get$|(^|::)NonZero[IU](8|16|32|64|128|size)::get$', 'NonZero::get')
    def m_nonzero_get(I, st, f, args, fr):
        return I.ret(st, deref_val(I, st, args[0]))

    @M(r'(^|::)Option::<(std::option::)?Option<.*>>::flatten$', 'Option::flatten')
    def m_flatten(I, st, f, args, fr):
        v = args[0]
        return I.ret(st, v.fields[0] if v.variant == 'Some' else NONE)

    @M(r'^<(.*) as Default>::default$', 'Default::default')
    def m_default(I, st, f, args, fr):
        m = re.match(r'^<(.*) as Default>::default$', f)
        ty = m.group(1).strip()
        if ty in INT_BITS:
            return I.ret(st, I.mk_int(0, ty))
        if ty == 'bool':
            return I.ret(st, z3.BoolVal(False))
        if ty.startswith('Option<'):
            return I.ret(st, NONE)
        if ty == '()':
            return I.ret(st, UNIT)
        mcoll = re.match(r'^(?:\w+::)*(HashSet|HashMap|BTreeMap|Vec|VecDeque)<', ty)
        if mcoll:
            return I.ret(st, Agg(mcoll.group(1), ()))
        if ty.startswith('('):
            parts = split_top_types(ty[1:-1])
            vals = []
            cur = [Outcome(st, 'ret', None)]
            for p in parts:
                o = I.call(cur[0].st, '<%s as Default>::default' % p, [], fr)
                if len(o) != 1 or o[0].kind != 'ret':
                    raise Unmodelled('Default for tuple element ' + p)
                vals.append(o[0].val)
                cur = o
            return I.ret(cur[0].st, Agg('()', vals))
        h = I.hooks.get('default')
        if h:
            r = h(I, st, ty)
            if r is not None:
                return I.ret(st, r)
        return NotImplemented

    # ------------------------------------------------------------------ time (virtual clock; values are total nanoseconds)
    def dur(v):
        return Agg('Duration', (v,))

    def dur_n(I, st, v):
        v = deref_val(I, st, v)
        if isinstance(v, Agg) and v.ty == 'Duration':
            return v.fields[0]
        raise Unmodelled('expected Duration, got %r' % (v,))

    def inst_n(I, st, v):
        v = deref_val(I, st, v)
        if isinstance(v, Agg) and v.ty == 'Instant':
            return v.fields[0]
        raise Unmodelled('expected Instant, got %r' % (v,))

    I.mk_duration = lambda nanos: dur(nanos)
    I.mk_instant = lambda nanos: Agg('Instant', (nanos,))

    @M(r'^(std::time::|tokio::time::)?Duration::as_nanos$', 'Duration::as_nanos')
    def m_as_nanos(I, st, f, args, fr):
        return I.ret(st, dur_n(I, st, args[0]))

    @M(r'^(std::time::)?Duration::as_millis$', 'Duration::as_millis')
    def m_as_millis(I, st, f, args, fr):
        return I.ret(st, I.binop('Div', dur_n(I, st, args[0]), I.mk_int(1_000_000, 'u128'), st))

    @M(r'^(std::time::)?Duration::as_secs$', 'Duration::as_secs')
    def m_as_secs(I, st, f, args, fr):
        return I.ret(st, I.cast_int(I.binop('Div', dur_n(I, st, args[0]), I.mk_int(NANOS, 'u128'), st), 'u64'))

    @M(r'^(std::time::)?Duration::subsec_nanos$', 'Duration::subsec_nanos')
    def m_subsec(I, st, f, args, fr):
        return I.ret(st, I.cast_int(I.binop('Rem', dur_n(I, st, args[0]), I.mk_int(NANOS, 'u128'), st), 'u32'))

    @M(r'^(std::time::)?Duration::is_zero$', 'Duration::is_zero')
    def m_dur_is_zero(I, st, f, args, fr):
        return I.ret(st, I.binop('Eq', dur_n(I, st, args[0]), I.mk_int(0, 'u128'), st))

    @M(r'^(std::time::)?Duration::new$', 'Duration::new')
    def m_dur_new(I, st, f, args, fr):
        secs = I.cast_int(args[0], 'u128')
        nanos = I.cast_int(args[1], 'u128')
        total = I.binop('Add', I.binop('Mul', secs, I.mk_int(NANOS, 'u128'), st), nanos, st)
        over = I.binop('Gt', total, I.mk_int(DUR_MAX_NANOS, 'u128'), st)
        outs = []
        for s2, bad in branch(I, st, over):
            outs.extend(panic(I, s2, 'overflow in Duration::new') if bad else [Outcome(s2, 'ret', dur(total))])
        return outs

    @M(r'^(std::time::)?Duration::from_(secs|millis|micros|nanos)$', 'Duration::from_*')
    def m_dur_from(I, st, f, args, fr):
        unit = f.rsplit('_', 1)[1]
        mul = {'secs': NANOS, 'millis': 1_000_000, 'micros': 1000, 'nanos': 1}[unit]
        v = I.cast_int(int_of(I, st, args[0]), 'u128')
        return I.ret(st, dur(I.binop('Mul', v, I.mk_int(mul, 'u128'), st)))

    @M(r'^(std::time::)?Duration::saturating_sub$', 'Duration::saturating_sub')
    def m_dur_satsub(I, st, f, args, fr):
        a, b = dur_n(I, st, args[0]), dur_n(I, st, args[1])
        lt = I.binop('Lt', a, b, st)
        return I.ret(st, dur(Sc(z3.If(lt, I.mk_int(0, 'u128').t, I.binop('Sub', a, b, st).t), 'u128')))

    @M(r'^(std::time::)?Duration::saturating_add$', 'Duration::saturating_add')
    def m_dur_satadd(I, st, f, args, fr):
        a, b = dur_n(I, st, args[0]), dur_n(I, st, args[1])
        s = I.binop('Add', a, b, st)
        over = I.binop('Gt', s, I.mk_int(DUR_MAX_NANOS, 'u128'), st)
        return I.ret(st, dur(Sc(z3.If(over, I.mk_int(DUR_MAX_NANOS, 'u128').t, s.t), 'u128')))

    @M(r'^(std::time::)?Duration::saturating_mul$', 'Duration::saturating_mul (u32 factor)')
    def m_dur_satmul(I, st, f, args, fr):
        a = dur_n(I, st, args[0])
        k = args[1]
        if I.mode == 'int':
            p_ = Sc(a.t * k.t, 'u128')
        else:
            p_ = Sc(a.t * z3.ZeroExt(128 - k.t.size(), k.t), 'u128')      # < 2^94 * 2^32: no wrap in 128 bits
        over = I.binop('Gt', p_, I.mk_int(DUR_MAX_NANOS, 'u128'), st)
        return I.ret(st, dur(Sc(z3.If(over, I.mk_int(DUR_MAX_NANOS, 'u128').t, p_.t), 'u128')))

    @M(r'^(std::time::)?Duration::checked_(add|sub)$', 'Duration::checked_*')
    def m_dur_chk(I, st, f, args, fr):
        a, b = dur_n(I, st, args[0]), dur_n(I, st, args[1])
        if f.endswith('add'):
            s = I.binop('Add', a, b, st)
            bad = I.binop('Gt', s, I.mk_int(DUR_MAX_NANOS, 'u128'), st)
        else:
            s = I.binop('Sub', a, b, st)
            bad = I.binop('Lt', a, b, st)
        return [Outcome(s2, 'ret', NONE if is_bad else some(dur(s))) for s2, is_bad in branch(I, st, bad)]

    @M(r'^<(std::time::)?Duration as (Add|Sub)>::(add|sub)$', 'Duration +/-')
    def m_dur_addsub(I, st, f, args, fr):
        a, b = dur_n(I, st, args[0]), dur_n(I, st, args[1])
        if f.endswith('add'):
            s = I.binop('Add', a, b, st)
            bad = I.binop('Gt', s, I.mk_int(DUR_MAX_NANOS, 'u128'), st)
        else:
            s = I.binop('Sub', a, b, st)
            bad = I.binop('Lt', a, b, st)
        outs = []
        for s2, is_bad in branch(I, st, bad):
            outs.extend(panic(I, s2, 'overflow in Duration arithmetic') if is_bad else [Outcome(s2, 'ret', dur(s))])
        return outs

    @M(r'^<(std::time::)?Duration as (Div|Mul)<u32>>::(div|mul)$', 'Duration * / u32')
    def m_dur_divmul(I, st, f, args, fr):
        a = dur_n(I, st, args[0])
        n = I.cast_int(int_of(I, st, args[1]), 'u128')
        G = I.mk_int(NANOS, 'u128')
        if f.endswith('mul'):
            s = I.binop('Mul', a, n, st)
            bad = I.binop('Gt', s, I.mk_int(DUR_MAX_NANOS, 'u128'), st) if I.mode == 'int' else z3.BoolVal(False)
            outs = []
            for s2, is_bad in branch(I, st, bad):
                outs.extend(panic(I, s2, 'overflow when multiplying duration by scalar') if is_bad else [Outcome(s2, 'ret', dur(s))])
            return outs
        outs = []
        for s2, zero in branch(I, st, I.binop('Eq', n, I.mk_int(0, 'u128'), st)):
            if zero:
                outs.extend(panic(I, s2, 'divide by zero error when dividing duration by scalar'))
                continue
            secs, ns = I.binop('Div', a, G, s2), I.binop('Rem', a, G, s2)
            r = I.binop('Add', I.binop('Mul', I.binop('Div', secs, n, s2), G, s2),
                        I.binop('Add', I.binop('Div', I.binop('Mul', I.binop('Rem', secs, n, s2), G, s2), n, s2), I.binop('Div', ns, n, s2), s2), s2)
            outs.append(Outcome(s2, 'ret', dur(r)))
        return outs

    @M(r'^(tokio::time::|std::time::)?Instant::now$', 'Instant::now (virtual clock)')
    def m_now(I, st, f, args, fr):
        h = I.hooks.get('clock_now')
        if h:
            return I.ret(st, h(I, st))
        t = I.fresh_int('now', 'u128', st)
        prev = st.ghost.get('clock_last')
        st.assume(I.binop('Le', t, I.mk_int(INSTANT_MAX_NANOS, 'u128'), st))
        if prev is not None:
            st.assume(I.binop('Ge', t, prev, st))
        st.ghost['clock_last'] = t
        st.emit('NOW', t)
        return I.ret(st, Agg('Instant', (t,)))

    @M(r'^(tokio::time::|std::time::)?Instant::checked_add$', 'Instant::checked_add')
    def m_inst_chk_add(I, st, f, args, fr):
        a, d = inst_n(I, st, args[0]), dur_n(I, st, args[1])
        s = I.binop('Add', a, d, st)
        bad = I.binop('Gt', s, I.mk_int(INSTANT_MAX_NANOS, 'u128'), st)
        return [Outcome(s2, 'ret', NONE if is_bad else some(Agg('Instant', (s,)))) for s2, is_bad in branch(I, st, bad)]

    @M(r'^<(tokio::time::|std::time::)?Instant as Add<(std::time::)?Duration>>::add$', 'Instant + Duration')
    def m_inst_add(I, st, f, args, fr):
        a, d = inst_n(I, st, args[0]), dur_n(I, st, args[1])
        s = I.binop('Add', a, d, st)
        bad = I.binop('Gt', s, I.mk_int(INSTANT_MAX_NANOS, 'u128'), st)
        outs = []
        for s2, is_bad in branch(I, st, bad):
            outs.extend(panic(I, s2, 'overflow when adding duration to instant') if is_bad else [Outcome(s2, 'ret', Agg('Instant', (s,)))])
        return outs

    @M(r'^(tokio::time::|std::time::)?Instant::(saturating_duration_since|duration_since)$', 'Instant::saturating_duration_since')
    def m_inst_since(I, st, f, args, fr):
        a, b = inst_n(I, st, args[0]), inst_n(I, st, args[1])
        lt = I.binop('Lt', a, b, st)
        return I.ret(st, dur(Sc(z3.If(lt, I.mk_int(0, 'u128').t, I.binop('Sub', a, b, st).t), 'u128')))

    @M(r'^(tokio::time::|std::time::)?Instant::elapsed$', 'Instant::elapsed')
    def m_inst_elapsed(I, st, f, args, fr):
        outs = I.call(st, 'tokio::time::Instant::now', [], fr)
        res = []
        for o in outs:
            a, b = inst_n(I, o.st, o.val), inst_n(I, o.st, args[0])
            lt = I.binop('Lt', a, b, o.st)
            res.append(Outcome(o.st, 'ret', dur(Sc(z3.If(lt, I.mk_int(0, 'u128').t, I.binop('Sub', a, b, o.st).t), 'u128'))))
        return res

    # ------------------------------------------------------------------ tracing: all level checks are "disabled"
    @M(r'^<Level as PartialOrd<LevelFilter>>::le$|^<LevelFilter as PartialOrd<Level>>::ge$', 'tracing level check = disabled')
    def m_level_le(I, st, f, args, fr):
        return I.ret(st, z3.BoolVal(False))

    @M(r'^tracing::__macro_support::__(is_enabled|disabled_span)$|^Interest::is_(never|always|sometimes)$|^Span::(none|is_disabled|is_none)$|^tracing::Span::(none|is_disabled|current)$', 'tracing helpers')
    def m_trace_misc(I, st, f, args, fr):
        if f.endswith(('is_never', 'is_disabled', 'is_none')):
            return I.ret(st, z3.BoolVal(True))
        if f.endswith(('is_always', 'is_sometimes', '__is_enabled')):
            return I.ret(st, z3.BoolVal(False))
        return I.ret(st, Opaque('tracing::Span(disabled)', ident='span-none'))

    for pat in (r'^LevelFilter::current$', r'^Interest::(never|always|sometimes)$', r'^tracing::Span::', r'^Span::', r'^tracing::span::', r'^<tracing::Span as ', r'^<Span as ', r'^tracing::Dispatch', r'^tracing::dispatcher::', r'^DefaultCallsite::(interest|new|register|metadata)$', r'^<DefaultCallsite as Callsite>::metadata$',
                r'^tracing::Metadata::<.*>::(fields|new)$', r'^tracing::Metadata::(fields|new)$', r'^FieldSet::(new|value_set|value_set_all|iter|len)$',
                r'^Event::(<.*>::)?dispatch$', r'^Event::dispatch$', r'^tracing::Span::(new|record|enter|entered|in_scope|follows_from|is_disabled)$',
                r'^Span::(new|record|enter|entered|in_scope)$', r'^Identifier$', r'^tracing::callsite::Identifier$', r'^tracing::field::',
                r'^<.* as tracing::Value>', r'^tracing_core::', r'^tracing::__macro_support', r'^ValueSet::', r'^Iter::next$',
                r'^Option::<&dyn tracing::Value>', r'^<.* as Debug>::fmt$', r'^<.* as std::fmt::Display>::fmt$', r'^<.* as Display>::fmt$',
                r'^Formatter::', r'^DebugStruct::', r'^DebugTuple::', r'^DebugList::', r'^DebugMap::', r'^<Entered<.*> as Drop>::drop$',
                r'^tracing::span::Span::', r'^debug_value$', r'^display$', r'^tracing::field::(display|debug)$',
                r'^core::fmt::rt::<impl Arguments<.*>>', r'^Kind::', r'^std::hint::(black_box|spin_loop)$'):
        I.allow_call(pat)


def parse_qualified(f):
    """`<A as Trait<B>>::method` -> (A, Trait, B or None); bracket aware"""
    if not f.startswith('<'):
        return None
    depth = 0
    end = None
    for i, c in enumerate(f):
        if c == '<':
            depth += 1
        elif c == '>' and f[i - 1] not in '-=':
            depth -= 1
            if depth == 0:
                end = i
                break
    if end is None:
        return None
    inner = f[1:end]
    # top-level ' as '
    depth = 0
    pos = None
    i = 0
    while i < len(inner):
        c = inner[i]
        if c in '<([{':
            depth += 1
        elif c in ')]}' or (c == '>' and inner[i - 1] not in '-='):
            depth -= 1
        elif depth == 0 and inner.startswith(' as ', i):
            pos = i
        i += 1
    if pos is None:
        return None
    a = inner[:pos]
    tr = inner[pos + 4:]
    j = tr.find('<')
    if j < 0:
        return a, tr, None
    return a, tr[:j], tr[j + 1:-1]


def split_top_types(s):
    out, depth, cur = [], 0, ''
    i = 0
    while i < len(s):
        c = s[i]
        if c in '<([{':
            depth += 1
        elif c in ')]}':
            depth -= 1
        elif c == '>' and s[i - 1] not in '-=':
            depth -= 1
        if c == ',' and depth == 0:
            out.append(cur.strip())
            cur = ''
        else:
            cur += c
        i += 1
    if cur.strip():
        out.append(cur.strip())
    return out
