"""Models of synchronisation primitives (atomics, tokio mpsc / oneshot / Notify, std Mutex). One semantic definition per
operation (objects.py), used directly in sequential mode and as an event in concurrent mode (Interp.shared_op)."""
import re
import z3

import objects
from values import *
from exec import Outcome, Unmodelled, Inconclusive
from models_std import branch, deref_val, ok, err, some, NONE, panic, ready, PENDING


def obj_at(I, st, ref):
    v = ref
    if isinstance(v, Ref):
        v = I.read(st, v.cell, v.path)
    if not isinstance(v, Obj):
        raise Unmodelled('expected a modelled object, found %r' % (v,))
    return v


def atomic_ty(f):
    m = re.search(r'Atomic::<([iu]\w+|bool)>', f) or re.search(r'Atomic(U8|U16|U32|U64|Usize|I8|I16|I32|I64|Isize|Bool)::', f)
    if not m:
        raise Unmodelled('atomic type of ' + f)
    t = m.group(1)
    return t.lower() if t[0].isupper() else t


def install(I):
    M = I.model

    def sc_bv(v, bits):
        """z3 bit-vector of an integer operand (bv mode only)"""
        if isinstance(v, SymEnum):
            v = v.discr
        if isinstance(v, Enum):
            v = I.mk_int(v.discr, 'isize')
        t = v.t
        if t.size() > bits:
            return z3.Extract(bits - 1, 0, t)
        if t.size() < bits:
            return z3.ZeroExt(bits - t.size(), t)
        return t

    # ------------------------------------------------------------------ atomics
    @M(r'^Atomic::<\w+>::(load|store|swap|fetch_or|fetch_and|fetch_xor|fetch_add|fetch_sub|fetch_max|fetch_min)$', 'Atomic::{load,store,swap,fetch_*}')
    def m_atomic(I, st, f, args, fr):
        o = obj_at(I, st, args[0])
        ty = atomic_ty(f)
        bits = INT_BITS.get(ty, 8)
        opn = f.rsplit('::', 1)[1]
        name = I.objinfo.get(o.oid, {}).get('name', str(o.oid))
        if opn == 'load':
            res = I.shared_op(st, o, 'load', objects.atomic_rmw(lambda w: (w, {'old': w})), {'old': bits}, label='%s.load' % name)
            return I.ret(st, Sc(res['old'], ty))
        v = sc_bv(args[1], bits)
        sg = signed(ty) if ty in INT_BITS else False
        fn = {
            'store': lambda w: (v, {'old': w}),
            'swap': lambda w: (v, {'old': w}),
            'fetch_or': lambda w: (w | v, {'old': w}),
            'fetch_and': lambda w: (w & v, {'old': w}),
            'fetch_xor': lambda w: (w ^ v, {'old': w}),
            'fetch_add': lambda w: (w + v, {'old': w}),
            'fetch_sub': lambda w: (w - v, {'old': w}),
            'fetch_max': lambda w: (z3.If((w > v) if sg else z3.UGT(w, v), w, v), {'old': w}),
            'fetch_min': lambda w: (z3.If((w < v) if sg else z3.ULT(w, v), w, v), {'old': w}),
        }[opn]
        res = I.shared_op(st, o, opn, objects.atomic_rmw(fn), {'old': bits}, label='%s.%s' % (name, opn))
        if opn == 'store':
            return I.ret(st, UNIT)
        return I.ret(st, Sc(res['old'], ty))

    @M(r'^Atomic::<\w+>::(compare_exchange|compare_exchange_weak)$', 'Atomic::compare_exchange(_weak)')
    def m_cas(I, st, f, args, fr):
        o = obj_at(I, st, args[0])
        ty = atomic_ty(f)
        bits = INT_BITS[ty]
        cur, new = sc_bv(args[1], bits), sc_bv(args[2], bits)
        weak = f.endswith('_weak')
        name = I.objinfo.get(o.oid, {}).get('name', str(o.oid))
        free = {}
        spur = z3.BoolVal(False)
        if weak and I.event_mode:
            spur = z3.Bool('spur_%d' % fresh_id())
            free['spur'] = spur

        def fn(w):
            succ = z3.And(w == cur, z3.Not(spur))
            return z3.If(succ, new, w), {'ok': succ, 'old': w}
        res = I.shared_op(st, o, 'cas', objects.atomic_rmw(fn), {'ok': 'bool', 'old': bits}, label='%s.cas' % name, free=free)
        outs = []
        for s2, succ in branch(I, st, res['ok']):
            outs.append(Outcome(s2, 'ret', ok(Sc(res['old'], ty)) if succ else err(Sc(res['old'], ty))))
        return outs

    @M(r'^Atomic::<\w+>::fetch_update', 'Atomic::fetch_update')
    def m_fetch_update(I, st, f, args, fr):
        o = obj_at(I, st, args[0])
        ty = atomic_ty(f)
        bits = INT_BITS[ty]
        clo = args[3]
        name = I.objinfo.get(o.oid, {}).get('name', str(o.oid))
        # summarise the closure on a symbolic input (pure: no events allowed inside)
        x = z3.BitVec('fu_x_%d' % fresh_id(), bits)
        em = I.event_mode
        I.event_mode = False
        sub = st.fork()
        base = len(sub.pc)
        outs = I.call_callable(sub, clo, [Sc(x, ty)], fr)
        I.event_mode = em
        cases = []
        for oo in outs:
            if oo.kind != 'ret' or not isinstance(oo.val, Enum):
                raise Unmodelled('fetch_update closure outcome %r' % (oo,))
            cond = z3.And(oo.st.pc[base:]) if len(oo.st.pc) > base else z3.BoolVal(True)
            if oo.val.variant == 'Some':
                cases.append((cond, True, oo.val.fields[0].t))
            else:
                cases.append((cond, False, None))

        def fn(w):
            changed = z3.BoolVal(False)
            nw = w
            for cond, is_some, val in cases:
                c = z3.substitute(cond, (x, w))
                if is_some:
                    changed = z3.Or(changed, c)
                    nw = z3.If(c, z3.substitute(val, (x, w)), nw)
            return nw, {'old': w, 'changed': changed}
        res = I.shared_op(st, o, 'fetch_update', objects.atomic_rmw(fn), {'old': bits, 'changed': 'bool'}, label='%s.fetch_update' % name)
        res_outs = []
        for s2, ch in branch(I, st, res['changed']):
            res_outs.append(Outcome(s2, 'ret', ok(Sc(res['old'], ty)) if ch else err(Sc(res['old'], ty))))
        return res_outs

    # ------------------------------------------------------------------ mpsc
    @M(r'^tokio::sync::mpsc::UnboundedSender::<.*>::send$|^UnboundedSender::<.*>::send$', 'mpsc::UnboundedSender::send')
    def m_chan_send(I, st, f, args, fr):
        o = obj_at(I, st, args[0])
        h = I.hooks.get('chan_ident')
        if not h:
            raise Unmodelled('no chan_ident hook for channel send')
        ident = h(I, st, o, args[1])
        name = I.objinfo.get(o.oid, {}).get('name', str(o.oid))
        res = I.shared_op(st, o, 'send', objects.chan_send(ident), {'ok': 'bool', 'apos': 8, 'overflow': 'bool'}, label='%s.send' % name, info=ident)
        if I.hooks.get('chan_never_closed') and o.oid in I.hooks['chan_never_closed']:
            # instance without any closing thread: the receiver stays open (initial state open, no close event exists)
            st.assume(res['ok'])
        outs = []
        for s2, succ in branch(I, st, res['ok']):
            outs.append(Outcome(s2, 'ret', ok(UNIT) if succ else err(Agg('SendError', (args[1],)))))
        return outs

    @M(r'oneshot::Sender::<.*>::send$', 'oneshot::Sender::send')
    def m_os_send(I, st, f, args, fr):
        o = args[0]
        if not isinstance(o, Obj):
            raise Unmodelled('oneshot send on %r' % (o,))
        h = I.hooks.get('oneshot_ident')
        ident = h(I, st, o, args[1]) if h else 1
        res = I.shared_op(st, o, 'send', objects.oneshot_send(ident), {'ok': 'bool'}, label='%s.send' % o.oid)
        outs = []
        for s2, okk in branch(I, st, res['ok']):
            outs.append(Outcome(s2, 'ret', ok(UNIT) if okk else err(args[1])))
        return outs

    @M(r'^<SendError<.*> as Into<.*>>::into$|^<.* as From<SendError<.*>>>::from$', 'SendError -> MessagingErr')
    def m_senderror_into(I, st, f, args, fr):
        v = args[0]
        return I.ret(st, Enum('MessagingErr', 'SendErr', 0, (v.fields[0],)))


def install_notify(I):
    """tokio::sync::Notify, per the documented contract (DESIGN 3.1). The waiter index of the calling thread is I.waiter_index."""
    M = I.model

    @M(r'^tokio::sync::Notify::notified$|^Notify::notified$', 'Notify::notified')
    def m_notified(I, st, f, args, fr):
        o = obj_at(I, st, args[0])
        i = I.waiter_index
        I.shared_op(st, o, 'notified', objects.notify_notified(i), {}, label='wait_handler.notified')
        return I.ret(st, Agg('Notified', (o, I.mk_int(i, 'usize'))))

    @M(r'^<Notified<.*> as (futures::|std::future::)?Future>::poll$', 'Notified::poll')
    def m_notified_poll(I, st, f, args, fr):
        p = args[0]
        r = p.fields[0] if isinstance(p, Agg) and p.ty == 'Pin' else p
        n = I.read(st, r.cell, r.path)
        o, i = n.fields[0], n.fields[1].concrete()
        res = I.shared_op(st, o, 'poll', objects.notify_poll(i), {'ready': 'bool'}, label='wait_handler.poll')
        outs = []
        for s2, rdy in branch(I, st, res['ready']):
            outs.append(Outcome(s2, 'ret', ready(UNIT) if rdy else PENDING))
        return outs

    @M(r'^tokio::sync::Notify::notify_waiters$|^Notify::notify_waiters$', 'Notify::notify_waiters')
    def m_notify_waiters(I, st, f, args, fr):
        o = obj_at(I, st, args[0])
        I.shared_op(st, o, 'notify_waiters', objects.notify_waiters(), {}, label='wait_handler.notify_waiters')
        return I.ret(st, UNIT)

    @M(r'^tokio::sync::Notify::notify_one$|^Notify::notify_one$', 'Notify::notify_one')
    def m_notify_one(I, st, f, args, fr):
        o = obj_at(I, st, args[0])
        choice = z3.BitVec('notify_choice_%d' % fresh_id(), 4)
        I.shared_op(st, o, 'notify_one', objects.notify_one(choice), {}, label='wait_handler.notify_one', free={'choice': choice})
        return I.ret(st, UNIT)

    def drop_notified(I, st, v, ref):
        o, i = v.fields[0], v.fields[1].concrete()
        I.shared_op(st, o, 'drop_notified', objects.notify_drop(i), {}, label='wait_handler.drop_notified')
        return I.ret(st, UNIT)
    I.type_drops['Notified'] = drop_notified
