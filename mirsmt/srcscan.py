"""Light-weight scanner of the crate's Rust sources.

The MIR dump does not contain type definitions. The interpreter needs
  * enum variant order / explicit discriminants   (switchInt values <-> variant names)
  * struct field order                            (field index <-> field name, for pre-states and oracles)
  * the self type / trait of every `impl` block   (dump names are `<impl at file:line:col: line:col>`)
all evaluated under the cfg set of the dump. They are read from /repo's current sources on every run.
"""
import os
import re


class ScanError(Exception):
    pass


def strip_comments(src):
    """replace comments and string contents by spaces, preserving offsets and newlines"""
    out = list(src)
    i = 0
    n = len(src)
    while i < n:
        c = src[i]
        if c == '/' and i + 1 < n and src[i + 1] == '/':
            j = src.find('\n', i)
            if j < 0:
                j = n
            for k in range(i, j):
                out[k] = ' '
            i = j
        elif c == '/' and i + 1 < n and src[i + 1] == '*':
            depth = 1
            j = i + 2
            while j < n and depth:
                if src.startswith('/*', j):
                    depth += 1
                    j += 2
                elif src.startswith('*/', j):
                    depth -= 1
                    j += 2
                else:
                    j += 1
            for k in range(i, j):
                if out[k] != '\n':
                    out[k] = ' '
            i = j
        elif c == '"':
            # raw strings r#"..."# handled below by looking back
            j = i + 1
            hashes = 0
            b = i - 1
            while b >= 0 and src[b] == '#':
                hashes += 1
                b -= 1
            if b >= 0 and src[b] == 'r' and (hashes or True) and (b == 0 or not (src[b - 1].isalnum() or src[b - 1] == '_')):
                end = '"' + '#' * hashes
                j = src.find(end, i + 1)
                j = n if j < 0 else j + len(end)
            else:
                while j < n and src[j] != '"':
                    if src[j] == '\\':
                        j += 1
                    j += 1
                j += 1
            for k in range(i + 1, min(j - 1, n)):
                if out[k] != '\n':
                    out[k] = ' '
            i = j
        elif c == "'":
            m = re.compile(r"'(\\.[^']*|[^\\'])'").match(src, i)
            if m:
                for k in range(i + 1, m.end() - 1):
                    out[k] = ' '
                i = m.end()
            else:
                i += 1
        else:
            i += 1
    return ''.join(out)


# ------------------------------------------------------------------ cfg evaluation
def eval_cfg(expr, features, extra=()):
    """expr: text inside #[cfg( ... )]"""
    expr = expr.strip()
    m = re.match(r'^(all|any|not)\s*\((.*)\)$', expr, re.S)
    if m:
        parts = _split(m.group(2))
        vals = [eval_cfg(p, features, extra) for p in parts if p.strip()]
        if m.group(1) == 'all':
            return all(vals)
        if m.group(1) == 'any':
            return any(vals)
        return not vals[0]
    m = re.match(r'^feature\s*=\s*"([^"]*)"$', expr)
    if m:
        return m.group(1) in features
    m = re.match(r'^(\w+)\s*=\s*"([^"]*)"$', expr)
    if m:
        k, v = m.groups()
        if k == 'target_arch':
            return v == 'x86_64'
        if k == 'target_os':
            return v == 'linux'
        if k == 'target_family':
            return v == 'unix'
        return False
    if expr in ('test', 'doc', 'tokio_unstable', 'rust_analyzer', 'miri', 'kani', 'loom', 'debug_assertions', 'windows'):
        return False
    if expr == 'unix':
        return True
    if expr in extra:
        return True
    return False


def _split(s):
    out, depth, cur = [], 0, ''
    for c in s:
        if c == '(':
            depth += 1
        elif c == ')':
            depth -= 1
        if c == ',' and depth == 0:
            out.append(cur)
            cur = ''
        else:
            cur += c
    out.append(cur)
    return out


_ATTR = re.compile(r'#\s*\[')


def _match(src, i, open_c='{', close_c='}'):
    depth = 0
    n = len(src)
    while i < n:
        c = src[i]
        if c == open_c:
            depth += 1
        elif c == close_c:
            depth -= 1
            if depth == 0:
                return i
        i += 1
    raise ScanError('unbalanced')


def _split_items(body):
    """split a `{ ... }` or `( ... )` body into top-level comma separated items (angle/paren/brace/bracket aware)"""
    items, cur, depth = [], '', 0
    i = 0
    n = len(body)
    while i < n:
        c = body[i]
        if c in '([{<':
            depth += 1
        elif c in ')]}':
            depth -= 1
        elif c == '>' and i > 0 and body[i - 1] not in '-=':
            depth -= 1
        if c == ',' and depth == 0:
            items.append(cur)
            cur = ''
        else:
            cur += c
        i += 1
    if cur.strip():
        items.append(cur)
    return items


def _take_attrs(item, raw_item, features, extra):
    """strip leading attributes from an item; returns (enabled, rest)"""
    enabled = True
    s = item
    r = raw_item
    while True:
        m = re.match(r'\s*#\s*\[', s)
        if not m:
            break
        j = _match(s, m.end() - 1, '[', ']')
        attr = r[m.end():j]
        mm = re.match(r'\s*cfg\s*\((.*)\)\s*$', attr, re.S)
        if mm and not eval_cfg(mm.group(1), features, extra):
            enabled = False
        s = s[j + 1:]
        r = r[j + 1:]
    return enabled, s


class Crate:
    def __init__(self, root, features=(), extra_cfg=(), prefix=None):
        """root: crate dir (containing src/). prefix: how the dump prints file paths (e.g. 'ractor/src/')"""
        self.root = root
        self.features = set(features)
        self.extra = set(extra_cfg)
        self.files = {}      # relative path as printed in the dump -> (raw, stripped)
        self.enums = {}      # name -> list of defs {variants:[(name, discr, kind, fields)], file}
        self.structs = {}    # name -> list of defs {fields:[names], kind, file}
        self.impl_cache = {}
        base = os.path.basename(root.rstrip('/'))
        self.prefix = prefix if prefix is not None else base + '/'
        for dp, dn, fn in os.walk(os.path.join(root, 'src')):
            for f in fn:
                if f.endswith('.rs'):
                    p = os.path.join(dp, f)
                    rel = self.prefix + os.path.relpath(p, root)
                    raw = open(p, encoding='utf-8').read()
                    self.files[rel] = (raw, strip_comments(raw))
        for rel in self.files:
            self._scan_file(rel)

    def add_source(self, rel, raw):
        self.files[rel] = (raw, strip_comments(raw))
        self._scan_file(rel)

    # -------------------------------------------------------------- items
    def _scan_file(self, rel):
        raw, s = self.files[rel]
        for m in re.finditer(r'\b(enum|struct)\s+([A-Za-z_]\w*)', s):
            kind, name = m.group(1), m.group(2)
            # cfg attributes immediately before the item (scan backwards over attrs / pub / derives)
            if not self._item_enabled(s, raw, m.start()):
                continue
            i = m.end()
            # skip generics
            while i < len(s) and s[i].isspace():
                i += 1
            if i < len(s) and s[i] == '<':
                depth = 0
                while i < len(s):
                    if s[i] == '<':
                        depth += 1
                    elif s[i] == '>' and s[i - 1] != '-':
                        depth -= 1
                        if depth == 0:
                            i += 1
                            break
                    i += 1
            # skip where clause up to '{' '(' or ';'
            j = i
            while j < len(s) and s[j] not in '{(;':
                j += 1
            if j >= len(s):
                continue
            if kind == 'enum':
                if s[j] != '{':
                    continue
                k = _match(s, j)
                self.enums.setdefault(name, []).append({'file': rel, 'variants': self._variants(s[j + 1:k], raw[j + 1:k]), 'pos': m.start()})
            else:
                if s[j] == ';':
                    self.structs.setdefault(name, []).append({'file': rel, 'fields': [], 'kind': 'unit', 'pos': m.start()})
                elif s[j] == '(':
                    k = _match(s, j, '(', ')')
                    fields = []
                    for it, rit in zip(_split_items(s[j + 1:k]), _split_items_raw(s[j + 1:k], raw[j + 1:k])):
                        en, rest = _take_attrs(it, rit, self.features, self.extra)
                        if en and rest.strip():
                            fields.append(str(len(fields)))
                    self.structs.setdefault(name, []).append({'file': rel, 'fields': fields, 'kind': 'tuple', 'pos': m.start()})
                else:
                    k = _match(s, j)
                    self.structs.setdefault(name, []).append({'file': rel, 'fields': self._fields(s[j + 1:k], raw[j + 1:k]), 'kind': 'named', 'pos': m.start()})

    def _item_enabled(self, s, raw, pos):
        # walk backwards over whitespace, visibility, attributes
        i = pos
        enabled = True
        while True:
            j = i
            while j > 0 and s[j - 1].isspace():
                j -= 1
            mm = re.search(r'(pub(\s*\([^)]*\))?)$', s[:j])
            if mm and mm.group(0):
                j = mm.start()
                while j > 0 and s[j - 1].isspace():
                    j -= 1
            if j > 0 and s[j - 1] == ']':
                # find the matching '#['
                depth = 0
                k = j - 1
                while k >= 0:
                    if s[k] == ']':
                        depth += 1
                    elif s[k] == '[':
                        depth -= 1
                        if depth == 0:
                            break
                    k -= 1
                h = k - 1
                while h >= 0 and s[h].isspace():
                    h -= 1
                if h >= 0 and s[h] == '#':
                    attr = raw[k + 1:j - 1]
                    mm = re.match(r'\s*cfg\s*\((.*)\)\s*$', attr, re.S)
                    if mm and not eval_cfg(mm.group(1), self.features, self.extra):
                        enabled = False
                    i = h
                    continue
            break
        return enabled

    def _fields(self, body, rawbody):
        names = []
        for it, rit in zip(_split_items(body), _split_items_raw(body, rawbody)):
            en, rest = _take_attrs(it, rit, self.features, self.extra)
            m = re.match(r'\s*(pub(\s*\([^)]*\))?\s+)?(r#)?([A-Za-z_]\w*)\s*:', rest)
            if not m:
                continue
            if en:
                names.append(m.group(4))
        return names

    def _variants(self, body, rawbody):
        out = []
        nxt = 0
        for it, rit in zip(_split_items(body), _split_items_raw(body, rawbody)):
            en, rest = _take_attrs(it, rit, self.features, self.extra)
            m = re.match(r'\s*([A-Za-z_]\w*)\s*(.*)$', rest, re.S)
            if not m:
                continue
            if not en:
                continue
            name, tail = m.group(1), m.group(2).strip()
            kind, fields = 'unit', []
            if tail.startswith('('):
                k = _match(tail, 0, '(', ')')
                kind = 'tuple'
                fields = [str(i) for i, x in enumerate(_split_items(tail[1:k])) if x.strip()]
                tail = tail[k + 1:].strip()
            elif tail.startswith('{'):
                k = _match(tail, 0)
                kind = 'named'
                fields = self._fields(tail[1:k], tail[1:k])
                tail = tail[k + 1:].strip()
            mm = re.match(r'=\s*(-?\d+)', tail)
            if mm:
                nxt = int(mm.group(1))
            out.append((name, nxt, kind, fields))
            nxt += 1
        return out

    # -------------------------------------------------------------- lookup
    def enum(self, name, file_hint=None):
        name = name.split('::')[-1]
        defs = self.enums.get(name, [])
        return _pick(defs, file_hint, name)

    def struct(self, name, file_hint=None):
        name = name.split('::')[-1]
        defs = self.structs.get(name, [])
        return _pick(defs, file_hint, name)

    def span_text(self, rel, l1, c1, l2, c2):
        raw, _ = self.files[rel]
        lines = raw.split('\n')
        if l1 == l2:
            return lines[l1 - 1][c1 - 1:c2 - 1]
        parts = [lines[l1 - 1][c1 - 1:]] + lines[l1:l2 - 1] + [lines[l2 - 1][:c2 - 1]]
        return '\n'.join(parts)

    def impl_info(self, rel, l1, c1, l2, c2):
        """returns dict(self_ty=last path segment of Self, trait=last segment of trait or None, derive=bool)"""
        key = (rel, l1, c1, l2, c2)
        if key in self.impl_cache:
            return self.impl_cache[key]
        if rel not in self.files:
            return None
        txt = ' '.join(self.span_text(rel, l1, c1, l2, c2).split())
        info = None
        m = re.match(r'^\s*(unsafe\s+)?impl\b', txt)
        if m:
            rest = txt[m.end():].strip()
            if rest.startswith('<'):
                depth = 0
                for i, c in enumerate(rest):
                    if c == '<':
                        depth += 1
                    elif c == '>' and rest[i - 1] != '-':
                        depth -= 1
                        if depth == 0:
                            rest = rest[i + 1:].strip()
                            break
            mm = re.match(r'^(.*?)\s+for\s+(.*)$', rest, re.S)
            if mm:
                info = {'trait': _last_seg(mm.group(1)), 'self_ty': _last_seg(mm.group(2)), 'derive': False, 'self_full': mm.group(2).strip()}
            else:
                info = {'trait': None, 'self_ty': _last_seg(rest), 'derive': False, 'self_full': rest.strip()}
        else:
            # derive / attribute macro span: the self type is the next struct/enum after the span
            raw, s = self.files[rel]
            off = sum(len(x) + 1 for x in raw.split('\n')[:l2 - 1]) + c2 - 1
            mm = re.compile(r'\b(enum|struct)\s+([A-Za-z_]\w*)').search(s, off)
            if mm:
                info = {'trait': _last_seg(txt), 'self_ty': mm.group(2), 'derive': True, 'self_full': mm.group(2)}
        self.impl_cache[key] = info
        return info


def _split_items_raw(body, rawbody):
    """split rawbody at the same offsets as _split_items(body)"""
    items, depth, start = [], 0, 0
    n = len(body)
    i = 0
    while i < n:
        c = body[i]
        if c in '([{<':
            depth += 1
        elif c in ')]}':
            depth -= 1
        elif c == '>' and i > 0 and body[i - 1] not in '-=':
            depth -= 1
        if c == ',' and depth == 0:
            items.append(rawbody[start:i])
            start = i + 1
        i += 1
    if body[start:].strip():
        items.append(rawbody[start:])
    return items


def _last_seg(ty):
    ty = ty.strip()
    ty = re.sub(r'^(&\s*(mut\s+)?|dyn\s+)', '', ty)
    # drop generic args
    out, depth = '', 0
    for i, c in enumerate(ty):
        if c == '<':
            depth += 1
        elif c == '>' and ty[i - 1] != '-':
            depth -= 1
        elif depth == 0:
            out += c
    out = re.split(r'\bwhere\b', out)[0].strip()
    return out.split('::')[-1].strip()


def _pick(defs, file_hint, name):
    if not defs:
        return None
    if len(defs) == 1:
        return defs[0]
    if file_hint:
        for d in defs:
            if d['file'] == file_hint or d['file'].endswith(file_hint):
                return d
    # prefer non-test definitions
    nt = [d for d in defs if '/tests' not in d['file'] and not d['file'].endswith('tests.rs')]
    if len(nt) == 1:
        return nt[0]
    return {'ambiguous': True, 'defs': defs, **(nt[0] if nt else defs[0])}


if __name__ == '__main__':
    import sys
    c = Crate(sys.argv[1], features=sys.argv[2].split(',') if len(sys.argv) > 2 else ())
    for n in ('ActorStatus', 'ActorProperties', 'LeakyBucketRateLimiter', 'MuxedMessage', 'SupervisionEvent', 'MessagingErr', 'WorkerProperties', 'ActorLifecycleGuard'):
        print(n, c.enum(n) or c.struct(n))
    print(c.impl_info('ractor/src/actor/actor_properties.rs', 43, 1, 43, 35))
    print(c.impl_info('ractor/src/actor/actor_cell.rs', 38, 55, 38, 65))
