"""Concurrent mode: per-thread unfolding into event trees + round-robin-rounds BMC (DESIGN 2.2).

Unfolding: the sequential interpreter runs a thread program with `interp.event_mode = True`; every operation on a shared
object appends ('EV', Event, pc_len) to the trace and returns fresh result variables. The paths of one thread form a tree
(paths share the Event objects of their common prefix).

Composition: slots `round r: thread 1 x L1, thread 2 x L2, ...`; per slot the designated thread skips or executes the event
at its current tree node; skip bits, spurious-CAS bits and environment choices are free solver variables.
"""
import time
import z3

import objects
from values import fresh_id


class Event:
    __slots__ = ('eid', 'oid', 'opname', 'op', 'res', 'label', 'free', 'tid', 'info')

    def __init__(self, oid, opname, op, res, label=None, free=None, info=None):
        self.info = info
        self.eid = fresh_id()
        self.oid = oid
        self.opname = opname
        self.op = op          # state dict -> (enabled, new_state, results dict)
        self.res = res        # result name -> fresh z3 var
        self.label = label
        self.free = free or {}   # free (environment) variables of the event, e.g. 'spur' for weak CAS
        self.tid = None

    def __repr__(self):
        return 'Ev#%d(%s.%s)' % (self.eid, self.oid, self.opname)


class Node:
    __slots__ = ('idx', 'kind', 'event', 'guard', 'children', 'depth', 'data', 'marks', 'parent', 'seg')

    def __init__(self, kind, event=None, guard=None):
        self.idx = None
        self.kind = kind      # 'event' | 'ret' | 'trunc' | 'unwind' | 'abort' | 'root'
        self.event = event
        self.guard = guard or []   # list of z3 bools: segment condition from the parent
        self.children = []
        self.depth = 0
        self.data = None      # leaf summary (property specific)
        self.marks = []       # ghost marks emitted on the edge leading to this node
        self.parent = None
        self.seg = 0


class ThreadTree:
    """event tree(s) of one thread. A thread program may be a sequence of *segments* (calls whose thread-local entry state does not
    depend on the path taken through the previous call): each segment is unfolded once and chained, instead of duplicating the
    later calls under every leaf of the earlier ones."""

    def __init__(self, name, tid, segments=1):
        self.name = name
        self.tid = tid
        self.roots = [Node('root') for _ in range(segments)]
        for i, r in enumerate(self.roots):
            r.seg = i
        self.root = self.roots[0]
        self.nodes = []       # all nodes except roots, idx = position + 1 (0 is reserved)
        self.paths = 0

    def add_path(self, trace, pc, kind, data, seg=0):
        """trace: list of trace entries; pc: full path condition list"""
        cur = self.roots[seg]
        last_pc = 0
        marks = []
        for ent in trace:
            if ent[0] == 'MARK':
                marks.append(ent[1:])
                continue
            if ent[0] != 'EV':
                continue
            ev, pclen = ent[1], ent[2]
            nxt = None
            for c in cur.children:
                if c.kind == 'event' and c.event is ev:
                    nxt = c
                    break
            if nxt is None:
                nxt = Node('event', ev, list(pc[last_pc:pclen]))
                nxt.parent = cur
                nxt.depth = cur.depth + 1
                nxt.marks = marks
                nxt.seg = seg
                ev.tid = self.tid
                cur.children.append(nxt)
                self._register(nxt)
            marks = []
            cur = nxt
            last_pc = pclen
        leaf = Node(kind, None, list(pc[last_pc:]))
        leaf.parent = cur
        leaf.depth = cur.depth + 1
        leaf.data = data
        leaf.marks = marks
        leaf.seg = seg
        cur.children.append(leaf)
        self._register(leaf)
        self.paths += 1

    def _register(self, n):
        self.nodes.append(n)
        n.idx = len(self.nodes)

    def event_nodes(self, seg=None):
        return [n for n in self.nodes if n.kind == 'event' and (seg is None or n.seg == seg)]

    def leaves(self, seg=None):
        return [n for n in self.nodes if n.kind != 'event' and (seg is None or n.seg == seg)]

    def max_event_depth(self):
        tot = 0
        for i in range(len(self.roots)):
            tot += max([n.depth for n in self.event_nodes(i)] or [0])
        return tot


def unfold(interp, name, tid, make_state, programs, summarize):
    """programs: one function or a list of functions (segments) `program(interp, st) -> [(state, kind, payload)]`; each is run in
    event mode from a fresh `make_state()` and becomes one segment of the thread tree."""
    if not isinstance(programs, (list, tuple)):
        programs = [programs]
    tree = ThreadTree(name, tid, len(programs))
    for seg, program in enumerate(programs):
        interp.event_mode = True
        interp.cur_tid = tid
        st = make_state()
        try:
            for (s, kind, payload) in program(interp, st):
                tree.add_path(s.trace, s.pc, kind, summarize(s, kind, payload, seg), seg)
        finally:
            interp.event_mode = False
    return tree


class _Lazy(dict):
    def __init__(self, mk):
        super().__init__()
        self.mk = mk

    def __missing__(self, k):
        v = self.mk(k)
        self[k] = v
        return v


# ----------------------------------------------------------------------------------------------
class BMC:
    def __init__(self, objs, threads, rounds, order=None, no_spurious=False, pos_bits=10):
        """objs: oid -> (kind, init_state dict, kwargs for vars); threads: list of ThreadTree"""
        self.objs = objs
        self.threads = threads
        self.rounds = rounds
        self.cons = []
        self.pos_bits = pos_bits
        self.no_spurious = no_spurious
        order = order or list(range(len(threads)))
        self.slots = []
        for r in range(rounds):
            for ti in order:
                L = max(1, threads[ti].max_event_depth())
                for k in range(L):
                    self.slots.append(ti)
        self.S = len(self.slots)
        self.time_bits = max(8, (self.S + 2).bit_length() + 1)
        self._build()

    def _vars_for(self, oid, s):
        kind, init, kw = self.objs[oid]
        return objects.VARS[kind]('o%s@%d' % (oid, s), **kw)

    def _build(self):
        t0 = time.time()
        T = len(self.threads)
        PB = self.pos_bits
        # per-thread position chain (indexed by the thread's own slot counter)
        self.pos = [[z3.BitVec('pos_t%d_0' % t, PB)] for t in range(T)]
        self.leafvar = [[z3.BitVec('leaf_t%d_s%d' % (t, j), PB) for j in range(len(self.threads[t].roots))] for t in range(T)]
        self.state = {oid: [dict(init)] for oid, (kind, init, kw) in self.objs.items()}
        self.act = []
        self.exec_at = {}     # node -> list of (slot, cond)
        self._time = {}
        self._executed = {}
        cons = self.cons
        # absolute depth of a node = events executed before it (segments are chained)
        self.absdepth = {}
        for t, tr in enumerate(self.threads):
            offs = [0]
            for i in range(len(tr.roots)):
                offs.append(offs[-1] + max([n.depth for n in tr.event_nodes(i)] or [0]))
            for n in tr.nodes:
                self.absdepth[n] = (n.depth, offs[n.seg] + n.depth)   # (min, max) number of events executed when the thread sits at n (incl. n if event)
        # initial positions
        for t, tr in enumerate(self.threads):
            cons.append(self._goto(t, tr.root, self.pos[t][0]))
        own = [0] * T
        prev_slot_of = [None] * T
        for s, t in enumerate(self.slots):
            tr = self.threads[t]
            a = z3.Bool('act_%d' % s)
            self.act.append(a)
            p = self.pos[t][-1]
            pn = z3.BitVec('pos_t%d_%d' % (t, len(self.pos[t])), PB)
            self.pos[t].append(pn)
            k = own[t]          # number of this thread's slots before this one => at most k events executed so far
            own[t] += 1
            # symmetry breaking: inside a block of consecutive slots of one thread the executed slots form a prefix
            if s > 0 and self.slots[s - 1] == t:
                cons.append(z3.Implies(a, self.act[s - 1]))
            evs = [n for n in tr.event_nodes() if n.depth - 1 <= k]   # a node at depth d needs d-1 earlier events in its own segment
            touched = {}
            for n in evs:
                touched.setdefault(n.event.oid, []).append(n)
            at_event = z3.Or([p == n.idx for n in evs]) if evs else z3.BoolVal(False)
            cons.append(z3.Implies(a, at_event))
            cons.append(z3.Implies(z3.Not(a), pn == p))
            newstate = {}
            for oid in touched:
                newstate[oid] = self._vars_for(oid, s + 1)
            for n in evs:
                here = z3.And(a, p == n.idx)
                cur = self.state[n.event.oid][-1]
                enabled, ns, res = n.event.op(cur)
                body = [] if z3.is_true(enabled) else [enabled]
                for kk, var in n.event.res.items():
                    if kk not in res:
                        raise KeyError('event %r: result %s not produced by op' % (n.event, kk))
                    body.append(var == res[kk])
                for kk, var in newstate[n.event.oid].items():
                    body.append(var == ns[kk])
                body.append(self._goto(t, n, pn))
                cons.append(z3.Implies(here, z3.And(body)))
                self.exec_at.setdefault(n, []).append((s, here))
            for oid, nodes in touched.items():
                hit = z3.Or([z3.And(a, p == n.idx) for n in nodes])
                cur = self.state[oid][-1]
                cons.append(z3.Implies(z3.Not(hit), z3.And([newstate[oid][kk] == cur[kk] for kk in cur])))
                self.state[oid].append(newstate[oid])
        if self.no_spurious:
            for tr in self.threads:
                for n in tr.event_nodes():
                    if 'spur' in n.event.free:
                        cons.append(z3.Not(n.event.free['spur']))
        self.executed = _Lazy(self._mk_executed)
        self.time = _Lazy(self._mk_time)
        self.build_s = time.time() - t0

    def _mk_executed(self, n):
        ex = z3.Bool('ex_%d' % n.event.eid)
        occ = self.exec_at.get(n, [])
        self.cons.append(ex == (z3.Or([c for _, c in occ]) if occ else z3.BoolVal(False)))
        return ex

    def _mk_time(self, n):
        tm = z3.BitVec('tm_%d' % n.event.eid, self.time_bits)
        for s, c in self.exec_at.get(n, []):
            self.cons.append(z3.Implies(c, tm == s))
        return tm

    def _goto(self, t, node, posvar):
        """after `node` (or at a root) the thread moves to the child whose guard holds; a `ret` leaf of a non-final segment is
        passed through: its index is recorded in leafvar and the thread continues at the next segment's root"""
        tr = self.threads[t]
        if not node.children:
            return z3.BoolVal(True)
        alts = []
        for c in node.children:
            g = z3.And(c.guard) if c.guard else z3.BoolVal(True)
            if c.kind == 'ret' and c.seg < len(tr.roots) - 1:
                alts.append(z3.And(g, self.leafvar[t][c.seg] == c.idx, self._goto(t, tr.roots[c.seg + 1], posvar)))
            elif c.kind != 'event' and c.seg == len(tr.roots) - 1 and c.kind == 'ret':
                alts.append(z3.And(g, posvar == c.idx, self.leafvar[t][c.seg] == c.idx))
            else:
                alts.append(z3.And(g, posvar == c.idx))
        return z3.Or(alts)

    # ------------------------------------------------------------------ accessors for oracles
    def final_pos(self, t):
        return self.pos[t][-1]

    def finished(self, t, kinds=('ret',)):
        """thread t stopped at a leaf of one of the kinds (a `ret` leaf only counts in the last segment: earlier ones are passed through)"""
        tr = self.threads[t]
        last = len(tr.roots) - 1
        return z3.Or([self.final_pos(t) == n.idx for n in tr.leaves() if n.kind in kinds and (n.kind != 'ret' or n.seg == last)] or [z3.BoolVal(False)])

    def all_finished(self, kinds=('ret',)):
        return z3.And([self.finished(t, kinds) for t in range(len(self.threads))])

    def at_leaf_kind(self, t, kind):
        tr = self.threads[t]
        return z3.Or([self.final_pos(t) == n.idx for n in tr.leaves() if n.kind == kind] or [z3.BoolVal(False)])

    def leaf_select(self, t, fn, default, seg=None):
        """term whose value is fn(leaf) for the `ret` leaf through which thread t left segment `seg` (default: last segment)"""
        tr = self.threads[t]
        if seg is None:
            seg = len(tr.roots) - 1
        out = default
        reached = self.finished(t, ('ret',))
        for n in tr.leaves(seg):
            if n.kind != 'ret':
                continue
            v = fn(n)
            if v is None:
                continue
            out = z3.If(z3.And(reached, self.leafvar[t][seg] == n.idx), v, out)
        return out

    def final_state(self, oid):
        return self.state[oid][-1]

    def schedule_from_model(self, m):
        """list of (slot, thread, node idx, label) for executed slots in order"""
        out = []
        chains = [0] * len(self.threads)
        for s, t in enumerate(self.slots):
            p = self.pos[t][chains[t]]
            chains[t] += 1
            if z3.is_true(m.eval(self.act[s], model_completion=True)):
                idx = m.eval(p, model_completion=True).as_long()
                node = self.threads[t].nodes[idx - 1]
                out.append((s, t, idx, node.event.label or node.event.opname, repr(node.event)))
        return out
