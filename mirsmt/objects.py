"""Semantics of shared library objects (Appendix A of DESIGN.md), written once and used by
  * the sequential interpreter (applied directly to State.objs) and
  * the concurrent BMC composition (applied to per-slot state variables).

An object state is a dict name -> z3 term. An operation is `op(state, args) -> (enabled, new_state, results)` where results is a
dict name -> z3 term. Everything is total; `enabled` is False only for blocking operations (mutex lock, parked waiter).
"""
import z3

QCAP_DEFAULT = 8
ID_BITS = 16


def bv(v, bits):
    return z3.BitVecVal(v, bits)


# ---------------------------------------------------------------------------------------------- atomic word
def atomic_init(bits, value=0):
    return {'w': bv(value, bits)}


def atomic_vars(prefix, bits):
    return {'w': z3.BitVec(prefix + '.w', bits)}


def atomic_rmw(f):
    """f: w -> (new_w, result dict)"""
    def op(state, args=None):
        nw, res = f(state['w'])
        return z3.BoolVal(True), {'w': nw}, res
    return op


# ---------------------------------------------------------------------------------------------- unbounded mpsc channel
def chan_init(cap=QCAP_DEFAULT):
    st = {'len': bv(0, 8), 'total': bv(0, 8), 'closed': z3.BoolVal(False), 'rxdrop': z3.BoolVal(False)}
    for i in range(cap):
        st['c%d' % i] = bv(0, ID_BITS)
    return st


def chan_vars(prefix, cap=QCAP_DEFAULT):
    st = {'len': z3.BitVec(prefix + '.len', 8), 'total': z3.BitVec(prefix + '.total', 8), 'closed': z3.Bool(prefix + '.closed'),
          'rxdrop': z3.Bool(prefix + '.rxdrop')}
    for i in range(cap):
        st['c%d' % i] = z3.BitVec('%s.c%d' % (prefix, i), ID_BITS)
    return st


def chan_cap(state):
    return sum(1 for k in state if k[0] == 'c' and k[1:].isdigit())


def chan_send(ident):
    """tokio UnboundedSender::send: fails (returning the value) iff the receiver is closed or dropped"""
    def op(state, args=None):
        cap = chan_cap(state)
        okk = z3.Not(state['closed'])
        ns = dict(state)
        for i in range(cap):
            ns['c%d' % i] = z3.If(z3.And(okk, state['len'] == i), bv(ident, ID_BITS), state['c%d' % i])
        ns['len'] = z3.If(okk, state['len'] + 1, state['len'])
        ns['total'] = z3.If(okk, state['total'] + 1, state['total'])
        # overflow of the bounded model is a bound violation, exposed through 'overflow'
        return z3.BoolVal(True), ns, {'ok': okk, 'apos': state['total'], 'overflow': z3.And(okk, state['len'] == cap) if cap else z3.BoolVal(False)}
    return op


def chan_recv():
    """try_recv / one successful poll of recv: pops the front if any"""
    def op(state, args=None):
        cap = chan_cap(state)
        has = state['len'] != 0
        ns = dict(state)
        for i in range(cap - 1):
            ns['c%d' % i] = z3.If(has, state['c%d' % (i + 1)], state['c%d' % i])
        ns['c%d' % (cap - 1)] = z3.If(has, bv(0, ID_BITS), state['c%d' % (cap - 1)])
        ns['len'] = z3.If(has, state['len'] - 1, state['len'])
        return z3.BoolVal(True), ns, {'has': has, 'val': state['c0'], 'closed': state['closed']}
    return op


def chan_close():
    def op(state, args=None):
        ns = dict(state)
        ns['closed'] = z3.BoolVal(True)
        return z3.BoolVal(True), ns, {}
    return op


# ---------------------------------------------------------------------------------------------- oneshot
# st: 0 empty, 1 full, 2 taken ; txdrop / rxclosed flags ; val id
def oneshot_init():
    return {'st': bv(0, 2), 'val': bv(0, ID_BITS), 'txdrop': z3.BoolVal(False), 'rxclosed': z3.BoolVal(False)}


def oneshot_vars(prefix):
    return {'st': z3.BitVec(prefix + '.st', 2), 'val': z3.BitVec(prefix + '.val', ID_BITS), 'txdrop': z3.Bool(prefix + '.txdrop'),
            'rxclosed': z3.Bool(prefix + '.rxclosed')}


def oneshot_send(ident):
    def op(state, args=None):
        okk = z3.Not(state['rxclosed'])
        ns = dict(state)
        ns['st'] = z3.If(okk, bv(1, 2), state['st'])
        ns['val'] = z3.If(okk, bv(ident, ID_BITS), state['val'])
        ns['txdrop'] = z3.BoolVal(True)     # the sender is consumed by send
        return z3.BoolVal(True), ns, {'ok': okk}
    return op


def oneshot_poll():
    def op(state, args=None):
        full = state['st'] == 1
        ns = dict(state)
        closed = z3.And(z3.Not(full), state['txdrop'], state['st'] == 0)
        # 2 = value taken, 3 = completed with the closed error: either way the receiver is terminated
        ns['st'] = z3.If(full, bv(2, 2), z3.If(closed, bv(3, 2), state['st']))
        return z3.BoolVal(True), ns, {'ready_val': full, 'ready_closed': closed, 'val': state['val']}
    return op


def oneshot_close():
    def op(state, args=None):
        ns = dict(state)
        ns['rxclosed'] = z3.BoolVal(True)
        return z3.BoolVal(True), ns, {}
    return op


def oneshot_drop_tx():
    def op(state, args=None):
        ns = dict(state)
        ns['txdrop'] = z3.BoolVal(True)
        return z3.BoolVal(True), ns, {}
    return op


# ---------------------------------------------------------------------------------------------- mutex
def mutex_init():
    return {'owner': bv(0, 4)}      # 0 = free, t+1 = owned by thread t


def mutex_vars(prefix):
    return {'owner': z3.BitVec(prefix + '.owner', 4)}


def mutex_lock(tid):
    def op(state, args=None):
        return state['owner'] == 0, {'owner': bv(tid + 1, 4)}, {}
    return op


def mutex_unlock(tid):
    def op(state, args=None):
        return z3.BoolVal(True), {'owner': bv(0, 4)}, {'was_owner': state['owner'] == tid + 1}
    return op


# ---------------------------------------------------------------------------------------------- tokio Notify
# gen: notify_waiters generation; permit: stored notify_one permit; per waiter i: snap_i, reg_i, woken_i, polled_i
def notify_init(nwaiters):
    st = {'gen': bv(0, 8), 'permit': z3.BoolVal(False)}
    for i in range(nwaiters):
        st['snap%d' % i] = bv(0, 8)
        st['reg%d' % i] = z3.BoolVal(False)
        st['woken%d' % i] = z3.BoolVal(False)
        st['polled%d' % i] = z3.BoolVal(False)
        st['created%d' % i] = z3.BoolVal(False)
    return st


def notify_vars(prefix, nwaiters):
    st = {'gen': z3.BitVec(prefix + '.gen', 8), 'permit': z3.Bool(prefix + '.permit')}
    for i in range(nwaiters):
        st['snap%d' % i] = z3.BitVec('%s.snap%d' % (prefix, i), 8)
        for k in ('reg', 'woken', 'polled', 'created'):
            st['%s%d' % (k, i)] = z3.Bool('%s.%s%d' % (prefix, k, i))
    return st


def notify_nwaiters(state):
    return sum(1 for k in state if k.startswith('snap'))


def notify_notified(i):
    """Notify::notified() by waiter i: snapshots the notify_waiters generation ("guaranteed to receive wakeups from
    notify_waiters() as soon as it has been created, even if it has not yet been polled")"""
    def op(state, args=None):
        ns = dict(state)
        ns['snap%d' % i] = state['gen']
        ns['created%d' % i] = z3.BoolVal(True)
        ns['reg%d' % i] = z3.BoolVal(False)
        ns['woken%d' % i] = z3.BoolVal(False)
        ns['polled%d' % i] = z3.BoolVal(False)
        return z3.BoolVal(True), ns, {}
    return op


def notify_poll(i):
    """Notified::poll by waiter i: Ready if a notify_waiters happened since creation or it was woken by notify_one;
    on first poll consumes a stored permit; otherwise registers and returns Pending"""
    def op(state, args=None):
        by_gen = state['gen'] != state['snap%d' % i]
        woken = state['woken%d' % i]
        take_permit = z3.And(z3.Not(by_gen), z3.Not(woken), z3.Not(state['polled%d' % i]), state['permit'])
        # tokio: a registered waiter is also handed a permit stored later? No: notify_one with a registered waiter wakes it
        # directly (woken); a permit is only stored when no waiter is registered.
        rdy = z3.Or(by_gen, woken, take_permit)
        ns = dict(state)
        ns['permit'] = z3.If(take_permit, z3.BoolVal(False), state['permit'])
        ns['polled%d' % i] = z3.BoolVal(True)
        ns['reg%d' % i] = z3.If(rdy, z3.BoolVal(False), z3.BoolVal(True))
        return z3.BoolVal(True), ns, {'ready': rdy}
    return op


def notify_wait_wake(i):
    """a parked waiter resumes only when it has been woken (notify_waiters generation moved or notify_one chose it)"""
    def op(state, args=None):
        en = z3.Or(state['gen'] != state['snap%d' % i], state['woken%d' % i])
        return en, dict(state), {}
    return op


def notify_waiters():
    def op(state, args=None):
        n = notify_nwaiters(state)
        ns = dict(state)
        ns['gen'] = state['gen'] + 1
        for i in range(n):
            ns['woken%d' % i] = z3.Or(state['woken%d' % i], state['reg%d' % i])
            ns['reg%d' % i] = z3.BoolVal(False)
        return z3.BoolVal(True), ns, {}
    return op


def notify_one(choice):
    """notify_one: wakes one registered waiter (the one selected by the free `choice` term, lowest registered index >= choice
    wrapping) or stores the single permit"""
    def op(state, args=None):
        n = notify_nwaiters(state)
        anyreg = z3.Or([state['reg%d' % i] for i in range(n)]) if n else z3.BoolVal(False)
        ns = dict(state)
        # pick: waiter i is chosen iff registered and it is the first registered in the order choice, choice+1, ...
        chosen = []
        for i in range(n):
            order = [(choice_i) for choice_i in range(n)]
            conds = []
            for start in range(n):
                seq = [(start + k) % n for k in range(n)]
                before = seq[:seq.index(i)]
                conds.append(z3.And(choice == start, state['reg%d' % i], *[z3.Not(state['reg%d' % b]) for b in before]))
            chosen.append(z3.Or(conds) if conds else z3.BoolVal(False))
        for i in range(n):
            ns['woken%d' % i] = z3.Or(state['woken%d' % i], chosen[i])
            ns['reg%d' % i] = z3.And(state['reg%d' % i], z3.Not(chosen[i]))
        ns['permit'] = z3.If(anyreg, state['permit'], z3.BoolVal(True))
        return z3.BoolVal(True), ns, {}
    return op


def notify_drop(i):
    """dropping a Notified future deregisters the waiter"""
    def op(state, args=None):
        ns = dict(state)
        ns['reg%d' % i] = z3.BoolVal(False)
        return z3.BoolVal(True), ns, {}
    return op


# ---------------------------------------------------------------------------------------------- flags / small registers
def reg_init(bits=8, value=0):
    return {'v': bv(value, bits)}


def reg_vars(prefix, bits=8):
    return {'v': z3.BitVec(prefix + '.v', bits)}


def reg_rmw(f):
    def op(state, args=None):
        nv, res = f(state['v'])
        return z3.BoolVal(True), {'v': nv}, res
    return op


VARS = {'atomic': atomic_vars, 'chan': chan_vars, 'oneshot': oneshot_vars, 'mutex': mutex_vars, 'notify': notify_vars, 'reg': reg_vars}


# ---------------------------------------------------------------------------------------------- DashMap over a small key domain
def dashmap_init(nkeys, present=None, vals=None):
    st = {}
    for k in range(nkeys):
        st['p%d' % k] = z3.BoolVal(bool(present and present.get(k)))
        st['v%d' % k] = bv((vals or {}).get(k, 0), 8)
        st['l%d' % k] = bv(0, 4)     # 0 free, t+1 = entry guard held by thread t
    return st


def dashmap_vars(prefix, nkeys):
    st = {}
    for k in range(nkeys):
        st['p%d' % k] = z3.Bool('%s.p%d' % (prefix, k))
        st['v%d' % k] = z3.BitVec('%s.v%d' % (prefix, k), 8)
        st['l%d' % k] = z3.BitVec('%s.l%d' % (prefix, k), 4)
    return st


def dashmap_entry(tid, k):
    """DashMap::entry(k): takes the key's (shard) write lock until the Entry is consumed or dropped"""
    def op(state, args=None):
        ns = dict(state)
        ns['l%d' % k] = bv(tid + 1, 4)
        return state['l%d' % k] == 0, ns, {'present': state['p%d' % k], 'val': state['v%d' % k]}
    return op


def dashmap_insert_release(tid, k, val):
    """VacantEntry::insert / OccupiedEntry::insert: write and release"""
    def op(state, args=None):
        ns = dict(state)
        ns['p%d' % k] = z3.BoolVal(True)
        ns['v%d' % k] = bv(val, 8)
        ns['l%d' % k] = bv(0, 4)
        return z3.BoolVal(True), ns, {'held': state['l%d' % k] == tid + 1}
    return op


def dashmap_insert_held(tid, k, val):
    """OccupiedEntry::insert(&mut self, v): overwrite while the entry guard stays held (released when the entry is dropped)"""
    def op(state, args=None):
        ns = dict(state)
        ns['p%d' % k] = z3.BoolVal(True)
        ns['v%d' % k] = bv(val, 8)
        return z3.BoolVal(True), ns, {'held': state['l%d' % k] == tid + 1, 'val': state['v%d' % k]}
    return op


def dashmap_release(tid, k):
    def op(state, args=None):
        ns = dict(state)
        ns['l%d' % k] = z3.If(state['l%d' % k] == tid + 1, bv(0, 4), state['l%d' % k])
        return z3.BoolVal(True), ns, {}
    return op


def dashmap_remove(k):
    """DashMap::remove(k): blocks while an entry guard is held on the key"""
    def op(state, args=None):
        ns = dict(state)
        ns['p%d' % k] = z3.BoolVal(False)
        return state['l%d' % k] == 0, ns, {'present': state['p%d' % k], 'val': state['v%d' % k]}
    return op


def dashmap_insert(k, val):
    """DashMap::insert(k, v): unconditional overwrite"""
    def op(state, args=None):
        ns = dict(state)
        ns['p%d' % k] = z3.BoolVal(True)
        ns['v%d' % k] = bv(val, 8)
        return state['l%d' % k] == 0, ns, {'present': state['p%d' % k], 'val': state['v%d' % k]}
    return op


def dashmap_get(k):
    def op(state, args=None):
        return state['l%d' % k] == 0, dict(state), {'present': state['p%d' % k], 'val': state['v%d' % k]}
    return op


VARS['dashmap'] = dashmap_vars
