//! Probe inside `ractor_cluster::remote_actor`: one serialized message handled by the proxy's real `handle_serialized` on a state built from
//! plain data (pending tags with real reply ports), with a session actor that logs the frames it is asked to send.
#![allow(missing_docs, missing_debug_implementations, dead_code)]
use super::*;
use std::sync::{Arc, Mutex};

struct LogSession(Arc<Mutex<Vec<String>>>);
#[cfg_attr(feature = "async-trait", ractor::async_trait)]
impl Actor for LogSession {
    type Msg = NodeSessionMessage;
    type State = ();
    type Arguments = ();
    async fn pre_start(&self, _: ActorRef<Self::Msg>, _: ()) -> Result<(), ActorProcessingErr> {
        Ok(())
    }
    async fn handle(&self, _: ActorRef<Self::Msg>, m: Self::Msg, _: &mut ()) -> Result<(), ActorProcessingErr> {
        if let NodeSessionMessage::SendMessage(nm) = m {
            use crate::protocol::node::node_message::Msg;
            let line = match nm.msg {
                Some(Msg::Call(c)) => format!("Call/to={}/tag={}/timeout={}/what={:?}/variant={}/meta={:?}", c.to, c.tag, c.timeout_ms.map(|x| x as i64).unwrap_or(-1), c.what, c.variant, c.metadata),
                Some(Msg::Cast(c)) => format!("Cast/to={}/what={:?}/variant={}/meta={:?}", c.to, c.what, c.variant, c.metadata),
                Some(Msg::Reply(r)) => format!("Reply/to={}/tag={}/what={:?}", r.to, r.tag, r.what),
                None => "None".to_string(),
            };
            self.0.lock().unwrap().push(line.replace([' ', ','], ""));
        }
        Ok(())
    }
}

/// kind: "Call/timeout" | "Call/no-timeout" | "Cast" | "CallReply"; `pending`: (tag, port already closed?) in ascending tag order.
/// Returns "frames=..;resolved=<tags whose receiver got data>;pending=<tags>;counter=<n>".
#[allow(clippy::too_many_arguments)]
pub async fn proxy_step(pid: u64, counter: u64, pending: &[(u64, bool)], cursor: Option<u64>, kind: &str, reply_tag: u64, timeout_ms: u64, session_dead: bool) -> String {
    let log = Arc::new(Mutex::new(Vec::new()));
    let (session, sh) = Actor::spawn(None, LogSession(log.clone()), ()).await.unwrap();
    let (sup, _suph) = Actor::spawn(None, LogSession(Arc::new(Mutex::new(Vec::new()))), ()).await.unwrap();
    let (myself, _mh) = RemoteActor.spawn_linked(session.clone(), None, pid, 3, sup.get_cell()).await.unwrap();
    if session_dead {
        session.stop(None);
        let _ = sh.await;
    }
    let mut state = RemoteActorState::new(session.clone());
    state.message_tag = counter;
    state.pending_request_cleanup_cursor = cursor;
    let mut rxs = Vec::new();
    for (tag, closed) in pending {
        let (tx, rx) = ractor::concurrency::oneshot::<Vec<u8>>();
        state.pending_requests.insert(*tag, tx.into());
        if *closed {
            drop(rx);
        } else {
            rxs.push((*tag, rx));
        }
    }
    let (ntx, _nrx) = ractor::concurrency::oneshot::<Vec<u8>>();
    let msg = match kind {
        "Call/timeout" => SerializedMessage::Call { variant: "v".to_string(), args: vec![1, 2], reply: (ntx, std::time::Duration::from_millis(timeout_ms)).into(), metadata: Some(vec![9]) },
        "Call/no-timeout" => SerializedMessage::Call { variant: "v".to_string(), args: vec![1, 2], reply: ntx.into(), metadata: Some(vec![9]) },
        "Cast" => SerializedMessage::Cast { variant: "v".to_string(), args: vec![1, 2], metadata: Some(vec![9]) },
        "CallReply" => SerializedMessage::CallReply(reply_tag, vec![7, 7]),
        other => panic!("unknown kind {other}"),
    };
    let _ = RemoteActor.handle_serialized(myself.clone(), msg, &mut state).await;
    for _ in 0..50 {
        tokio::task::yield_now().await;
    }
    let mut resolved = Vec::new();
    for (tag, mut rx) in rxs {
        if let Ok(v) = rx.try_recv() {
            if v == vec![7, 7] {
                resolved.push(tag.to_string());
            } else {
                resolved.push(format!("{tag}!wrongdata"));
            }
        }
    }
    let p: Vec<String> = state.pending_requests.keys().map(|k| k.to_string()).collect();
    let frames = log.lock().unwrap().join("+");
    myself.stop(None);
    format!("frames={};resolved={};pending={};counter={}", frames, resolved.join("+"), p.join("+"), state.message_tag)
}
