//! Probe for the private duplicate-connection election kernel of `ractor_cluster::node`
//! (`elect_sessions`, `SessionElectionCandidate`). Plain data in, plain data out.
use super::*;

/// `elect_sessions` on candidates given as `(local pid, is_server, nonce)`; nonce `0` means "legacy peer, no
/// connection id" (`None`). Returns the local pids of the elected sessions in the order the function returned them.
pub fn verif_elect(this_name: &str, peer_name: &str, cands: &[(u64, bool, u64)]) -> Vec<u64> {
    let mut v: Vec<SessionElectionCandidate> = Vec::with_capacity(cands.len());
    for &(pid, is_server, nonce) in cands {
        v.push(SessionElectionCandidate {
            actor_id: ActorId::Local(pid),
            is_server,
            connection_id: NonZeroU64::new(nonce),
        });
    }
    let elected = elect_sessions(this_name, peer_name, v);
    let mut out = Vec::with_capacity(elected.len());
    for id in elected {
        out.push(match id {
            ActorId::Local(pid) => pid,
            // never produced from local candidates; made visible instead of being mapped onto a valid pid
            ActorId::Remote { .. } => u64::MAX,
        });
    }
    out
}

// ---------------------------------------------------------------------------------------------------------------------
// Probes for the handshake state machines of `node::auth` (pub(crate) there). States and messages travel as plain data:
// the state by the *name* of its variant plus its payload, the message by the name of its oneof variant plus its fields.

fn verif_name_message() -> crate::protocol::auth::NameMessage {
    crate::protocol::auth::NameMessage {
        name: "verif-peer".to_string(),
        flags: Some(crate::protocol::auth::NodeFlags { version: 1 }),
        connection_string: "verif-peer:1".to_string(),
        connection_id: 7,
    }
}

/// Build an `AuthenticationMessage`: `kind` is "None" or the name of the oneof variant.
pub fn verif_auth_msg(kind: &str, val: u32, flag: bool, digest: &[u8]) -> crate::protocol::auth::AuthenticationMessage {
    use crate::protocol::auth as proto;
    use crate::protocol::auth::authentication_message::Msg;
    let msg = match kind {
        "None" => None,
        "Name" => Some(Msg::Name(verif_name_message())),
        "ServerStatus" => Some(Msg::ServerStatus(proto::ServerStatus { status: val as i32 })),
        "ClientStatus" => Some(Msg::ClientStatus(proto::ClientStatus { status: flag })),
        "ServerChallenge" => Some(Msg::ServerChallenge(proto::Challenge {
            name: "verif-peer".to_string(),
            flags: Some(proto::NodeFlags { version: 1 }),
            challenge: val,
            connection_string: "verif-peer:1".to_string(),
        })),
        "ClientChallenge" => Some(Msg::ClientChallenge(proto::ChallengeReply { challenge: val, digest: digest.to_vec() })),
        "ServerAck" => Some(Msg::ServerAck(proto::ChallengeAck { digest: digest.to_vec() })),
        other => panic!("verif_auth_msg: unknown kind {other}"),
    };
    proto::AuthenticationMessage { msg }
}

pub(crate) fn verif_server_state(state: &str, a: u32, d1: [u8; 32]) -> auth::ServerAuthenticationProcess {
    use auth::ServerAuthenticationProcess as S;
    match state {
        "WaitingOnPeerName" => S::WaitingOnPeerName,
        "HavePeerName" => S::HavePeerName(verif_name_message()),
        "WaitingOnClientStatus" => S::WaitingOnClientStatus,
        "WaitingOnClientChallengeReply" => S::WaitingOnClientChallengeReply(a, d1),
        "Ok" => S::Ok(d1),
        "Close" => S::Close,
        other => panic!("verif_server_state: unknown state {other}"),
    }
}

pub(crate) fn verif_server_state_out(s: &auth::ServerAuthenticationProcess) -> (String, u32, [u8; 32]) {
    use auth::ServerAuthenticationProcess as S;
    match s {
        S::WaitingOnPeerName => ("WaitingOnPeerName".to_string(), 0, [0; 32]),
        S::HavePeerName(_) => ("HavePeerName".to_string(), 0, [0; 32]),
        S::WaitingOnClientStatus => ("WaitingOnClientStatus".to_string(), 0, [0; 32]),
        S::WaitingOnClientChallengeReply(c, d) => ("WaitingOnClientChallengeReply".to_string(), *c, *d),
        S::Ok(d) => ("Ok".to_string(), 0, *d),
        S::Close => ("Close".to_string(), 0, [0; 32]),
    }
}

pub(crate) fn verif_client_state(state: &str, a: u32, b: u32, d1: [u8; 32], d2: [u8; 32]) -> auth::ClientAuthenticationProcess {
    use auth::ClientAuthenticationProcess as C;
    use crate::protocol::auth as proto;
    match state {
        "WaitingForServerStatus" => C::WaitingForServerStatus,
        "WaitingForServerChallenge" => C::WaitingForServerChallenge(proto::ServerStatus { status: a as i32 }),
        "WaitingForServerChallengeAck" => C::WaitingForServerChallengeAck(
            proto::Challenge {
                name: "verif-peer".to_string(),
                flags: Some(proto::NodeFlags { version: 1 }),
                challenge: a,
                connection_string: "verif-peer:1".to_string(),
            },
            d1,
            b,
            d2,
        ),
        "Ok" => C::Ok,
        "Close" => C::Close,
        other => panic!("verif_client_state: unknown state {other}"),
    }
}

pub(crate) fn verif_client_state_out(s: &auth::ClientAuthenticationProcess) -> (String, u32, [u8; 32]) {
    use auth::ClientAuthenticationProcess as C;
    match s {
        C::WaitingForServerStatus => ("WaitingForServerStatus".to_string(), 0, [0; 32]),
        C::WaitingForServerChallenge(_) => ("WaitingForServerChallenge".to_string(), 0, [0; 32]),
        C::WaitingForServerChallengeAck(_, _, c, d) => ("WaitingForServerChallengeAck".to_string(), *c, *d),
        C::Ok => ("Ok".to_string(), 0, [0; 32]),
        C::Close => ("Close".to_string(), 0, [0; 32]),
    }
}

/// One step of the server machine; returns (next state name, stored challenge, stored / reply digest).
#[allow(clippy::too_many_arguments)]
pub fn verif_server_next(state: &str, a: u32, d1: [u8; 32], kind: &str, val: u32, flag: bool, digest: &[u8], cookie: &str) -> (String, u32, [u8; 32]) {
    let s = verif_server_state(state, a, d1);
    verif_server_state_out(&s.next(verif_auth_msg(kind, val, flag, digest), cookie))
}

/// `start_challenge` from the given state.
pub fn verif_server_start_challenge(state: &str, a: u32, d1: [u8; 32], cookie: &str) -> (String, u32, [u8; 32]) {
    verif_server_state_out(&verif_server_state(state, a, d1).start_challenge(cookie))
}

/// One step of the client machine; returns (next state name, our challenge, expected digest).
#[allow(clippy::too_many_arguments)]
pub fn verif_client_next(state: &str, a: u32, b: u32, d1: [u8; 32], d2: [u8; 32], kind: &str, val: u32, flag: bool, digest: &[u8], cookie: &str) -> (String, u32, [u8; 32]) {
    let s = verif_client_state(state, a, b, d1, d2);
    verif_client_state_out(&s.next(verif_auth_msg(kind, val, flag, digest), cookie))
}

/// `hash::challenge_digest`
pub fn verif_digest(cookie: &str, challenge: u32) -> [u8; 32] {
    crate::hash::challenge_digest(cookie, challenge)
}

// ---------------------------------------------------------------------------------------------------------------------
// Probe for the node server's listing: `GetSessions` handled by the real `NodeServer::handle` on a state with two known sessions (ids 1 and 2,
// both with a peer name unless excluded), of which `authenticated` are recorded as authenticated. Returns the node ids listed.
struct VerifListener;
#[cfg_attr(feature = "async-trait", ractor::async_trait)]
impl Actor for VerifListener {
    type Msg = crate::net::ListenerMessage;
    type State = ();
    type Arguments = ();
    async fn pre_start(&self, _: ActorRef<Self::Msg>, _: ()) -> Result<(), ActorProcessingErr> {
        Ok(())
    }
}
struct VerifSess;
#[cfg_attr(feature = "async-trait", ractor::async_trait)]
impl Actor for VerifSess {
    type Msg = NodeSessionMessage;
    type State = ();
    type Arguments = ();
    async fn pre_start(&self, _: ActorRef<Self::Msg>, _: ()) -> Result<(), ActorProcessingErr> {
        Ok(())
    }
}
struct VerifServerActor;
#[cfg_attr(feature = "async-trait", ractor::async_trait)]
impl Actor for VerifServerActor {
    type Msg = NodeServerMessage;
    type State = ();
    type Arguments = ();
    async fn pre_start(&self, _: ActorRef<Self::Msg>, _: ()) -> Result<(), ActorProcessingErr> {
        Ok(())
    }
}

pub async fn verif_get_sessions(authenticated: &[u64], unnamed: &[u64]) -> Vec<u64> {
    let (listener, _lh) = Actor::spawn(None, VerifListener, ()).await.unwrap();
    let (me, _mh) = Actor::spawn(None, VerifServerActor, ()).await.unwrap();
    let mut node_sessions = HashMap::new();
    let mut ids = HashMap::new();
    for n in [1u64, 2u64] {
        let (s, _sh) = Actor::spawn(None, VerifSess, ()).await.unwrap();
        let mut info = NodeServerSessionInformation::new(s.clone(), true, 100 + n, format!("addr{n}"));
        if !unnamed.contains(&n) {
            info.peer_name = Some(auth_protocol::NameMessage { name: format!("peer{n}"), flags: None, connection_string: format!("peer{n}:1"), connection_id: 0 });
        }
        ids.insert(n, s.get_id());
        node_sessions.insert(s.get_id(), info);
    }
    let mut state = NodeServerState {
        listener,
        node_sessions,
        node_id_counter: 200,
        this_node_name: auth_protocol::NameMessage { name: "this".to_string(), flags: None, connection_string: "this:1".to_string(), connection_id: 0 },
        subscriptions: HashMap::new(),
        connection_ids: HashMap::new(),
        authenticated_sessions: authenticated.iter().filter_map(|n| ids.get(n).copied()).collect(),
    };
    let server = NodeServer::new(0, "cookie".to_string(), "this".to_string(), "localhost".to_string(), None, None);
    let (tx, rx) = ractor::concurrency::oneshot();
    let _ = server.handle(me.clone(), NodeServerMessage::GetSessions(tx.into()), &mut state).await;
    let mut listed: Vec<u64> = rx.await.map(|m| m.keys().map(|k| *k - 100).collect()).unwrap_or_default();
    listed.sort();
    listed
}

/// `ConnectionAuthenticated(announcing)` handled by the real `NodeServer::handle` on a state whose sessions (ids 1..n, all named "peer") are given as
/// (is_server, nonce; 0 = none); `before` are the ids already recorded as authenticated. Returns (ids authenticated afterwards, ids whose session
/// actor was stopped).
pub async fn verif_commit(sessions: &[(bool, u64)], before: &[u64], announcing: u64) -> (Vec<u64>, Vec<u64>) {
    let (listener, _lh) = Actor::spawn(None, VerifListener, ()).await.unwrap();
    let (me, _mh) = Actor::spawn(None, VerifServerActor, ()).await.unwrap();
    let mut node_sessions = HashMap::new();
    let mut connection_ids = HashMap::new();
    let mut actors = Vec::new();
    for (i, (srv, nonce)) in sessions.iter().enumerate() {
        let n = i as u64 + 1;
        let (s, _sh) = Actor::spawn(None, VerifSess, ()).await.unwrap();
        let mut info = NodeServerSessionInformation::new(s.clone(), *srv, 100 + n, format!("addr{n}"));
        info.peer_name = Some(auth_protocol::NameMessage { name: "peer".to_string(), flags: None, connection_string: "peer:1".to_string(), connection_id: 0 });
        node_sessions.insert(s.get_id(), info);
        connection_ids.insert(s.get_id(), NonZeroU64::new(*nonce));
        actors.push((n, s));
    }
    let id_of = |n: u64| actors.iter().find(|(k, _)| *k == n).map(|(_, a)| a.get_id()).unwrap();
    let mut state = NodeServerState {
        listener,
        node_sessions,
        node_id_counter: 200,
        this_node_name: auth_protocol::NameMessage { name: "this".to_string(), flags: None, connection_string: "this:1".to_string(), connection_id: 0 },
        subscriptions: HashMap::new(),
        connection_ids,
        authenticated_sessions: before.iter().map(|n| id_of(*n)).collect(),
    };
    let server = NodeServer::new(0, "cookie".to_string(), "this".to_string(), "localhost".to_string(), None, None);
    let _ = server.handle(me.clone(), NodeServerMessage::ConnectionAuthenticated(id_of(announcing)), &mut state).await;
    for _ in 0..50 {
        tokio::task::yield_now().await;
    }
    ractor::concurrency::sleep(ractor::concurrency::Duration::from_millis(20)).await;
    let mut auth: Vec<u64> = actors.iter().filter(|(_, a)| state.authenticated_sessions.contains(&a.get_id())).map(|(n, _)| *n).collect();
    auth.sort();
    let mut stopped: Vec<u64> = actors
        .iter()
        .filter(|(_, a)| !matches!(a.get_status(), ractor::ActorStatus::Running | ractor::ActorStatus::Upgrading))
        .map(|(n, _)| *n)
        .collect();
    stopped.sort();
    (auth, stopped)
}

/// `NodeServerState::check_candidate(asking)` on a state whose sessions (ids 1..n) are given as (is_server, nonce; 0 = none, peer name); `auth` are the ids
/// recorded as authenticated; `this` is the local node name. Returns the reply's variant name.
pub async fn verif_check_candidate(sessions: &[(bool, u64, String)], auth: &[u64], asking: u64, this: &str) -> String {
    let (listener, _lh) = Actor::spawn(None, VerifListener, ()).await.unwrap();
    let mut node_sessions = HashMap::new();
    let mut connection_ids = HashMap::new();
    let mut actors = Vec::new();
    for (i, (srv, nonce, peer)) in sessions.iter().enumerate() {
        let n = i as u64 + 1;
        let (s, _sh) = Actor::spawn(None, VerifSess, ()).await.unwrap();
        let mut info = NodeServerSessionInformation::new(s.clone(), *srv, 100 + n, format!("addr{n}"));
        info.peer_name = Some(auth_protocol::NameMessage { name: peer.clone(), flags: None, connection_string: "peer:1".to_string(), connection_id: 0 });
        node_sessions.insert(s.get_id(), info);
        connection_ids.insert(s.get_id(), NonZeroU64::new(*nonce));
        actors.push((n, s));
    }
    let id_of = |n: u64| actors.iter().find(|(k, _)| *k == n).map(|(_, a)| a.get_id()).unwrap();
    let state = NodeServerState {
        listener,
        node_sessions,
        node_id_counter: 200,
        this_node_name: auth_protocol::NameMessage { name: this.to_string(), flags: None, connection_string: "this:1".to_string(), connection_id: 0 },
        subscriptions: HashMap::new(),
        connection_ids,
        authenticated_sessions: auth.iter().map(|n| id_of(*n)).collect(),
    };
    let r = match state.check_candidate(id_of(asking)) {
        SessionCheckReply::NoOtherConnection => "NoOtherConnection",
        SessionCheckReply::ThisConnectionContinues => "ThisConnectionContinues",
        SessionCheckReply::OtherConnectionContinues => "OtherConnectionContinues",
        SessionCheckReply::DuplicateConnection => "DuplicateConnection",
    };
    for (_, a) in actors {
        a.stop(None);
    }
    r.to_string()
}

/// `NodeServerState::check_session(NameMessage { name, connection_id: nonce })` on a state built like the one of `verif_check_candidate`
pub async fn verif_check_session(sessions: &[(bool, u64, String)], auth: &[u64], name: &str, nonce: u64, this: &str) -> String {
    let (listener, _lh) = Actor::spawn(None, VerifListener, ()).await.unwrap();
    let mut node_sessions = HashMap::new();
    let mut connection_ids = HashMap::new();
    let mut actors = Vec::new();
    for (i, (srv, n_, peer)) in sessions.iter().enumerate() {
        let n = i as u64 + 1;
        let (s, _sh) = Actor::spawn(None, VerifSess, ()).await.unwrap();
        let mut info = NodeServerSessionInformation::new(s.clone(), *srv, 100 + n, format!("addr{n}"));
        info.peer_name = Some(auth_protocol::NameMessage { name: peer.clone(), flags: None, connection_string: "peer:1".to_string(), connection_id: 0 });
        node_sessions.insert(s.get_id(), info);
        connection_ids.insert(s.get_id(), NonZeroU64::new(*n_));
        actors.push((n, s));
    }
    let id_of = |n: u64| actors.iter().find(|(k, _)| *k == n).map(|(_, a)| a.get_id()).unwrap();
    let state = NodeServerState {
        listener,
        node_sessions,
        node_id_counter: 200,
        this_node_name: auth_protocol::NameMessage { name: this.to_string(), flags: None, connection_string: "this:1".to_string(), connection_id: 0 },
        subscriptions: HashMap::new(),
        connection_ids,
        authenticated_sessions: auth.iter().map(|n| id_of(*n)).collect(),
    };
    let asked = auth_protocol::NameMessage { name: name.to_string(), flags: None, connection_string: "peer:1".to_string(), connection_id: nonce };
    let r = match state.check_session(&asked) {
        SessionCheckReply::NoOtherConnection => "NoOtherConnection",
        SessionCheckReply::ThisConnectionContinues => "ThisConnectionContinues",
        SessionCheckReply::OtherConnectionContinues => "OtherConnectionContinues",
        SessionCheckReply::DuplicateConnection => "DuplicateConnection",
    };
    for (_, a) in actors {
        a.stop(None);
    }
    r.to_string()
}

struct VerifSub(std::sync::Arc<std::sync::Mutex<Vec<String>>>);
impl NodeEventSubscription for VerifSub {
    fn node_session_opened(&self, ses: NodeServerSessionInformation) {
        self.0.lock().unwrap().push(format!("opened:{}", ses.node_id));
    }
    fn node_session_disconnected(&self, ses: NodeServerSessionInformation) {
        self.0.lock().unwrap().push(format!("disconnected:{}", ses.node_id));
    }
    fn node_session_authenticated(&self, ses: NodeServerSessionInformation) {
        self.0.lock().unwrap().push(format!("authenticated:{}", ses.node_id));
    }
    fn node_session_ready(&self, ses: NodeServerSessionInformation) {
        self.0.lock().unwrap().push(format!("ready:{}", ses.node_id));
    }
}

/// `ConnectionReady(x)` handled by the real NodeServer for every session x of the state (sessions 1..n to the peer "peer", given as (is_server, nonce);
/// `auth` = ids recorded as authenticated): which sessions are reported ready to a subscriber. Returns the ids reported, in order of x.
pub async fn verif_ready(sessions: &[(bool, u64)], auth: &[u64]) -> Vec<u64> {
    let mut reported = Vec::new();
    for x in 1..=sessions.len() as u64 {
        let (listener, _lh) = Actor::spawn(None, VerifListener, ()).await.unwrap();
        let (me, _mh) = Actor::spawn(None, VerifServerActor, ()).await.unwrap();
        let mut node_sessions = HashMap::new();
        let mut connection_ids = HashMap::new();
        let mut actors = Vec::new();
        for (i, (srv, nonce)) in sessions.iter().enumerate() {
            let n = i as u64 + 1;
            let (s, _sh) = Actor::spawn(None, VerifSess, ()).await.unwrap();
            let mut info = NodeServerSessionInformation::new(s.clone(), *srv, 100 + n, format!("addr{n}"));
            info.peer_name = Some(auth_protocol::NameMessage { name: "peer".to_string(), flags: None, connection_string: "peer:1".to_string(), connection_id: 0 });
            node_sessions.insert(s.get_id(), info);
            connection_ids.insert(s.get_id(), NonZeroU64::new(*nonce));
            actors.push((n, s));
        }
        let id_of = |n: u64| actors.iter().find(|(k, _)| *k == n).map(|(_, a)| a.get_id()).unwrap();
        let log = std::sync::Arc::new(std::sync::Mutex::new(Vec::new()));
        let mut subscriptions: HashMap<String, Box<dyn NodeEventSubscription>> = HashMap::new();
        subscriptions.insert("sub".to_string(), Box::new(VerifSub(log.clone())));
        let mut state = NodeServerState {
            listener,
            node_sessions,
            node_id_counter: 200,
            this_node_name: auth_protocol::NameMessage { name: "this".to_string(), flags: None, connection_string: "this:1".to_string(), connection_id: 0 },
            subscriptions,
            connection_ids,
            authenticated_sessions: auth.iter().map(|n| id_of(*n)).collect(),
        };
        let server = NodeServer::new(0, "cookie".to_string(), "this".to_string(), "localhost".to_string(), None, None);
        let _ = server.handle(me.clone(), NodeServerMessage::ConnectionReady(id_of(x)), &mut state).await;
        let l = log.lock().unwrap().clone();
        if l.iter().any(|e| e == &format!("ready:{}", 100 + x)) {
            reported.push(x);
        }
        if l.iter().any(|e| !e.starts_with("ready:") || e != &format!("ready:{}", 100 + x)) {
            reported.push(1000 + x); // a foreign event
        }
        for (_, a) in actors {
            a.stop(None);
        }
        me.stop(None);
    }
    reported
}
