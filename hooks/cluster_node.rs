//! Probe for the private duplicate-connection election kernel of `ractor_cluster::node`
//! (`elect_sessions`, `SessionElectionCandidate`). Plain data in, plain data out.
use super::*;

/// `elect_sessions` on candidates given as `(local pid, is_server, nonce)`; nonce `0` means "legacy peer, no
/// connection id" (`None`). Returns the local pids of the elected sessions in the order the function returned them.
pub fn verif_elect(this_name: &str, peer_name: &str, cands: &[(u64, bool, u64)]) -> Vec<u64> {
    let mut v: Vec<SessionElectionCandidate> = Vec::with_capacity(cands.len());
    for &(pid, is_server, nonce) in cands {
        v.push(SessionElectionCandidate {
            actor_id: ActorId::Local(pid),
            is_server,
            connection_id: NonZeroU64::new(nonce),
        });
    }
    let elected = elect_sessions(this_name, peer_name, v);
    let mut out = Vec::with_capacity(elected.len());
    for id in elected {
        out.push(match id {
            ActorId::Local(pid) => pid,
            // never produced from local candidates; made visible instead of being mapped onto a valid pid
            ActorId::Remote { .. } => u64::MAX,
        });
    }
    out
}
