//! Probe for the private frame-length gate of `ractor_cluster::net::session` (`checked_frame_length`).
use super::*;

/// `checked_frame_length(length, max_frame_size)` with the error flattened: `Some(n)` for `Ok(n)`, `None` for `Err(_)`.
pub fn verif_frame_len(length: u64, max_frame_size: u64) -> Option<usize> {
    checked_frame_length(length, max_frame_size).ok()
}

/// A reader that hands out `total` bytes (value = position mod 251) in pieces of the given sizes (a piece larger than the caller's buffer is cut to
/// the buffer), then reports EOF.
struct VerifChunkReader {
    pos: usize,
    total: usize,
    chunks: std::collections::VecDeque<usize>,
}
impl tokio::io::AsyncRead for VerifChunkReader {
    fn poll_read(mut self: std::pin::Pin<&mut Self>, _cx: &mut std::task::Context<'_>, buf: &mut tokio::io::ReadBuf<'_>) -> std::task::Poll<std::io::Result<()>> {
        let left = self.total - self.pos;
        let want = self.chunks.pop_front().unwrap_or(left);
        let n = want.min(left).min(buf.remaining());
        if n < want.min(left) {
            // the caller asked for less than this piece: the rest of the piece stays for the next read
            let rest = want.min(left) - n;
            self.chunks.push_front(rest);
        }
        let data: Vec<u8> = (self.pos..self.pos + n).map(|i| (i % 251) as u8).collect();
        buf.put_slice(&data);
        self.pos += n;
        std::task::Poll::Ready(Ok(()))
    }
}

/// `read_n_bytes(len)` over a stream of `total` bytes delivered in the given piece sizes. Ok(n, intact) = n bytes returned and they are the first n
/// bytes of the stream in order; Err(kind).
pub async fn verif_read_n(len: usize, total: usize, chunks: &[usize]) -> Result<(usize, bool), String> {
    let reader = VerifChunkReader { pos: 0, total, chunks: chunks.iter().copied().collect() };
    let mut half = ActorReadHalf::External(Box::new(reader));
    match read_n_bytes(&mut half, len).await {
        Ok(v) => Ok((v.len(), v.iter().enumerate().all(|(i, b)| *b == (i % 251) as u8))),
        Err(e) => Err(format!("{:?}", e.kind())),
    }
}

struct VerifSink {
    got: std::sync::Arc<std::sync::atomic::AtomicUsize>,
}
impl Actor for VerifSink {
    type Msg = SessionMessage;
    type State = ();
    type Arguments = ();
    async fn pre_start(&self, _: ActorRef<SessionMessage>, _: ()) -> Result<(), ActorProcessingErr> {
        Ok(())
    }
    async fn handle(&self, _: ActorRef<SessionMessage>, m: SessionMessage, _: &mut ()) -> Result<(), ActorProcessingErr> {
        if let SessionMessage::ObjectAvailable(_) = m {
            self.got.fetch_add(1, std::sync::atomic::Ordering::SeqCst);
        }
        Ok(())
    }
}

/// A bytes-then-EOF reader delivering `stream` in pieces of `piece` bytes.
struct VerifBytesReader {
    data: Vec<u8>,
    pos: usize,
    piece: usize,
}
impl tokio::io::AsyncRead for VerifBytesReader {
    fn poll_read(mut self: std::pin::Pin<&mut Self>, _cx: &mut std::task::Context<'_>, buf: &mut tokio::io::ReadBuf<'_>) -> std::task::Poll<std::io::Result<()>> {
        let n = (self.data.len() - self.pos).min(self.piece.max(1)).min(buf.remaining());
        let (a, b) = (self.pos, self.pos + n);
        buf.put_slice(&self.data[a..b]);
        self.pos = b;
        std::task::Poll::Ready(Ok(()))
    }
}

/// The real SessionReader actor over a stream of `good` valid frames followed by `tail` raw bytes, then EOF, delivered `piece` bytes at a time.
/// Returns (frames that reached the session, reader status when the stream is exhausted, is the session (sink) still running).
pub async fn verif_reader_actor(good: usize, tail: Vec<u8>, piece: usize, max_frame: u64) -> (usize, String, bool) {
    use prost::Message;
    let got = std::sync::Arc::new(std::sync::atomic::AtomicUsize::new(0));
    let (sink, _sh) = Actor::spawn(None, VerifSink { got: got.clone() }, ()).await.unwrap();
    let msg = crate::protocol::NetworkMessage {
        message: Some(crate::protocol::meta::network_message::Message::Node(crate::protocol::node::NodeMessage {
            msg: Some(crate::protocol::node::node_message::Msg::Cast(crate::protocol::node::Cast { to: 42, what: vec![1, 2, 3, 4], variant: "test".to_string(), metadata: None })),
        })),
    };
    let payload = msg.encode_to_vec();
    let mut data = Vec::new();
    for _ in 0..good {
        data.extend_from_slice(&(payload.len() as u64).to_be_bytes());
        data.extend_from_slice(&payload);
    }
    data.extend_from_slice(&tail);
    let half = ActorReadHalf::External(Box::new(VerifBytesReader { data, pos: 0, piece }));
    let (reader, rh) = Actor::spawn(None, SessionReader { session: sink.clone(), max_inbound_frame_size: max_frame }, half).await.unwrap();
    let _ = tokio::time::timeout(std::time::Duration::from_secs(5), rh).await;
    tokio::time::sleep(std::time::Duration::from_millis(30)).await;
    let status = format!("{:?}", reader.get_status());
    let sink_alive = sink.get_status() == ractor::ActorStatus::Running;
    let n = got.load(std::sync::atomic::Ordering::SeqCst);
    sink.stop(None);
    (n, status, sink_alive)
}

/// The real `run_write_task` against an in-memory duplex: `frames` casts (payload `size` bytes, numbered through `to`) are queued before the task starts, the queue
/// is closed, and everything is read back with `read_network_message`. Returns the `to` numbers read back in order and whether every payload was intact.
pub async fn verif_write_backlog(frames: usize, size: usize) -> (Vec<u64>, bool) {
    let got = std::sync::Arc::new(std::sync::atomic::AtomicUsize::new(0));
    let (sink, _sh) = Actor::spawn(None, VerifSink { got }, ()).await.unwrap();
    let (ours, theirs) = tokio::io::duplex(64 * 1024 * 1024);
    let (_r, w) = tokio::io::split(theirs);
    let (tx, rx) = tokio::sync::mpsc::unbounded_channel();
    for i in 0..frames {
        let msg = crate::protocol::NetworkMessage {
            message: Some(crate::protocol::meta::network_message::Message::Node(crate::protocol::node::NodeMessage {
                msg: Some(crate::protocol::node::node_message::Msg::Cast(crate::protocol::node::Cast { to: i as u64, what: vec![(i % 251) as u8; size], variant: "v".to_string(), metadata: None })),
            })),
        };
        tx.send(msg).unwrap();
    }
    drop(tx);
    run_write_task(ActorWriteHalf::External(Box::new(w)), rx, sink.clone()).await;
    let (r, _w2) = tokio::io::split(ours);
    let mut half = ActorReadHalf::External(Box::new(r));
    let mut out = Vec::new();
    let mut intact = true;
    for _ in 0..frames {
        match tokio::time::timeout(std::time::Duration::from_millis(500), read_network_message(&mut half, u64::MAX >> 2)).await {
            Ok(Ok(m)) => {
                if let Some(crate::protocol::meta::network_message::Message::Node(n)) = m.message {
                    if let Some(crate::protocol::node::node_message::Msg::Cast(c)) = n.msg {
                        intact = intact && c.what.len() == size && c.what.iter().all(|b| *b == (c.to % 251) as u8);
                        out.push(c.to);
                    }
                }
            }
            _ => break,
        }
    }
    sink.stop(None);
    (out, intact)
}
