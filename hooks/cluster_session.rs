//! Probe for the private frame-length gate of `ractor_cluster::net::session` (`checked_frame_length`).
use super::*;

/// `checked_frame_length(length, max_frame_size)` with the error flattened: `Some(n)` for `Ok(n)`, `None` for `Err(_)`.
pub fn verif_frame_len(length: u64, max_frame_size: u64) -> Option<usize> {
    checked_frame_length(length, max_frame_size).ok()
}
