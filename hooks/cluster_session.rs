//! Probe for the private frame-length gate of `ractor_cluster::net::session` (`checked_frame_length`).
use super::*;

/// `checked_frame_length(length, max_frame_size)` with the error flattened: `Some(n)` for `Ok(n)`, `None` for `Err(_)`.
pub fn verif_frame_len(length: u64, max_frame_size: u64) -> Option<usize> {
    checked_frame_length(length, max_frame_size).ok()
}

/// A reader that hands out `total` bytes (value = position mod 251) in pieces of the given sizes (a piece larger than the caller's buffer is cut to
/// the buffer), then reports EOF.
struct VerifChunkReader {
    pos: usize,
    total: usize,
    chunks: std::collections::VecDeque<usize>,
}
impl tokio::io::AsyncRead for VerifChunkReader {
    fn poll_read(mut self: std::pin::Pin<&mut Self>, _cx: &mut std::task::Context<'_>, buf: &mut tokio::io::ReadBuf<'_>) -> std::task::Poll<std::io::Result<()>> {
        let left = self.total - self.pos;
        let want = self.chunks.pop_front().unwrap_or(left);
        let n = want.min(left).min(buf.remaining());
        if n < want.min(left) {
            // the caller asked for less than this piece: the rest of the piece stays for the next read
            let rest = want.min(left) - n;
            self.chunks.push_front(rest);
        }
        let data: Vec<u8> = (self.pos..self.pos + n).map(|i| (i % 251) as u8).collect();
        buf.put_slice(&data);
        self.pos += n;
        std::task::Poll::Ready(Ok(()))
    }
}

/// `read_n_bytes(len)` over a stream of `total` bytes delivered in the given piece sizes. Ok(n, intact) = n bytes returned and they are the first n
/// bytes of the stream in order; Err(kind).
pub async fn verif_read_n(len: usize, total: usize, chunks: &[usize]) -> Result<(usize, bool), String> {
    let reader = VerifChunkReader { pos: 0, total, chunks: chunks.iter().copied().collect() };
    let mut half = ActorReadHalf::External(Box::new(reader));
    match read_n_bytes(&mut half, len).await {
        Ok(v) => Ok((v.len(), v.iter().enumerate().all(|(i, b)| *b == (i % 251) as u8))),
        Err(e) => Err(format!("{:?}", e.kind())),
    }
}
