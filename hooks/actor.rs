//! Probe inside `actor`: real ActorCell + ActorLifecycleGuard without a running task, for schedule replays of the exit path.
#![allow(private_interfaces, missing_debug_implementations, missing_docs, dead_code)]
use super::*;
use crate::actor::actor_cell::ActorPortSet;
use crate::actor::actor_properties::verif_probe::Dummy;
use std::sync::{Arc, Mutex};

/// An actor that was constructed (registered, ports created) but whose task is not running.
pub struct Husk {
    pub cell: ActorCell,
    ports: Arc<Mutex<Option<ActorPortSet>>>,
    guard: Option<ActorLifecycleGuard>,
}

pub fn husk(name: Option<String>, status: u8) -> Husk {
    let (cell, ports) = ActorCell::new::<Dummy>(name).expect("husk construction");
    cell.inner.status.store(status, std::sync::atomic::Ordering::SeqCst);
    let mut guard = ActorLifecycleGuard::new(cell.clone());
    guard.mark_running();
    Husk {
        cell,
        ports: Arc::new(Mutex::new(Some(ports))),
        guard: Some(guard),
    }
}

impl Husk {
    /// the exit path of the actor task: `lifecycle.finish(event)`
    pub fn finish(&mut self) {
        if let Some(g) = self.guard.take() {
            let evt = SupervisionEvent::ActorTerminated(self.cell.clone(), None, Some("replay".to_string()));
            g.finish(evt);
        }
    }
    /// drop the guard without finishing (task cancellation path)
    pub fn cancel(&mut self) {
        self.guard.take();
    }
    pub fn ports(&self) -> PortsView {
        PortsView(self.ports.clone())
    }
    pub fn forget_guard(&mut self) {
        if let Some(g) = self.guard.take() {
            std::mem::forget(g);
        }
    }
}

#[derive(Clone)]
pub struct PortsView(Arc<Mutex<Option<ActorPortSet>>>);

impl PortsView {
    /// number of supervision events queued for this actor
    pub fn supervision_len(&self) -> usize {
        self.0.lock().unwrap().as_ref().map(|p| p.supervisor_rx.len()).unwrap_or(0)
    }
    /// was a signal (Kill) delivered to this actor's signal port?
    pub fn signalled(&self) -> bool {
        let mut g = self.0.lock().unwrap();
        match g.as_mut() {
            Some(p) => match p.signal_rx.try_recv() {
                Ok(_) => true,
                Err(_) => false,
            },
            None => false,
        }
    }
}

pub fn verif_set_status(cell: &ActorCell, s: u8) -> u8 {
    let st = match s {
        0 => ActorStatus::Unstarted,
        1 => ActorStatus::Starting,
        2 => ActorStatus::Running,
        3 => ActorStatus::Upgrading,
        4 => ActorStatus::Draining,
        5 => ActorStatus::Stopping,
        _ => ActorStatus::Stopped,
    };
    cell.set_status(st) as u8
}

pub fn verif_wait_blocking(cell: &ActorCell) {
    futures::executor::block_on(cell.inner.wait())
}

pub fn verif_signal_taken(cell: &ActorCell) -> bool {
    cell.inner.signal.lock().unwrap().is_none()
}

/// construct a named cell the way every spawn does; the cell (and its ports) are leaked so that it stays registered.
/// Ok(pid) or Err(true) for ActorAlreadyRegistered / Err(false) for any other error
pub fn verif_new_cell(name: Option<String>) -> Result<u64, bool> {
    match ActorCell::new::<Dummy>(name) {
        Ok((cell, ports)) => {
            let pid = cell.get_id().pid();
            std::mem::forget(ports);
            std::mem::forget(cell);
            Ok(pid)
        }
        Err(SpawnErr::ActorAlreadyRegistered(_)) => Err(true),
        Err(_) => Err(false),
    }
}

pub fn verif_link(child: &ActorCell, sup: &ActorCell) -> bool {
    child.try_link(sup.clone())
}

pub fn verif_take_children(parent: &ActorCell) -> Vec<ActorCell> {
    crate::actor::supervision::verif_probe::take_children(parent)
}

/// None = closed child set
pub fn verif_children(parent: &ActorCell) -> Option<Vec<ActorCell>> {
    crate::actor::supervision::verif_probe::children(parent)
}

pub fn verif_terminate(cell: &ActorCell) {
    cell.terminate()
}

/// overwrite the status byte (pre-state construction only)
pub fn verif_force_status(cell: &ActorCell, s: u8) {
    cell.inner.status.store(s, std::sync::atomic::Ordering::SeqCst);
}
