//! Probe inside `actor`: real ActorCell + ActorLifecycleGuard without a running task, for schedule replays of the exit path.
#![allow(private_interfaces, missing_debug_implementations, missing_docs, dead_code)]
use super::*;
use crate::actor::actor_cell::ActorPortSet;
use crate::actor::actor_properties::verif_probe::Dummy;
use std::sync::{Arc, Mutex};

/// An actor that was constructed (registered, ports created) but whose task is not running.
pub struct Husk {
    pub cell: ActorCell,
    ports: Arc<Mutex<Option<ActorPortSet>>>,
    guard: Option<ActorLifecycleGuard>,
}

pub fn husk(name: Option<String>, status: u8) -> Husk {
    let (cell, ports) = ActorCell::new::<Dummy>(name).expect("husk construction");
    cell.inner.status.store(status, std::sync::atomic::Ordering::SeqCst);
    let mut guard = ActorLifecycleGuard::new(cell.clone());
    guard.mark_running();
    Husk {
        cell,
        ports: Arc::new(Mutex::new(Some(ports))),
        guard: Some(guard),
    }
}

/// a husk that carries a *remote* actor id (as the proxy of an actor of another node does): its pid may coincide with a local actor's pid
#[cfg(feature = "cluster")]
pub fn husk_remote(node: u64, pid: u64, status: u8) -> Husk {
    let (cell, ports) = ActorCell::new_remote::<Dummy>(None, ActorId::Remote { node_id: node, pid }).expect("remote husk construction");
    cell.inner.status.store(status, std::sync::atomic::Ordering::SeqCst);
    let mut guard = ActorLifecycleGuard::new(cell.clone());
    guard.mark_running();
    Husk {
        cell,
        ports: Arc::new(Mutex::new(Some(ports))),
        guard: Some(guard),
    }
}

impl Husk {
    /// the exit path of the actor task: `lifecycle.finish(event)`
    pub fn finish(&mut self) {
        if let Some(g) = self.guard.take() {
            let evt = SupervisionEvent::ActorTerminated(self.cell.clone(), None, Some("replay".to_string()));
            g.finish(evt);
        }
    }
    /// drop the guard without finishing (task cancellation path)
    pub fn cancel(&mut self) {
        self.guard.take();
    }
    pub fn ports(&self) -> PortsView {
        PortsView(self.ports.clone())
    }
    pub fn forget_guard(&mut self) {
        if let Some(g) = self.guard.take() {
            std::mem::forget(g);
        }
    }
}

#[derive(Clone)]
pub struct PortsView(Arc<Mutex<Option<ActorPortSet>>>);

impl PortsView {
    /// number of supervision events queued for this actor
    pub fn supervision_len(&self) -> usize {
        self.0.lock().unwrap().as_ref().map(|p| p.supervisor_rx.len()).unwrap_or(0)
    }
    /// was a signal (Kill) delivered to this actor's signal port?
    pub fn signalled(&self) -> bool {
        let mut g = self.0.lock().unwrap();
        match g.as_mut() {
            Some(p) => match p.signal_rx.try_recv() {
                Ok(_) => true,
                Err(_) => false,
            },
            None => false,
        }
    }
}

pub fn verif_set_status(cell: &ActorCell, s: u8) -> u8 {
    let st = match s {
        0 => ActorStatus::Unstarted,
        1 => ActorStatus::Starting,
        2 => ActorStatus::Running,
        3 => ActorStatus::Upgrading,
        4 => ActorStatus::Draining,
        5 => ActorStatus::Stopping,
        _ => ActorStatus::Stopped,
    };
    cell.set_status(st) as u8
}

pub fn verif_wait_blocking(cell: &ActorCell) {
    futures::executor::block_on(cell.inner.wait())
}

pub fn verif_signal_taken(cell: &ActorCell) -> bool {
    cell.inner.signal.lock().unwrap().is_none()
}

/// construct a named cell the way every spawn does; the cell (and its ports) are leaked so that it stays registered.
/// Ok(pid) or Err(true) for ActorAlreadyRegistered / Err(false) for any other error
pub fn verif_new_cell(name: Option<String>) -> Result<u64, bool> {
    match ActorCell::new::<Dummy>(name) {
        Ok((cell, ports)) => {
            let pid = cell.get_id().pid();
            std::mem::forget(ports);
            std::mem::forget(cell);
            Ok(pid)
        }
        Err(SpawnErr::ActorAlreadyRegistered(_)) => Err(true),
        Err(_) => Err(false),
    }
}

pub fn verif_link(child: &ActorCell, sup: &ActorCell) -> bool {
    child.try_link(sup.clone())
}

pub fn verif_take_children(parent: &ActorCell) -> Vec<ActorCell> {
    crate::actor::supervision::verif_probe::take_children(parent)
}

/// None = closed child set
pub fn verif_children(parent: &ActorCell) -> Option<Vec<ActorCell>> {
    crate::actor::supervision::verif_probe::children(parent)
}

pub fn verif_terminate(cell: &ActorCell) {
    cell.terminate()
}

/// overwrite the status byte (pre-state construction only)
pub fn verif_force_status(cell: &ActorCell, s: u8) {
    cell.inner.status.store(s, std::sync::atomic::Ordering::SeqCst);
}

fn poll_once<F: std::future::Future>(f: F) -> Option<F::Output> {
    let waker = futures::task::noop_waker();
    let mut cx = std::task::Context::from_waker(&waker);
    let mut f = Box::pin(f);
    match f.as_mut().poll(&mut cx) {
        std::task::Poll::Ready(v) => Some(v),
        std::task::Poll::Pending => None,
    }
}

/// one poll of the real `listen_in_priority` from the given port contents; returns the kind of result
#[allow(clippy::too_many_arguments)]
pub fn verif_poll_listen(sig_full: bool, sig_drop: bool, stop_full: bool, stop_drop: bool, sup_has: bool, msg_has: bool, chans_closed: bool) -> String {
    let (cell, mut ports) = ActorCell::new::<Dummy>(None).expect("cell");
    if sig_full {
        let _ = cell.inner.send_signal(Signal::Kill);
    } else if sig_drop {
        drop(cell.inner.signal.lock().unwrap().take());
    }
    if stop_full {
        let _ = cell.inner.send_stop(None);
    } else if stop_drop {
        drop(cell.inner.stop.lock().unwrap().take());
    }
    if sup_has {
        let _ = cell.inner.send_supervisor_evt(SupervisionEvent::ProcessGroupChanged(crate::pg::GroupChangeMessage::Leave("s".into(), "g".into(), vec![])));
    }
    if msg_has {
        let _ = cell.inner.send_message_unchecked::<u64>(7);
    }
    if chans_closed {
        #[cfg(feature = "cluster")]
        crate::registry::pid_registry::unregister_pid(cell.get_id());
        drop(cell);
    }
    let r = poll_once(ports.listen_in_priority());
    let kind = match r {
        None => "pending".to_string(),
        Some(Ok(crate::actor::actor_cell::ActorPortMessage::Signal(_))) => "ok:Signal".to_string(),
        Some(Ok(crate::actor::actor_cell::ActorPortMessage::Stop(_))) => "ok:Stop".to_string(),
        Some(Ok(crate::actor::actor_cell::ActorPortMessage::Supervision(_))) => "ok:Supervision".to_string(),
        Some(Ok(crate::actor::actor_cell::ActorPortMessage::Message(_))) => "ok:Message".to_string(),
        Some(Err(MessagingErr::ChannelClosed)) => "err:ChannelClosed".to_string(),
        Some(Err(_)) => "err:other".to_string(),
    };
    // what is left in the ports afterwards
    let left = format!(
        "sig:{};stop:{};sup:{};msg:{}",
        ports.signal_rx.try_recv().is_ok() as u8,
        ports.stop_rx.try_recv().is_ok() as u8,
        ports.supervisor_rx.try_recv().is_ok() as u8,
        ports.message_rx.try_recv().is_ok() as u8
    );
    format!("{}|{}", kind, left)
}

struct CountingFuture {
    polls: std::sync::Arc<std::sync::atomic::AtomicUsize>,
    ready: bool,
}
impl std::future::Future for CountingFuture {
    type Output = u8;
    fn poll(self: std::pin::Pin<&mut Self>, _cx: &mut std::task::Context<'_>) -> std::task::Poll<u8> {
        self.polls.fetch_add(1, std::sync::atomic::Ordering::SeqCst);
        if self.ready {
            std::task::Poll::Ready(42)
        } else {
            std::task::Poll::Pending
        }
    }
}

/// one poll of the real `run_with_signal`; returns "<kind>|polls=<n>"
pub fn verif_poll_rws(sig_full: bool, sig_drop: bool, fut_ready: bool) -> String {
    let (cell, mut ports) = ActorCell::new::<Dummy>(None).expect("cell");
    if sig_full {
        let _ = cell.inner.send_signal(Signal::Kill);
    } else if sig_drop {
        drop(cell.inner.signal.lock().unwrap().take());
    }
    let polls = std::sync::Arc::new(std::sync::atomic::AtomicUsize::new(0));
    let fut = CountingFuture { polls: polls.clone(), ready: fut_ready };
    let r = poll_once(ports.run_with_signal(fut));
    let kind = match r {
        None => "pending",
        Some(Ok(_)) => "completed",
        Some(Err(_)) => "signal",
    };
    format!("{}|polls={}", kind, polls.load(std::sync::atomic::Ordering::SeqCst))
}

/// put a (harmless) supervision event into the actor's own supervision port
pub fn verif_send_supervisor_evt(cell: &ActorCell) {
    let _ = cell.send_supervisor_evt(SupervisionEvent::ProcessGroupChanged(crate::pg::GroupChangeMessage::Leave("s".into(), "g".into(), vec![])));
}

pub fn verif_lock_tree() -> std::sync::MutexGuard<'static, ()> {
    crate::actor::supervision::verif_probe::lock_tree()
}

/// the status byte read directly (no hook point): for observers installed with `verif_hooks::set_observer`
pub fn verif_raw_status(cell: &ActorCell) -> u8 {
    cell.inner.status.load(std::sync::atomic::Ordering::SeqCst)
}
