//! Verification hooks for `ractor` (compiled only with `--cfg slawlor_ractor_verif`).
//! Source lives in /verif; the repository only carries the `#[path]` declaration.
//!
//! * `point(label)`: schedule-replay turn-stile. A no-op unless a schedule is installed for the calling thread.
//! * plain-data wrappers around private kernels live in the per-module `verif_probe` files.

use std::cell::Cell;
use std::sync::{Condvar, Mutex};

thread_local! {
    static THREAD_INDEX: Cell<Option<usize>> = const { Cell::new(None) };
}

struct Turnstile {
    /// remaining schedule: (thread index, label) allowed to perform its next labelled shared operation; label "*" matches any
    schedule: Vec<(usize, String)>,
    pos: usize,
    /// log of (thread, label) in execution order
    log: Vec<(usize, String)>,
    /// set when the schedule is exhausted or a thread deviated: everybody runs freely
    free_run: bool,
    finished: Vec<bool>,
}

static TURNSTILE: Mutex<Option<Turnstile>> = Mutex::new(None);
static TURN_CV: Condvar = Condvar::new();

/// Install a schedule (sequence of thread indices). `threads` = number of participating threads.
pub fn install_schedule(schedule: Vec<usize>, threads: usize) {
    install_labelled_schedule(schedule.into_iter().map(|t| (t, "*".to_string())).collect(), threads)
}

/// Install a schedule of (thread, label) pairs. A thread arriving at a point whose label differs from its next scheduled
/// label passes through immediately (the operation has no counterpart in the schedule).
pub fn install_labelled_schedule(schedule: Vec<(usize, String)>, threads: usize) {
    let mut g = TURNSTILE.lock().unwrap_or_else(|e| e.into_inner());
    *g = Some(Turnstile {
        schedule,
        pos: 0,
        log: Vec::new(),
        free_run: false,
        finished: vec![false; threads],
    });
}

/// Remove the schedule and return the execution log.
pub fn take_log() -> Vec<(usize, String)> {
    let mut g = TURNSTILE.lock().unwrap_or_else(|e| e.into_inner());
    let log = g.take().map(|t| t.log).unwrap_or_default();
    TURN_CV.notify_all();
    log
}

/// Register the calling OS thread as model thread `idx`.
pub fn enter_thread(idx: usize) {
    THREAD_INDEX.with(|t| t.set(Some(idx)));
}

/// The calling model thread has finished: later schedule entries naming it are skipped.
pub fn leave_thread() {
    let idx = THREAD_INDEX.with(|t| t.replace(None));
    if let Some(idx) = idx {
        let mut g = TURNSTILE.lock().unwrap_or_else(|e| e.into_inner());
        if let Some(t) = g.as_mut() {
            if idx < t.finished.len() {
                t.finished[idx] = true;
            }
            skip_finished(t);
        }
        TURN_CV.notify_all();
    }
}

fn skip_finished(t: &mut Turnstile) {
    while t.pos < t.schedule.len() && t.finished.get(t.schedule[t.pos].0).copied().unwrap_or(true) {
        t.pos += 1;
    }
    if t.pos >= t.schedule.len() {
        t.free_run = true;
    }
}

type Observer = Box<dyn Fn() -> u64 + Send + Sync>;
static OBSERVER: Mutex<Option<Observer>> = Mutex::new(None);
static SAMPLES: Mutex<Vec<u64>> = Mutex::new(Vec::new());

/// Install a read-only observer (it must not pass through hook points itself); it is sampled whenever a registered thread arrives at a hook point,
/// i.e. between any two scheduled shared operations.
pub fn set_observer(f: Observer) {
    *OBSERVER.lock().unwrap_or_else(|e| e.into_inner()) = Some(f);
    SAMPLES.lock().unwrap_or_else(|e| e.into_inner()).clear();
}

/// The values the observer returned, in the order sampled.
pub fn take_samples() -> Vec<u64> {
    std::mem::take(&mut *SAMPLES.lock().unwrap_or_else(|e| e.into_inner()))
}

fn sample() {
    if let Some(f) = OBSERVER.lock().unwrap_or_else(|e| e.into_inner()).as_ref() {
        SAMPLES.lock().unwrap_or_else(|e| e.into_inner()).push(f());
    }
}

/// Called immediately before a labelled shared operation.
#[inline]
pub fn point(label: &'static str) {
    let Some(idx) = THREAD_INDEX.with(|t| t.get()) else {
        return;
    };
    sample();
    let mut g = TURNSTILE.lock().unwrap_or_else(|e| e.into_inner());
    let deadline = std::time::Instant::now() + std::time::Duration::from_secs(5);
    loop {
        let Some(t) = g.as_mut() else {
            return;
        };
        skip_finished(t);
        if t.free_run {
            t.log.push((idx, label.to_string()));
            return;
        }
        // next entry of this thread
        let mine = t.schedule[t.pos..].iter().find(|(th, _)| *th == idx).cloned();
        match mine {
            None => {
                t.log.push((idx, format!("{}~", label)));
                return;
            }
            Some((_, l)) if l != "*" && l != label => {
                // operation without a counterpart in the schedule: runs as part of the thread's current step
                t.log.push((idx, format!("{}~", label)));
                return;
            }
            _ => {}
        }
        if t.schedule[t.pos].0 == idx {
            t.pos += 1;
            t.log.push((idx, label.to_string()));
            skip_finished(t);
            TURN_CV.notify_all();
            return;
        }
        let now = std::time::Instant::now();
        if now >= deadline {
            // the scheduled thread never arrived (blocked / diverged): release everybody
            t.free_run = true;
            t.log.push((usize::MAX, "DIVERGED".to_string()));
            t.log.push((idx, label.to_string()));
            TURN_CV.notify_all();
            return;
        }
        let (ng, _) = TURN_CV
            .wait_timeout(g, deadline - now)
            .unwrap_or_else(|e| e.into_inner());
        g = ng;
    }
}

/// Detached mailbox (`ActorProperties` + its receivers) for schedule replays.
pub use crate::actor::actor_properties::verif_probe as mailbox;

/// Real ActorCell + lifecycle guard without a running task.
pub use crate::actor::verif_probe as lifecycle;
