//! Probe inside `factory::factoryimpl`: one bookkeeping operation of a `FactoryState` built from plain data, with a scripted router
//! (each `route_message` call answers Handled / RateLimited / Backlog as scripted) and the default FIFO queue.
#![allow(missing_docs, missing_debug_implementations, dead_code)]
use super::*;
use crate::factory::queues::DefaultQueue;
use std::sync::Mutex;

pub struct ScriptRouter {
    /// answers for successive `route_message` calls: 'h' handled, 'r' rate limited, 'b' backlog (default 'h')
    pub script: std::collections::VecDeque<char>,
    /// answers for successive `choose_target_worker` calls: true = Some(0)
    pub choose: std::collections::VecDeque<bool>,
    pub routed: Arc<Mutex<Vec<u64>>>,
}

impl Router<u64, u64> for ScriptRouter {
    fn route_message(
        &mut self,
        job: Job<u64, u64>,
        _pool_size: usize,
        _worker_hint: Option<WorkerId>,
        _worker_pool: &mut HashMap<WorkerId, WorkerProperties<u64, u64>>,
    ) -> Result<RouteResult<u64, u64>, ActorProcessingErr> {
        match self.script.pop_front().unwrap_or('h') {
            'r' => Ok(RouteResult::RateLimited(job)),
            'b' => Ok(RouteResult::Backlog(job)),
            _ => {
                self.routed.lock().unwrap().push(job.msg);
                Ok(RouteResult::Handled)
            }
        }
    }
    fn choose_target_worker(
        &mut self,
        _job: &Job<u64, u64>,
        _pool_size: usize,
        _worker_hint: Option<WorkerId>,
        _worker_pool: &HashMap<WorkerId, WorkerProperties<u64, u64>>,
    ) -> Option<WorkerId> {
        if self.choose.pop_front().unwrap_or(false) {
            Some(0)
        } else {
            None
        }
    }
    fn is_factory_queueing(&self) -> bool {
        true
    }
}

pub struct ProbeWorker;
impl Actor for ProbeWorker {
    type Msg = WorkerMessage<u64, u64>;
    type State = ();
    type Arguments = WorkerStartContext<u64, u64, ()>;
    async fn pre_start(&self, _: ActorRef<Self::Msg>, _: Self::Arguments) -> Result<(), ActorProcessingErr> {
        Ok(())
    }
}
struct ProbeBuilder;
impl WorkerBuilder<ProbeWorker, ()> for ProbeBuilder {
    fn build(&mut self, _wid: WorkerId) -> (ProbeWorker, ()) {
        (ProbeWorker, ())
    }
}

struct Recorder(Mutex<Vec<(String, u64)>>);
impl DiscardHandler<u64, u64> for Recorder {
    fn discard(&self, reason: DiscardReason, job: &mut Job<u64, u64>) {
        self.0.lock().unwrap().push((format!("{reason:?}"), job.msg));
    }
}

fn a_job(msg: u64, expired: bool) -> Job<u64, u64> {
    let opts = if expired { JobOptions::new(Some(Duration::from_nanos(1))) } else { JobOptions::default() };
    Job::with_options(msg % 2 + 5, msg, opts)
}

/// op: "dispatch" | "maybe_enqueue" | "route_next" | "route_next_hint"; queue: msg ids with their expiry; the incoming job has msg id 100.
/// Returns "queue=..;routed=..;discards=reason:id+..".
#[allow(clippy::too_many_arguments)]
pub fn factory_step(op: &str, mode: &str, limit: usize, queue: &[(u64, bool)], incoming_expired: bool, draining: bool, script: &str, choose: &[bool]) -> String {
    let routed = Arc::new(Mutex::new(Vec::new()));
    let rec = Arc::new(Recorder(Mutex::new(Vec::new())));
    let mut q = DefaultQueue::<u64, u64>::default();
    for (m, e) in queue {
        q.push_back(a_job(*m, *e));
    }
    if queue.iter().any(|x| x.1) || incoming_expired {
        std::thread::sleep(std::time::Duration::from_millis(2));
    }
    let discard_settings = match mode {
        "Newest" => DiscardSettings::Static { limit, mode: DiscardMode::Newest },
        "Oldest" => DiscardSettings::Static { limit, mode: DiscardMode::Oldest },
        _ => DiscardSettings::None,
    };
    let mut state: FactoryState<u64, u64, ProbeWorker, (), ScriptRouter, DefaultQueue<u64, u64>> = FactoryState {
        factory_name: "verif".to_string(),
        worker_builder: Box::new(ProbeBuilder),
        pool_size: 2,
        pool: HashMap::new(),
        worker_by_actor: HashMap::new(),
        stats: None,
        router: ScriptRouter { script: script.chars().collect(), choose: choose.iter().copied().collect(), routed: routed.clone() },
        queue: q,
        discard_handler: Some(rec.clone()),
        discard_settings,
        drain_state: if draining { DrainState::Draining } else { DrainState::NotDraining },
        dead_mans_switch: None,
        dead_mans_check: None,
        capacity_controller: None,
        lifecycle_hooks: None,
    };
    let incoming = a_job(100, incoming_expired);
    if incoming_expired {
        std::thread::sleep(std::time::Duration::from_millis(2));
    }
    match op {
        "dispatch" => {
            let _ = state.dispatch(incoming);
        }
        "maybe_enqueue" => state.maybe_enqueue(incoming),
        "route_next" => {
            let _ = state.try_route_next_active_job(None);
        }
        "route_next_hint" => {
            let _ = state.try_route_next_active_job(Some(0));
        }
        other => panic!("unknown op {other}"),
    }
    let mut left = Vec::new();
    while let Some(j) = state.queue.pop_front() {
        left.push(j.msg.to_string());
    }
    let r: Vec<String> = routed.lock().unwrap().iter().map(|x| x.to_string()).collect();
    let d: Vec<String> = rec.0.lock().unwrap().iter().map(|(r, m)| format!("{r}:{m}")).collect();
    format!("queue={};routed={};discards={}", left.join("+"), r.join("+"), d.join("+"))
}

/// `worker_finished_job(0, key 5)` on a factory whose only worker (wid 0) has the given queue (keys; msg ids 0..), one job of key 5 in flight and
/// the given draining flag; the factory backlog holds `fq` jobs (msg ids 50..). The worker actor logs what it really handles.
/// Returns "inpool=0|1;wqueue=ids;fqueue=ids;handled=ids;discards=..;routed=ids;worker_alive=0|1".
pub async fn factory_finished(queue: &[u64], draining: bool, fq: usize) -> String {
    factory_finished_on(queue, draining, fq, false).await
}

/// `closed`: the worker actor has already stopped (its mailbox refuses the hand-over) but the factory has not been told yet
pub async fn factory_finished_on(queue: &[u64], draining: bool, fq: usize, closed: bool) -> String {
    use crate::factory::worker::verif_probe as wp;
    let (w, got, wrec) = wp::record_logging(queue, &[5], draining).await;
    let worker_actor = w.actor.clone();
    if closed {
        worker_actor.stop(None);
        for _ in 0..200 {
            if worker_actor.get_status() == crate::ActorStatus::Stopped {
                break;
            }
            crate::concurrency::sleep(Duration::from_millis(2)).await;
        }
    }
    let routed = Arc::new(Mutex::new(Vec::new()));
    let rec = Arc::new(Recorder(Mutex::new(Vec::new())));
    let mut q = DefaultQueue::<u64, u64>::default();
    for i in 0..fq {
        q.push_back(a_job(50 + i as u64, false));
    }
    let mut pool = HashMap::new();
    let mut worker_by_actor = HashMap::new();
    worker_by_actor.insert(w.actor.get_id(), 0usize);
    pool.insert(0usize, w);
    let mut state: FactoryState<u64, u64, ProbeWorker, (), ScriptRouter, DefaultQueue<u64, u64>> = FactoryState {
        factory_name: "verif".to_string(),
        worker_builder: Box::new(ProbeBuilder),
        pool_size: 1,
        pool,
        worker_by_actor,
        stats: None,
        router: ScriptRouter { script: Default::default(), choose: Default::default(), routed: routed.clone() },
        queue: q,
        discard_handler: Some(rec.clone()),
        discard_settings: DiscardSettings::None,
        drain_state: DrainState::NotDraining,
        dead_mans_switch: None,
        dead_mans_check: None,
        capacity_controller: None,
        lifecycle_hooks: None,
    };
    let _ = state.worker_finished_job(0, 5);
    for _ in 0..50 {
        tokio::task::yield_now().await;
    }
    crate::concurrency::sleep(Duration::from_millis(20)).await;
    let inpool = state.pool.contains_key(&0);
    let wq: Vec<String> = state.pool.get(&0).map(|w| wp::queue_ids(w).iter().map(|x| x.to_string()).collect()).unwrap_or_default();
    let mut fqv = Vec::new();
    while let Some(j) = state.queue.pop_front() {
        fqv.push(j.msg.to_string());
    }
    let h: Vec<String> = got.lock().unwrap().iter().map(|x| x.to_string()).collect();
    let mut d: Vec<String> = rec.0.lock().unwrap().iter().map(|(r, m)| format!("{r}:{m}")).collect();
    d.extend(wp::recorded(&wrec).iter().map(|(r, m)| format!("{r}:{m}")));
    let r: Vec<String> = routed.lock().unwrap().iter().map(|x| x.to_string()).collect();
    let alive = matches!(worker_actor.get_status(), crate::ActorStatus::Running | crate::ActorStatus::Upgrading);
    worker_actor.stop(None);
    format!("inpool={};wqueue={};fqueue={};handled={};discards={};routed={};worker_alive={}", inpool as u8, wq.join("+"), fqv.join("+"), h.join("+"), d.join("+"), r.join("+"), alive as u8)
}

struct ProbeFactoryActor;
impl Actor for ProbeFactoryActor {
    type Msg = FactoryMessage<u64, u64>;
    type State = ();
    type Arguments = ();
    async fn pre_start(&self, _: ActorRef<Self::Msg>, _: ()) -> Result<(), ActorProcessingErr> {
        Ok(())
    }
    async fn handle_supervisor_evt(&self, _: ActorRef<Self::Msg>, _: SupervisionEvent, _: &mut ()) -> Result<(), ActorProcessingErr> {
        Ok(())
    }
}

/// One pool operation on a FactoryState whose pool is given slot by slot ("live" | "drain" | "-"); `busy` = live slots with a job in flight
/// (draining slots are always busy). op: "resize:<n>" | "ActorTerminated:<slot|stranger>" | "ActorFailed:<slot|stranger>".
/// Returns "pool_size=<n>;slots=<w>:<d><b><same actor?>+..;index=<entries>/<consistent 0|1>;alive=<actors of the original slots still running>".
pub async fn pool_step(pool_size: usize, slots: &[String], busy: &[usize], op: &str) -> String {
    pool_step_q(pool_size, slots, busy, &[], op).await
}

/// as `pool_step`; the working workers listed in `queued` also have one job (key 7) waiting in their own queue
pub async fn pool_step_q(pool_size: usize, slots: &[String], busy: &[usize], queued: &[usize], op: &str) -> String {
    use crate::factory::worker::verif_probe as wp;
    let (me, _mh) = Actor::spawn(None, ProbeFactoryActor, ()).await.unwrap();
    let mut pool = HashMap::new();
    let mut worker_by_actor = HashMap::new();
    let mut originals: Vec<(usize, crate::ActorCell)> = Vec::new();
    for (w, kind) in slots.iter().enumerate() {
        if kind == "-" {
            continue;
        }
        let working = kind == "drain" || busy.contains(&w);
        let curr: Vec<u64> = if working { vec![5] } else { vec![] };
        let q: Vec<u64> = if working && queued.contains(&w) { vec![7] } else { vec![] };
        let (rec, _got, _r) = wp::record_logging_at(w, &q, &curr, kind == "drain").await;
        worker_by_actor.insert(rec.actor.get_id(), w);
        originals.push((w, rec.actor.get_cell()));
        pool.insert(w, rec);
    }
    let routed = Arc::new(Mutex::new(Vec::new()));
    let mut state: FactoryState<u64, u64, ProbeWorker, (), ScriptRouter, DefaultQueue<u64, u64>> = FactoryState {
        factory_name: "verif".to_string(),
        worker_builder: Box::new(ProbeBuilder),
        pool_size,
        pool,
        worker_by_actor,
        stats: None,
        router: ScriptRouter { script: Default::default(), choose: Default::default(), routed },
        queue: DefaultQueue::<u64, u64>::default(),
        discard_handler: None,
        discard_settings: DiscardSettings::None,
        drain_state: DrainState::NotDraining,
        dead_mans_switch: None,
        dead_mans_check: None,
        capacity_controller: None,
        lifecycle_hooks: None,
    };
    let (stranger, _sh) = Actor::spawn(None, ProbeFactoryActor, ()).await.unwrap();
    if let Some(n) = op.strip_prefix("resize:") {
        let _ = state.resize_pool(&me, n.parse().unwrap()).await;
    } else {
        let (kind, who) = op.split_once(':').unwrap();
        let cell = match who.parse::<usize>() {
            Ok(w) => originals.iter().find(|(x, _)| *x == w).map(|(_, c)| c.clone()).unwrap(),
            Err(_) => stranger.get_cell(),
        };
        let evt = if kind == "ActorTerminated" { SupervisionEvent::ActorTerminated(cell, None, None) } else { SupervisionEvent::ActorFailed(cell, "verif".into()) };
        let f: Factory<u64, u64, (), ProbeWorker, ScriptRouter, DefaultQueue<u64, u64>> = Factory::default();
        let _ = f.handle_supervisor_evt(me.clone(), evt, &mut state).await;
    }
    for _ in 0..50 {
        tokio::task::yield_now().await;
    }
    crate::concurrency::sleep(Duration::from_millis(20)).await;
    let mut s: Vec<String> = Vec::new();
    let mut consistent = state.worker_by_actor.len() == state.pool.len();
    let mut wids: Vec<usize> = state.pool.keys().copied().collect();
    wids.sort();
    for w in wids {
        let (d, b, id, rec_wid) = wp::flags(&state.pool[&w]);
        let same = originals.iter().any(|(x, c)| *x == w && c.get_id() == id);
        consistent = consistent && state.worker_by_actor.get(&id) == Some(&w) && rec_wid == w;
        s.push(format!("{w}:{}{}{}", d as u8, b as u8, same as u8));
    }
    let alive: Vec<String> = originals
        .iter()
        .filter(|(_, c)| matches!(c.get_status(), crate::ActorStatus::Running | crate::ActorStatus::Upgrading))
        .map(|(w, _)| w.to_string())
        .collect();
    let out = format!("pool_size={};slots={};index={}/{};alive={}", state.pool_size, s.join("+"), state.worker_by_actor.len(), consistent as u8, alive.join("+"));
    for (_, w) in state.pool.drain() {
        w.actor.stop(None);
    }
    out
}

struct RecordingHooks(Arc<Mutex<Vec<&'static str>>>);
impl crate::factory::FactoryLifecycleHooks<u64, u64> for RecordingHooks {
    fn on_factory_started(&self, _: ActorRef<FactoryMessage<u64, u64>>) -> futures::future::BoxFuture<'_, Result<(), ActorProcessingErr>> {
        self.0.lock().unwrap().push("started");
        Box::pin(async { Ok(()) })
    }
    fn on_factory_stopped(&self) -> futures::future::BoxFuture<'_, Result<(), ActorProcessingErr>> {
        self.0.lock().unwrap().push("stopped");
        Box::pin(async { Ok(()) })
    }
    fn on_factory_draining(&self, _: ActorRef<FactoryMessage<u64, u64>>) -> futures::future::BoxFuture<'_, Result<(), ActorProcessingErr>> {
        self.0.lock().unwrap().push("draining");
        Box::pin(async { Ok(()) })
    }
}

/// One message handled by the real `Factory::handle` on a two-worker FactoryState: `draining` = already draining, `busy` = workers with a job (key 5)
/// in flight, `queued` = jobs waiting in the factory queue. msg: "drain" | "dispatch" | "finished:<wid>".
/// Returns "stop=<0|1>;state=<NotDraining|Draining|Drained>;hooks=<..>;queue=<n>;rejected=<0|1>;discards=<reasons>"
pub async fn drain_step(draining: bool, busy: &[usize], queued: usize, msg: &str) -> String {
    use crate::factory::worker::verif_probe as wp;
    let (me, _mh) = Actor::spawn(None, ProbeFactoryActor, ()).await.unwrap();
    let mut pool = HashMap::new();
    let mut worker_by_actor = HashMap::new();
    for w in 0..2usize {
        let curr: Vec<u64> = if busy.contains(&w) { vec![5] } else { vec![] };
        let (rec, _got, _r) = wp::record_logging_at(w, &[], &curr, false).await;
        worker_by_actor.insert(rec.actor.get_id(), w);
        pool.insert(w, rec);
    }
    let hooks_log = Arc::new(Mutex::new(Vec::new()));
    let rec = Arc::new(wp::Recorder(Mutex::new(Vec::new())));
    let mut queue = DefaultQueue::<u64, u64>::default();
    for i in 0..queued {
        queue.push_back(Job { key: 6, msg: 200 + i as u64, options: JobOptions::default(), accepted: None });
    }
    let mut state: FactoryState<u64, u64, ProbeWorker, (), ScriptRouter, DefaultQueue<u64, u64>> = FactoryState {
        factory_name: "verif".to_string(),
        worker_builder: Box::new(ProbeBuilder),
        pool_size: 2,
        pool,
        worker_by_actor,
        stats: None,
        router: ScriptRouter { script: Default::default(), choose: Default::default(), routed: Arc::new(Mutex::new(Vec::new())) },
        queue,
        discard_handler: Some(rec.clone()),
        discard_settings: DiscardSettings::None,
        drain_state: if draining { DrainState::Draining } else { DrainState::NotDraining },
        dead_mans_switch: None,
        dead_mans_check: None,
        capacity_controller: None,
        lifecycle_hooks: Some(Box::new(RecordingHooks(hooks_log.clone()))),
    };
    let (tx, rx) = crate::concurrency::oneshot();
    let m = match msg {
        "drain" => FactoryMessage::DrainRequests,
        "dispatch" => FactoryMessage::Dispatch(Job { key: 5, msg: 100, options: JobOptions::default(), accepted: Some(tx.into()) }),
        other => FactoryMessage::Finished(other.strip_prefix("finished:").unwrap().parse().unwrap(), 5),
    };
    let f: Factory<u64, u64, (), ProbeWorker, ScriptRouter, DefaultQueue<u64, u64>> = Factory::default();
    let _ = f.handle(me.clone(), m, &mut state).await;
    for _ in 0..50 {
        tokio::task::yield_now().await;
    }
    crate::concurrency::sleep(Duration::from_millis(20)).await;
    let stopped = !matches!(me.get_status(), crate::ActorStatus::Running | crate::ActorStatus::Upgrading);
    let rejected = matches!(crate::concurrency::timeout(Duration::from_millis(5), rx).await, Ok(Ok(Some(_))));
    let out = format!(
        "stop={};state={:?};hooks={};queue={};rejected={};discards={}",
        stopped as u8,
        state.drain_state,
        hooks_log.lock().unwrap().join("+"),
        state.queue.len(),
        rejected as u8,
        wp::recorded(&rec).iter().map(|(r, k)| format!("{r}:{k}")).collect::<Vec<_>>().join("+")
    );
    for (_, w) in state.pool.drain() {
        w.actor.stop(None);
    }
    me.stop(None);
    out
}

/// One `dispatch` / `worker_finished_job` on a FactoryState with the real queuer router (sticky or not): workers 0..2, `busy` have a job (key 5) in
/// flight, the router's deque and flags as given, `queued` jobs (key 6) wait in the factory queue. op: "dispatch" | "finished:<wid>".
/// Returns "deque=<..>;flags=<..>;idle=<wids>;queue=<n>"
pub async fn queuer_step(sticky: bool, busy: &[usize], deque: &[usize], queued: usize, op: &str) -> String {
    use crate::factory::routing::{QueuerRouting, StickyQueuerRouting};
    use crate::factory::worker::verif_probe as wp;
    async fn run<R: Router<u64, u64> + crate::factory::routing::verif_probe::DequeAccess>(mut router: R, busy: &[usize], deque: &[usize], queued: usize, op: &str) -> String {
        router.set_deque(deque, 3);
        let mut pool = HashMap::new();
        let mut worker_by_actor = HashMap::new();
        for w in 0..3usize {
            let curr: Vec<u64> = if busy.contains(&w) { vec![5] } else { vec![] };
            let (rec, _got, _r) = wp::record_logging_at(w, &[], &curr, false).await;
            worker_by_actor.insert(rec.actor.get_id(), w);
            pool.insert(w, rec);
        }
        let mut queue = DefaultQueue::<u64, u64>::default();
        for i in 0..queued {
            queue.push_back(Job { key: 6, msg: 200 + i as u64, options: JobOptions::default(), accepted: None });
        }
        let mut state: FactoryState<u64, u64, ProbeWorker, (), R, DefaultQueue<u64, u64>> = FactoryState {
            factory_name: "verif".to_string(),
            worker_builder: Box::new(ProbeBuilder),
            pool_size: 3,
            pool,
            worker_by_actor,
            stats: None,
            router,
            queue,
            discard_handler: None,
            discard_settings: DiscardSettings::None,
            drain_state: DrainState::NotDraining,
            dead_mans_switch: None,
            dead_mans_check: None,
            capacity_controller: None,
            lifecycle_hooks: None,
        };
        if op == "dispatch" {
            let _ = state.dispatch(Job { key: 6, msg: 100, options: JobOptions::default(), accepted: None });
        } else if let Some(w) = op.strip_prefix("finished:") {
            let _ = state.worker_finished_job(w.parse().unwrap(), 5);
        } else if let Some(n) = op.strip_prefix("resize:") {
            let (me, _mh) = Actor::spawn(None, ProbeFactoryActor, ()).await.unwrap();
            let _ = state.resize_pool(&me, n.parse().unwrap()).await;
            me.stop(None);
        } else if let Some(w) = op.strip_prefix("death:") {
            let (me, _mh) = Actor::spawn(None, ProbeFactoryActor, ()).await.unwrap();
            let wid: usize = w.parse().unwrap();
            let cell = state.pool[&wid].actor.get_cell();
            let f: Factory<u64, u64, (), ProbeWorker, R, DefaultQueue<u64, u64>> = Factory::default();
            let _ = f.handle_supervisor_evt(me.clone(), SupervisionEvent::ActorFailed(cell, "verif".into()), &mut state).await;
            me.stop(None);
        } else {
            panic!("unknown op {op}");
        }
        let (dq, fl) = state.router.get_deque();
        let mut idle: Vec<usize> = state.pool.iter().filter(|(_, w)| w.is_available() && !w.is_draining).map(|(k, _)| *k).collect();
        idle.sort();
        let out = format!(
            "deque={};flags={};idle={};queue={}",
            dq.iter().map(|x| x.to_string()).collect::<Vec<_>>().join("+"),
            fl.iter().map(|x| (*x as u8).to_string()).collect::<Vec<_>>().join("+"),
            idle.iter().map(|x| x.to_string()).collect::<Vec<_>>().join("+"),
            state.queue.len()
        );
        for (_, w) in state.pool.drain() {
            w.actor.stop(None);
        }
        out
    }
    if sticky {
        run(StickyQueuerRouting::<u64, u64>::default(), busy, deque, queued, op).await
    } else {
        run(QueuerRouting::<u64, u64>::default(), busy, deque, queued, op).await
    }
}

/// Hypothesis H2: worker 0 has a job of key 5 in flight and one job of key `qkey` (message 300) queued behind it; the worker dies and the factory handles
/// the supervision event (replacement installed, queued job handed over); then the dead incarnation's `Finished(0, 5)` - sent just before it died - is handled.
/// Returns "after_death=<books of worker 0>;after_stale_report=<books of worker 0>" (books as `worker::verif_probe::books_of`).
pub async fn stale_report(qkey: u64) -> String {
    use crate::factory::worker::verif_probe as wp;
    let (me, _mh) = Actor::spawn(None, ProbeFactoryActor, ()).await.unwrap();
    let (rec, _got, _r) = wp::record_logging_at(0, &[qkey], &[5], false).await;
    let dead = rec.actor.get_cell();
    let mut pool = HashMap::new();
    let mut worker_by_actor = HashMap::new();
    worker_by_actor.insert(rec.actor.get_id(), 0usize);
    pool.insert(0usize, rec);
    let mut state: FactoryState<u64, u64, ProbeWorker, (), ScriptRouter, DefaultQueue<u64, u64>> = FactoryState {
        factory_name: "verif".to_string(),
        worker_builder: Box::new(ProbeBuilder),
        pool_size: 1,
        pool,
        worker_by_actor,
        stats: None,
        router: ScriptRouter { script: Default::default(), choose: Default::default(), routed: Arc::new(Mutex::new(Vec::new())) },
        queue: DefaultQueue::<u64, u64>::default(),
        discard_handler: None,
        discard_settings: DiscardSettings::None,
        drain_state: DrainState::NotDraining,
        dead_mans_switch: None,
        dead_mans_check: None,
        capacity_controller: None,
        lifecycle_hooks: None,
    };
    let f: Factory<u64, u64, (), ProbeWorker, ScriptRouter, DefaultQueue<u64, u64>> = Factory::default();
    let _ = f.handle_supervisor_evt(me.clone(), SupervisionEvent::ActorFailed(dead, "verif".into()), &mut state).await;
    let a = wp::books_of(&state.pool[&0]);
    let _ = state.worker_finished_job(0, 5);
    let b = state.pool.get(&0).map(wp::books_of).unwrap_or_else(|| "gone".to_string());
    for (_, w) in state.pool.drain() {
        w.actor.stop(None);
    }
    me.stop(None);
    format!("after_death={a};after_stale_report={b}")
}

/// `Factory::post_stop` on a two-worker FactoryState: `fq` jobs (key 6, messages 200..) wait in the factory queue; the workers listed in `wq` are busy (key 5
/// in flight) with one job (key 6, message 300 + wid) waiting in their own queue. One recording discard handler is shared by the factory and the workers.
/// Returns "discards=<reason:message,..>;workers_running=<n>"
pub async fn stop_step(fq: usize, wq: &[usize]) -> String {
    use crate::factory::worker::verif_probe as wp;
    let (me, _mh) = Actor::spawn(None, ProbeFactoryActor, ()).await.unwrap();
    let rec = Arc::new(wp::Recorder(Mutex::new(Vec::new())));
    let mut pool = HashMap::new();
    let mut worker_by_actor = HashMap::new();
    let mut actors = Vec::new();
    for w in 0..2usize {
        let busy = wq.contains(&w);
        let (mut r, _got, _r2) = wp::record_logging_at(w, &[], if busy { &[5] } else { &[] }, false).await;
        if busy {
            wp::push_job(&mut r, 6, 300 + w as u64);
        }
        wp::set_handler(&mut r, rec.clone());
        worker_by_actor.insert(r.actor.get_id(), w);
        actors.push(r.actor.get_cell());
        pool.insert(w, r);
    }
    let mut queue = DefaultQueue::<u64, u64>::default();
    for i in 0..fq {
        queue.push_back(Job { key: 6, msg: 200 + i as u64, options: JobOptions::default(), accepted: None });
    }
    let mut state: FactoryState<u64, u64, ProbeWorker, (), ScriptRouter, DefaultQueue<u64, u64>> = FactoryState {
        factory_name: "verif".to_string(),
        worker_builder: Box::new(ProbeBuilder),
        pool_size: 2,
        pool,
        worker_by_actor,
        stats: None,
        router: ScriptRouter { script: Default::default(), choose: Default::default(), routed: Arc::new(Mutex::new(Vec::new())) },
        queue,
        discard_handler: Some(rec.clone()),
        discard_settings: DiscardSettings::None,
        drain_state: DrainState::NotDraining,
        dead_mans_switch: None,
        dead_mans_check: None,
        capacity_controller: None,
        lifecycle_hooks: None,
    };
    let f: Factory<u64, u64, (), ProbeWorker, ScriptRouter, DefaultQueue<u64, u64>> = Factory::default();
    let _ = f.post_stop(me.clone(), &mut state).await;
    crate::concurrency::sleep(Duration::from_millis(20)).await;
    let running = actors.iter().filter(|c| matches!(c.get_status(), crate::ActorStatus::Running | crate::ActorStatus::Upgrading)).count();
    me.stop(None);
    // the recorder stores (reason, key); message ids are not kept, so report how many of each
    let out = format!("discards={};workers_running={}", wp::recorded(&rec).iter().map(|(r, k)| format!("{r}:{k}")).collect::<Vec<_>>().join(","), running);
    out
}
