//! Probe for `factory::ratelim` private items (`refresh`, `deadline`).
use super::*;

fn dur(ns: u128) -> Duration {
    Duration::new((ns / 1_000_000_000) as u64, (ns % 1_000_000_000) as u32)
}

/// Build a limiter with explicit private state. Instants are offsets (ns) from `base`.
pub fn make(
    base: Instant,
    refill: usize,
    interval_ns: u128,
    max: usize,
    balance: usize,
    deadline_off: Option<u128>,
) -> LeakyBucketRateLimiter {
    LeakyBucketRateLimiter {
        refill,
        interval: dur(interval_ns),
        max,
        balance,
        deadline: deadline_off.and_then(|d| base.checked_add(dur(d))),
    }
}

/// offset of the limiter's deadline from `base` in ns (None if no deadline)
pub fn deadline_off(l: &LeakyBucketRateLimiter, base: Instant) -> Option<u128> {
    l.deadline
        .map(|d| d.saturating_duration_since(base).as_nanos())
}

/// one `refresh(base + now_off)` step
pub fn refresh_at(l: &mut LeakyBucketRateLimiter, base: Instant, now_off: u128) {
    let now = base.checked_add(dur(now_off)).expect("representable now");
    l.refresh(now);
}
