//! Probe inside `port::output::v1`: number of subscription records the port currently holds (private field).
use super::*;

impl<TMsg: OutputMessage> OutputPort<TMsg> {
    /// length of the private subscription list
    pub fn verif_subscription_count(&self) -> usize {
        self.subscriptions.read().unwrap().len()
    }
}
