//! Probe for the private session-level handlers of `ractor_cluster::node::node_session` (`handle_auth`, `handle_node`,
//! `handle_control` and the `NodeSessionState` they work on). One call = one inbound frame handled by a session whose
//! authentication state is given as plain data; the observable consequences come back as plain data.
use std::sync::atomic::AtomicU32;
use std::sync::atomic::Ordering as AtomicOrdering;
use std::sync::Arc;
use std::sync::Mutex;

use super::*;
use crate::node::verif_probe as np;

/// What the peer sent.
#[derive(Debug, Clone)]
pub enum VerifFrame {
    /// authentication message: oneof variant name (or "None"), numeric field, bool field, digest bytes
    Auth { kind: String, val: u32, flag: bool, digest: Vec<u8> },
    /// the same authentication message, but through the actor's `handle` (dispatch of an inbound network message)
    AuthHandle { kind: String, val: u32, flag: bool, digest: Vec<u8> },
    /// node message: "None", "Cast", "Call/timeout", "Call/no-timeout", "Reply"
    Node { kind: String },
    /// control message: "None" or the oneof variant name
    Control { kind: String },
}

/// What could be observed afterwards.
#[derive(Debug, Clone, Default)]
pub struct VerifObs {
    pub delivered: u32,
    pub auth: String,
    pub auth_a: u32,
    pub auth_d: [u8; 32],
    pub myself_stopped: bool,
    pub remote_actors: usize,
    pub advertised: usize,
    pub ready: String,
    pub server_log: Vec<String>,
    pub tcp_sent: u32,
    pub group_members: usize,
    pub children: usize,
    pub target_pid: u64,
    /// what the target actor was handed (kind/variant/args/metadata), in order
    pub target_log: Vec<String>,
    /// node frames this session was asked to send back (the reply task of a Call)
    pub session_frames: Vec<String>,
}

struct VerifNodeServer {
    reply: String,
    log: Arc<Mutex<Vec<String>>>,
}

#[cfg_attr(feature = "async-trait", ractor::async_trait)]
impl Actor for VerifNodeServer {
    type Msg = NodeServerMessage;
    type State = Vec<ractor::RpcReplyPort<crate::node::SessionCheckReply>>;
    type Arguments = ();
    async fn pre_start(&self, _myself: ActorRef<Self::Msg>, _: ()) -> Result<Self::State, ActorProcessingErr> {
        Ok(Vec::new())
    }
    async fn handle(&self, _myself: ActorRef<Self::Msg>, message: Self::Msg, state: &mut Self::State) -> Result<(), ActorProcessingErr> {
        use crate::node::SessionCheckReply as R;
        match message {
            NodeServerMessage::CheckSession { reply, .. } => {
                self.log.lock().unwrap().push("CheckSession".to_string());
                match self.reply.as_str() {
                    "NoOtherConnection" => drop(reply.send(R::NoOtherConnection)),
                    "OtherConnectionContinues" => drop(reply.send(R::OtherConnectionContinues)),
                    "ThisConnectionContinues" => drop(reply.send(R::ThisConnectionContinues)),
                    "DuplicateConnection" => drop(reply.send(R::DuplicateConnection)),
                    "timeout" => state.push(reply),
                    _ => drop(reply), // "sender_error"
                }
            }
            NodeServerMessage::UpdateSession { .. } => self.log.lock().unwrap().push("UpdateSession".to_string()),
            NodeServerMessage::ConnectionAuthenticated(_) => self.log.lock().unwrap().push("ConnectionAuthenticated".to_string()),
            NodeServerMessage::ConnectionReady(_) => self.log.lock().unwrap().push("ConnectionReady".to_string()),
            NodeServerMessage::GetSessions(reply) => {
                self.log.lock().unwrap().push("GetSessions".to_string());
                drop(reply.send(HashMap::new()));
            }
            _ => self.log.lock().unwrap().push("other".to_string()),
        }
        Ok(())
    }
}

struct VerifSessionActor {
    frames: Arc<Mutex<Vec<String>>>,
}

#[cfg_attr(feature = "async-trait", ractor::async_trait)]
impl Actor for VerifSessionActor {
    type Msg = crate::node::NodeSessionMessage;
    type State = ();
    type Arguments = ();
    async fn pre_start(&self, _myself: ActorRef<Self::Msg>, _: ()) -> Result<Self::State, ActorProcessingErr> {
        Ok(())
    }
    async fn handle(&self, _myself: ActorRef<Self::Msg>, message: Self::Msg, _state: &mut Self::State) -> Result<(), ActorProcessingErr> {
        if let crate::node::NodeSessionMessage::SendMessage(nm) = message {
            use node_protocol::node_message::Msg;
            let line = match nm.msg {
                Some(Msg::Reply(r)) => format!("Reply/to={}/tag={}/what={:?}", r.to, r.tag, r.what),
                Some(Msg::Call(c)) => format!("Call/to={}/tag={}", c.to, c.tag),
                Some(Msg::Cast(c)) => format!("Cast/to={}", c.to),
                None => "None".to_string(),
            };
            self.frames.lock().unwrap().push(line.replace([' ', ','], ""));
        }
        Ok(())
    }
    async fn handle_supervisor_evt(&self, _myself: ActorRef<Self::Msg>, _message: SupervisionEvent, _state: &mut Self::State) -> Result<(), ActorProcessingErr> {
        Ok(())
    }
}

struct VerifTcp {
    sent: Arc<AtomicU32>,
    /// control frames handed to the transport, summarised (announce replays)
    control: Option<Arc<Mutex<Vec<String>>>>,
}

#[cfg_attr(feature = "async-trait", ractor::async_trait)]
impl Actor for VerifTcp {
    type Msg = SessionMessage;
    type State = ();
    type Arguments = ();
    async fn pre_start(&self, _myself: ActorRef<Self::Msg>, _: ()) -> Result<Self::State, ActorProcessingErr> {
        Ok(())
    }
    async fn handle(&self, _myself: ActorRef<Self::Msg>, message: Self::Msg, _state: &mut Self::State) -> Result<(), ActorProcessingErr> {
        if let SessionMessage::Send(nm) = &message {
            self.sent.fetch_add(1, AtomicOrdering::SeqCst);
            if let (Some(log), Some(crate::protocol::meta::network_message::Message::Control(c))) = (&self.control, &nm.message) {
                use control_protocol::control_message::Msg;
                let acts = |v: &Vec<control_protocol::Actor>| v.iter().map(|a| format!("{}:{}", a.pid, a.name.clone().unwrap_or_default())).collect::<Vec<_>>().join("+");
                let line = match &c.msg {
                    Some(Msg::Spawn(s)) => format!("Spawn/{}", acts(&s.actors)),
                    Some(Msg::Terminate(t)) => format!("Terminate/{}", t.ids.iter().map(|x| x.to_string()).collect::<Vec<_>>().join("+")),
                    Some(Msg::PgJoin(j)) => format!("PgJoin/{}/{}/{}", j.scope, j.group, acts(&j.actors)),
                    Some(Msg::PgLeave(l)) => format!("PgLeave/{}/{}/{}", l.scope, l.group, acts(&l.actors)),
                    Some(_) => "other".to_string(),
                    None => "none".to_string(),
                };
                log.lock().unwrap().push(line);
            }
        }
        Ok(())
    }
}

struct VerifRemotable(String, Option<ractor::RpcReplyPort<Vec<u8>>>);
impl ractor::Message for VerifRemotable {
    fn serializable() -> bool {
        true
    }
    fn deserialize(message: SerializedMessage) -> Result<Self, ractor::message::BoxedDowncastErr> {
        match message {
            SerializedMessage::Cast { variant, args, metadata } => Ok(Self(format!("Cast/variant={variant}/args={args:?}/meta={metadata:?}").replace([' ', ','], ""), None)),
            SerializedMessage::Call { variant, args, reply, metadata } => Ok(Self(
                format!("Call/variant={variant}/args={args:?}/meta={metadata:?}/timeout={}", reply.get_timeout().map(|d| d.as_millis() as i64).unwrap_or(-1)).replace([' ', ','], ""),
                Some(reply),
            )),
            SerializedMessage::CallReply(_, _) => Err(ractor::message::BoxedDowncastErr),
        }
    }
}
struct VerifPlain;
impl ractor::Message for VerifPlain {}

trait VerifDescribe {
    fn describe(self) -> String;
}
impl VerifDescribe for VerifRemotable {
    fn describe(self) -> String {
        if let Some(port) = self.1 {
            let _ = port.send(vec![42]);
        }
        self.0
    }
}
impl VerifDescribe for VerifPlain {
    fn describe(self) -> String {
        "plain".to_string()
    }
}

struct VerifTarget<M> {
    received: Arc<AtomicU32>,
    log: Arc<Mutex<Vec<String>>>,
    _m: std::marker::PhantomData<fn() -> M>,
}

#[cfg_attr(feature = "async-trait", ractor::async_trait)]
impl<M: ractor::Message + VerifDescribe> Actor for VerifTarget<M> {
    type Msg = M;
    type State = ();
    type Arguments = ();
    async fn pre_start(&self, _myself: ActorRef<Self::Msg>, _: ()) -> Result<Self::State, ActorProcessingErr> {
        Ok(())
    }
    async fn handle(&self, _myself: ActorRef<Self::Msg>, message: Self::Msg, _state: &mut Self::State) -> Result<(), ActorProcessingErr> {
        self.received.fetch_add(1, AtomicOrdering::SeqCst);
        self.log.lock().unwrap().push(message.describe());
        Ok(())
    }
}

fn verif_auth_state(label: &str, a: u32, b: u32, d1: [u8; 32], d2: [u8; 32]) -> AuthenticationState {
    let (role, rest) = label.split_once('(').expect("label is Role(State)");
    let st = rest.trim_end_matches(')');
    match role {
        "AsServer" => AuthenticationState::AsServer(np::verif_server_state(st, a, d1)),
        "AsClient" => AuthenticationState::AsClient(np::verif_client_state(st, a, b, d1, d2)),
        other => panic!("unknown role {other}"),
    }
}

fn verif_auth_label(s: &AuthenticationState) -> (String, u32, [u8; 32]) {
    match s {
        AuthenticationState::AsServer(x) => {
            let (n, a, d) = np::verif_server_state_out(x);
            (format!("AsServer({n})"), a, d)
        }
        AuthenticationState::AsClient(x) => {
            let (n, a, d) = np::verif_client_state_out(x);
            (format!("AsClient({n})"), a, d)
        }
    }
}

const VERIF_REMOTE_PID: u64 = 4242;
const VERIF_SCOPE: &str = "verif-scope";
const VERIF_GROUP: &str = "verif-group";

fn verif_control(kind: &str) -> control_protocol::ControlMessage {
    use control_protocol::control_message::Msg;
    let actor = || control_protocol::Actor { pid: VERIF_REMOTE_PID, name: None };
    let msg = match kind {
        "None" => None,
        "Spawn" => Some(Msg::Spawn(control_protocol::Spawn { actors: vec![actor()] })),
        "Terminate" => Some(Msg::Terminate(control_protocol::Terminate { ids: vec![VERIF_REMOTE_PID] })),
        "Ping" => Some(Msg::Ping(control_protocol::Ping { timestamp: None })),
        "Pong" => Some(Msg::Pong(control_protocol::Pong { timestamp: None })),
        "PgJoin" => Some(Msg::PgJoin(control_protocol::PgJoin { group: VERIF_GROUP.to_string(), actors: vec![actor()], scope: VERIF_SCOPE.to_string() })),
        "PgLeave" => Some(Msg::PgLeave(control_protocol::PgLeave { group: VERIF_GROUP.to_string(), actors: vec![actor()], scope: VERIF_SCOPE.to_string() })),
        "EnumerateNodeSessions" => Some(Msg::EnumerateNodeSessions(auth_protocol::NameMessage {
            name: "verif-peer".to_string(),
            flags: None,
            connection_string: "verif-peer:1".to_string(),
            connection_id: 0,
        })),
        "NodeSessions" => Some(Msg::NodeSessions(control_protocol::NodeSessions { sessions: vec![] })),
        "Ready" => Some(Msg::Ready(control_protocol::Ready {})),
        other => panic!("unknown control kind {other}"),
    };
    control_protocol::ControlMessage { msg }
}

/// Handle one inbound frame on a session in the given authentication state.
#[allow(clippy::too_many_arguments)]
pub async fn verif_session_step(
    auth_label: &str,
    a: u32,
    b: u32,
    d1: [u8; 32],
    d2: [u8; 32],
    frame: VerifFrame,
    advertised: bool,
    remotable: bool,
    check_reply: &str,
    cookie: &str,
) -> VerifObs {
    let log = Arc::new(Mutex::new(Vec::new()));
    let (server, server_handle) = Actor::spawn(None, VerifNodeServer { reply: check_reply.to_string(), log: log.clone() }, ()).await.unwrap();
    let mut server_handle = Some(server_handle);
    if check_reply == "err" {
        server.stop(None);
        if let Some(h) = server_handle.take() {
            let _ = h.await;
        }
    }
    let frames = Arc::new(Mutex::new(Vec::new()));
    let (session_actor, session_handle) = Actor::spawn(None, VerifSessionActor { frames: frames.clone() }, ()).await.unwrap();
    let sent = Arc::new(AtomicU32::new(0));
    let (tcp, tcp_handle) = Actor::spawn(None, VerifTcp { sent: sent.clone(), control: None }, ()).await.unwrap();
    let received = Arc::new(AtomicU32::new(0));
    let target_log = Arc::new(Mutex::new(Vec::new()));
    let (target_cell, target_handle) = if remotable {
        let (t, h) = Actor::spawn(None, VerifTarget::<VerifRemotable> { received: received.clone(), log: target_log.clone(), _m: std::marker::PhantomData }, ()).await.unwrap();
        (t.get_cell(), h)
    } else {
        let (t, h) = Actor::spawn(None, VerifTarget::<VerifPlain> { received: received.clone(), log: target_log.clone(), _m: std::marker::PhantomData }, ()).await.unwrap();
        (t.get_cell(), h)
    };
    let pid = target_cell.get_id().pid();

    let session = NodeSession {
        cookie: cookie.to_string(),
        is_server: auth_label.starts_with("AsServer"),
        node_id: 1,
        this_node_name: auth_protocol::NameMessage {
            name: "verif-myself".to_string(),
            flags: Some(auth_protocol::NodeFlags { version: 1 }),
            connection_string: "verif-myself:1".to_string(),
            connection_id: 0,
        },
        node_server: server.get_cell().into(),
        connection_mode: NodeConnectionMode::Isolated,
        max_inbound_frame_size: crate::DEFAULT_MAX_INBOUND_FRAME_SIZE,
        connection_id: 0,
    };
    let mut state = NodeSessionState {
        auth: verif_auth_state(auth_label, a, b, d1, d2),
        ready: ReadyState::Open,
        local_addr: SocketAddr::new(std::net::IpAddr::V4(std::net::Ipv4Addr::LOCALHOST), 0),
        peer_addr: SocketAddr::new(std::net::IpAddr::V4(std::net::Ipv4Addr::LOCALHOST), 0),
        name: None,
        connection_id: 0,
        remote_actors: HashMap::new(),
        advertised_local_pids: HashSet::new(),
        tcp: Some(tcp.clone()),
        ping_task: None,
        epoch: Instant::now(),
        pong_warnings: PongWarnings::default(),
    };
    if advertised {
        state.advertised_local_pids.insert(pid);
    }
    let myself: ActorRef<crate::node::NodeSessionMessage> = session_actor.get_cell().into();

    match frame {
        VerifFrame::Auth { kind, val, flag, digest } => {
            session.handle_auth(&mut state, np::verif_auth_msg(&kind, val, flag, &digest), myself.clone()).await;
        }
        VerifFrame::AuthHandle { kind, val, flag, digest } => {
            let nm = crate::protocol::NetworkMessage {
                message: Some(crate::protocol::meta::network_message::Message::Auth(np::verif_auth_msg(&kind, val, flag, &digest))),
            };
            let _ = session.handle(myself.clone(), crate::node::NodeSessionMessage::MessageReceived(nm), &mut state).await;
        }
        VerifFrame::Node { kind } => {
            use node_protocol::node_message::Msg;
            let msg = match kind.as_str() {
                "None" => None,
                "Cast" => Some(Msg::Cast(node_protocol::Cast { to: pid, what: vec![1, 2], variant: "Cast".to_string(), metadata: Some(vec![9]) })),
                "Call/timeout" => Some(Msg::Call(node_protocol::Call { to: pid, tag: 77, what: vec![1, 2], timeout_ms: Some(50), variant: "Call".to_string(), metadata: Some(vec![9]) })),
                "Call/no-timeout" => Some(Msg::Call(node_protocol::Call { to: pid, tag: 77, what: vec![1, 2], timeout_ms: None, variant: "Call".to_string(), metadata: Some(vec![9]) })),
                "Reply" => Some(Msg::Reply(node_protocol::CallReply { to: VERIF_REMOTE_PID, tag: 1, what: vec![] })),
                other => panic!("unknown node kind {other}"),
            };
            session.handle_node(&mut state, node_protocol::NodeMessage { msg }, myself.clone());
        }
        VerifFrame::Control { kind } => {
            let _ = session.handle_control(&mut state, verif_control(&kind), myself.clone()).await;
        }
    }
    ractor::concurrency::sleep(Duration::from_millis(40)).await;

    let (auth, auth_a, auth_d) = verif_auth_label(&state.auth);
    let obs = VerifObs {
        delivered: received.load(AtomicOrdering::SeqCst),
        auth,
        auth_a,
        auth_d,
        myself_stopped: !matches!(session_actor.get_status(), ractor::ActorStatus::Running | ractor::ActorStatus::Upgrading),
        remote_actors: state.remote_actors.len(),
        advertised: state.advertised_local_pids.len(),
        ready: format!("{:?}", state.ready),
        server_log: log.lock().unwrap().clone(),
        tcp_sent: sent.load(AtomicOrdering::SeqCst),
        group_members: ractor::pg::get_scoped_members(&VERIF_SCOPE.to_string(), &VERIF_GROUP.to_string()).len(),
        children: session_actor.get_children().len(),
        target_pid: pid,
        target_log: target_log.lock().unwrap().clone(),
        session_frames: frames.lock().unwrap().clone(),
    };
    for (_, ra) in state.remote_actors.drain() {
        ra.stop(None);
    }
    target_cell.stop(None);
    tcp.stop(None);
    session_actor.stop(None);
    server.stop(None);
    let _ = target_handle.await;
    let _ = tcp_handle.await;
    let _ = session_handle.await;
    if let Some(h) = server_handle.take() {
        let _ = h.await;
    }
    obs
}

/// One Spawn / Terminate / PgJoin / PgLeave control message handled by the real `handle_control` of an authenticated session whose proxy table already
/// holds proxies for the pids in `have` (and, with `enrolled`, those proxies are members of the group). Returns
/// "table=<pid:new|old,..>;stopped=<pids of earlier proxies no longer running>;members=<pids of proxies in the group>;children=<n>"
pub async fn verif_mirror(have: &[u64], enrolled: bool, kind: &str, list: &[u64]) -> String {
    let log = Arc::new(Mutex::new(Vec::new()));
    let (server, _sh) = Actor::spawn(None, VerifNodeServer { reply: "NoOtherConnection".to_string(), log: log.clone() }, ()).await.unwrap();
    let frames = Arc::new(Mutex::new(Vec::new()));
    let (session_actor, _h) = Actor::spawn(None, VerifSessionActor { frames: frames.clone() }, ()).await.unwrap();
    let sent = Arc::new(AtomicU32::new(0));
    let (tcp, _th) = Actor::spawn(None, VerifTcp { sent: sent.clone(), control: None }, ()).await.unwrap();
    let session = NodeSession {
        cookie: "cookie".to_string(),
        is_server: true,
        node_id: 1,
        this_node_name: auth_protocol::NameMessage { name: "verif-myself".to_string(), flags: Some(auth_protocol::NodeFlags { version: 1 }), connection_string: "verif-myself:1".to_string(), connection_id: 0 },
        node_server: server.get_cell().into(),
        connection_mode: NodeConnectionMode::Isolated,
        max_inbound_frame_size: crate::DEFAULT_MAX_INBOUND_FRAME_SIZE,
        connection_id: 0,
    };
    let mut state = NodeSessionState {
        auth: verif_auth_state("AsServer(Ok)", 0, 0, [0; 32], [0; 32]),
        ready: ReadyState::Open,
        local_addr: SocketAddr::new(std::net::IpAddr::V4(std::net::Ipv4Addr::LOCALHOST), 0),
        peer_addr: SocketAddr::new(std::net::IpAddr::V4(std::net::Ipv4Addr::LOCALHOST), 0),
        name: None,
        connection_id: 0,
        remote_actors: HashMap::new(),
        advertised_local_pids: HashSet::new(),
        tcp: Some(tcp.clone()),
        ping_task: None,
        epoch: Instant::now(),
        pong_warnings: PongWarnings::default(),
    };
    let myself: ActorRef<crate::node::NodeSessionMessage> = session_actor.get_cell().into();
    let scope = format!("{}-{}", VERIF_SCOPE, std::process::id());
    let mut before: Vec<(u64, ActorRef<RemoteActorMessage>)> = Vec::new();
    for pid in have {
        let a = session.get_or_spawn_remote_actor(&myself, None, *pid, &mut state).await.unwrap();
        if enrolled {
            ractor::pg::join_scoped(scope.clone(), VERIF_GROUP.to_string(), vec![a.get_cell()]);
        }
        before.push((*pid, a));
    }
    use control_protocol::control_message::Msg;
    let actors: Vec<control_protocol::Actor> = list.iter().map(|p| control_protocol::Actor { pid: *p, name: None }).collect();
    let msg = match kind {
        "Spawn" => Msg::Spawn(control_protocol::Spawn { actors }),
        "Terminate" => Msg::Terminate(control_protocol::Terminate { ids: list.to_vec() }),
        "PgJoin" => Msg::PgJoin(control_protocol::PgJoin { group: VERIF_GROUP.to_string(), actors, scope: scope.clone() }),
        "PgLeave" => Msg::PgLeave(control_protocol::PgLeave { group: VERIF_GROUP.to_string(), actors, scope: scope.clone() }),
        other => panic!("unknown control kind {other}"),
    };
    let _ = session.handle_control(&mut state, control_protocol::ControlMessage { msg: Some(msg) }, myself.clone()).await;
    ractor::concurrency::sleep(Duration::from_millis(40)).await;
    let mut table: Vec<String> = state
        .remote_actors
        .iter()
        .map(|(pid, a)| format!("{}:{}", pid, if before.iter().any(|(p, b)| p == pid && b.get_id() == a.get_id()) { "old" } else { "new" }))
        .collect();
    table.sort();
    let stopped: Vec<String> = before.iter().filter(|(_, a)| !matches!(a.get_status(), ractor::ActorStatus::Running | ractor::ActorStatus::Upgrading)).map(|(p, _)| p.to_string()).collect();
    let members = ractor::pg::get_scoped_members(&scope, &VERIF_GROUP.to_string());
    let mut mp: Vec<String> = Vec::new();
    for m in members {
        let pid = state.remote_actors.iter().find(|(_, a)| a.get_id() == m.get_id()).map(|(p, _)| p.to_string()).or_else(|| before.iter().find(|(_, a)| a.get_id() == m.get_id()).map(|(p, _)| format!("{}!gone", p)));
        mp.push(pid.unwrap_or_else(|| "?".to_string()));
    }
    mp.sort();
    let out = format!("table={};stopped={};members={};children={}", table.join(","), stopped.join(","), mp.join(","), session_actor.get_children().len());
    for (_, ra) in state.remote_actors.drain() {
        ra.stop(None);
    }
    for (_, a) in before {
        a.stop(None);
    }
    tcp.stop(None);
    session_actor.stop(None);
    server.stop(None);
    out
}


/// One pid-lifecycle / group-change event handled by the real `handle_supervisor_evt` of an authenticated session. Two local actors exist: actor 1 and
/// actor 2, each remotable or not; `advertised` says which of them are already in the advertised set. event: "Spawn1" | "Terminate2" | "Join12" | "Leave21" | "Join-" ...
/// Returns "frames=<..>;advertised=<1|2 list>;proxies=<n>" with pids written as actor numbers.
pub async fn verif_announce(advertised: &[u64], remotable: &[bool], event: &str) -> String {
    let log = Arc::new(Mutex::new(Vec::new()));
    let (server, _sh) = Actor::spawn(None, VerifNodeServer { reply: "NoOtherConnection".to_string(), log: log.clone() }, ()).await.unwrap();
    let frames = Arc::new(Mutex::new(Vec::new()));
    let (session_actor, _h) = Actor::spawn(None, VerifSessionActor { frames: frames.clone() }, ()).await.unwrap();
    let sent = Arc::new(AtomicU32::new(0));
    let control = Arc::new(Mutex::new(Vec::new()));
    let (tcp, _th) = Actor::spawn(None, VerifTcp { sent: sent.clone(), control: Some(control.clone()) }, ()).await.unwrap();
    let mut cells: Vec<ractor::ActorCell> = Vec::new();
    for (i, r) in remotable.iter().enumerate() {
        let received = Arc::new(AtomicU32::new(0));
        let tl = Arc::new(Mutex::new(Vec::new()));
        let name = Some(format!("name-a{}-{}", i + 1, std::process::id()));
        let c = if *r {
            Actor::spawn(name, VerifTarget::<VerifRemotable> { received, log: tl, _m: std::marker::PhantomData }, ()).await.unwrap().0.get_cell()
        } else {
            Actor::spawn(name, VerifTarget::<VerifPlain> { received, log: tl, _m: std::marker::PhantomData }, ()).await.unwrap().0.get_cell()
        };
        cells.push(c);
    }
    let session = NodeSession {
        cookie: "cookie".to_string(),
        is_server: true,
        node_id: 1,
        this_node_name: auth_protocol::NameMessage { name: "verif-myself".to_string(), flags: Some(auth_protocol::NodeFlags { version: 1 }), connection_string: "verif-myself:1".to_string(), connection_id: 0 },
        node_server: server.get_cell().into(),
        connection_mode: NodeConnectionMode::Isolated,
        max_inbound_frame_size: crate::DEFAULT_MAX_INBOUND_FRAME_SIZE,
        connection_id: 0,
    };
    let mut state = NodeSessionState {
        auth: verif_auth_state("AsServer(Ok)", 0, 0, [0; 32], [0; 32]),
        ready: ReadyState::Ready,
        local_addr: SocketAddr::new(std::net::IpAddr::V4(std::net::Ipv4Addr::LOCALHOST), 0),
        peer_addr: SocketAddr::new(std::net::IpAddr::V4(std::net::Ipv4Addr::LOCALHOST), 0),
        name: None,
        connection_id: 0,
        remote_actors: HashMap::new(),
        advertised_local_pids: advertised.iter().map(|k| cells[*k as usize - 1].get_id().pid()).collect(),
        tcp: Some(tcp.clone()),
        ping_task: None,
        epoch: Instant::now(),
        pong_warnings: PongWarnings::default(),
    };
    let myself: ActorRef<crate::node::NodeSessionMessage> = session_actor.get_cell().into();
    let pick = |s: &str| -> Vec<ractor::ActorCell> { s.chars().filter_map(|c| c.to_digit(10)).map(|d| cells[d as usize - 1].clone()).collect() };
    let ev = if let Some(r) = event.strip_prefix("Spawn") {
        SupervisionEvent::PidLifecycleEvent(ractor::registry::PidLifecycleEvent::Spawn(pick(r)[0].clone()))
    } else if let Some(r) = event.strip_prefix("Terminate") {
        SupervisionEvent::PidLifecycleEvent(ractor::registry::PidLifecycleEvent::Terminate(pick(r)[0].clone()))
    } else if let Some(r) = event.strip_prefix("Join") {
        SupervisionEvent::ProcessGroupChanged(ractor::pg::GroupChangeMessage::Join("the-scope".to_string(), "the-group".to_string(), pick(r)))
    } else if let Some(r) = event.strip_prefix("Leave") {
        SupervisionEvent::ProcessGroupChanged(ractor::pg::GroupChangeMessage::Leave("the-scope".to_string(), "the-group".to_string(), pick(r)))
    } else {
        panic!("unknown event {event}")
    };
    let _ = session.handle_supervisor_evt(myself.clone(), ev, &mut state).await;
    ractor::concurrency::sleep(Duration::from_millis(30)).await;
    let num = |pid: u64| cells.iter().position(|c| c.get_id().pid() == pid).map(|i| (i + 1).to_string()).unwrap_or_else(|| "?".to_string());
    let mut fr: Vec<String> = control.lock().unwrap().clone();
    for f in fr.iter_mut() {
        for (i, c) in cells.iter().enumerate() {
            *f = f.replace(&format!("{}:", c.get_id().pid()), &format!("#{}:", i + 1)).replace(&format!("-{}", std::process::id()), "");
            if f.starts_with("Terminate/") {
                *f = f.replace(&c.get_id().pid().to_string(), &format!("#{}", i + 1));
            }
        }
    }
    let mut adv: Vec<String> = state.advertised_local_pids.iter().map(|p| num(*p)).collect();
    adv.sort();
    let out = format!("frames={};advertised={};proxies={}", fr.join("|"), adv.join("+"), state.remote_actors.len());
    for c in cells {
        c.stop(None);
    }
    tcp.stop(None);
    session_actor.stop(None);
    server.stop(None);
    out
}


/// The session's reaction to the exit / failure of one of its children: child = "tcp" | "proxy" (the proxy of pid 77) | "stranger"; event = "ActorTerminated" | "ActorFailed".
/// Returns "session_stopped=<0|1>;table=<pid:old|new,..>;old77_running=<0|1>"
pub async fn verif_child_exit(child: &str, event: &str) -> String {
    let log = Arc::new(Mutex::new(Vec::new()));
    let (server, _sh) = Actor::spawn(None, VerifNodeServer { reply: "NoOtherConnection".to_string(), log: log.clone() }, ()).await.unwrap();
    let frames = Arc::new(Mutex::new(Vec::new()));
    let (session_actor, _h) = Actor::spawn(None, VerifSessionActor { frames: frames.clone() }, ()).await.unwrap();
    let sent = Arc::new(AtomicU32::new(0));
    let (tcp, _th) = Actor::spawn(None, VerifTcp { sent: sent.clone(), control: None }, ()).await.unwrap();
    let (stranger, _xh) = Actor::spawn(None, VerifTcp { sent: sent.clone(), control: None }, ()).await.unwrap();
    let session = NodeSession {
        cookie: "cookie".to_string(),
        is_server: true,
        node_id: 1,
        this_node_name: auth_protocol::NameMessage { name: "verif-myself".to_string(), flags: Some(auth_protocol::NodeFlags { version: 1 }), connection_string: "verif-myself:1".to_string(), connection_id: 0 },
        node_server: server.get_cell().into(),
        connection_mode: NodeConnectionMode::Isolated,
        max_inbound_frame_size: crate::DEFAULT_MAX_INBOUND_FRAME_SIZE,
        connection_id: 0,
    };
    let mut state = NodeSessionState {
        auth: verif_auth_state("AsServer(Ok)", 0, 0, [0; 32], [0; 32]),
        ready: ReadyState::Ready,
        local_addr: SocketAddr::new(std::net::IpAddr::V4(std::net::Ipv4Addr::LOCALHOST), 0),
        peer_addr: SocketAddr::new(std::net::IpAddr::V4(std::net::Ipv4Addr::LOCALHOST), 0),
        name: None,
        connection_id: 0,
        remote_actors: HashMap::new(),
        advertised_local_pids: HashSet::new(),
        tcp: Some(tcp.clone()),
        ping_task: None,
        epoch: Instant::now(),
        pong_warnings: PongWarnings::default(),
    };
    let myself: ActorRef<crate::node::NodeSessionMessage> = session_actor.get_cell().into();
    let mut before = Vec::new();
    for pid in [77u64, 78] {
        let a = session.get_or_spawn_remote_actor(&myself, None, pid, &mut state).await.unwrap();
        before.push((pid, a));
    }
    let cell = match child {
        "tcp" => tcp.get_cell(),
        "proxy" => before[0].1.get_cell(),
        _ => stranger.get_cell(),
    };
    let ev = if event == "ActorTerminated" { SupervisionEvent::ActorTerminated(cell, None, None) } else { SupervisionEvent::ActorFailed(cell, "verif".into()) };
    let _ = session.handle_supervisor_evt(myself.clone(), ev, &mut state).await;
    ractor::concurrency::sleep(Duration::from_millis(40)).await;
    let running = |a: &ActorRef<RemoteActorMessage>| matches!(a.get_status(), ractor::ActorStatus::Running | ractor::ActorStatus::Upgrading | ractor::ActorStatus::Starting);
    // an entry is the proxy that was there before iff that proxy is still running (a replaced proxy was killed, a removed one stopped)
    let mut table: Vec<String> = state.remote_actors.keys().map(|pid| format!("{}:{}", pid, if before.iter().any(|(p, b)| p == pid && running(b)) { "old" } else { "new" })).collect();
    table.sort();
    let out = format!(
        "session_stopped={};table={};old77_running={}",
        (!matches!(session_actor.get_status(), ractor::ActorStatus::Running | ractor::ActorStatus::Upgrading)) as u8,
        table.join(","),
        running(&before[0].1) as u8
    );
    for (_, ra) in state.remote_actors.drain() {
        ra.stop(None);
    }
    for (_, a) in before {
        a.stop(None);
    }
    tcp.stop(None);
    stranger.stop(None);
    session_actor.stop(None);
    server.stop(None);
    out
}

