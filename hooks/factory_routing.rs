//! Probe inside `factory::routing`: one `choose_target_worker` call on a router with explicit private state.
#![allow(missing_docs, missing_debug_implementations, dead_code)]
use super::*;
use crate::factory::worker::verif_probe as wp;
use std::collections::VecDeque;

struct FixedHash(usize);
impl CustomHashFunction<u64> for FixedHash {
    fn hash(&self, _key: &u64, _n: usize) -> usize {
        self.0
    }
}

/// returns "res=<id|none>;deque=<..>;flags=<..>;last=<n>"
#[allow(clippy::too_many_arguments)]
pub async fn choose(router: &str, deque: &[usize], flags: &[bool], last_worker: usize, hash: usize, key: u64, pool_size: usize, hint: Option<usize>, pool: &[(usize, String)], calls: usize) -> String {
    let pool = wp::pool(pool).await;
    let job = wp::a_job(key);
    let mut res: Vec<String> = Vec::new();
    let mut post = String::new();
    match router {
        "custom" => {
            let mut r: CustomRouting<u64, u64, FixedHash> = CustomRouting::new(FixedHash(hash));
            for _ in 0..calls {
                res.push(r.choose_target_worker(&job, pool_size, hint, &pool).map(|x| x.to_string()).unwrap_or_else(|| "none".into()));
            }
        }
        "round_robin" => {
            let mut r: RoundRobinRouting<u64, u64> = RoundRobinRouting::default();
            r.last_worker = last_worker;
            for _ in 0..calls {
                res.push(r.choose_target_worker(&job, pool_size, hint, &pool).map(|x| x.to_string()).unwrap_or_else(|| "none".into()));
            }
            post = format!("last={}", r.last_worker);
        }
        "key_persistent" => {
            let mut r: KeyPersistentRouting<u64, u64> = KeyPersistentRouting::default();
            for _ in 0..calls {
                res.push(r.choose_target_worker(&job, pool_size, hint, &pool).map(|x| x.to_string()).unwrap_or_else(|| "none".into()));
            }
            post = format!("hash={}", crate::factory::hash::hash_with_max(&key, pool_size.max(1)));
        }
        "queuer" => {
            let mut r: QueuerRouting<u64, u64> = QueuerRouting::default();
            r.available_workers = VecDeque::from(deque.to_vec());
            r.worker_in_queue = flags.to_vec();
            for _ in 0..calls {
                res.push(r.choose_target_worker(&job, pool_size, hint, &pool).map(|x| x.to_string()).unwrap_or_else(|| "none".into()));
            }
            post = format!("deque={:?};flags={:?}", r.available_workers, r.worker_in_queue);
        }
        "sticky" => {
            let mut r: StickyQueuerRouting<u64, u64> = StickyQueuerRouting::default();
            r.available_workers = VecDeque::from(deque.to_vec());
            r.worker_in_queue = flags.to_vec();
            for _ in 0..calls {
                res.push(r.choose_target_worker(&job, pool_size, hint, &pool).map(|x| x.to_string()).unwrap_or_else(|| "none".into()));
            }
            post = format!("deque={:?};flags={:?}", r.available_workers, r.worker_in_queue);
        }
        _ => panic!("unknown router"),
    }
    format!("res={};{}", res.join("+"), post).replace(' ', "")
}

/// One real `KeyPersistentRouting::route_message` of a job with key `key` (message id 100) on a pool whose worker records are given as
/// (wid, queued keys, in-flight keys). Returns "res=<handled|backlog|err>;w<wid>=<queue as key:msgid+..>/<in-flight keys>/<pending table>;.."
pub async fn route_key_persistent(workers: &[(usize, Vec<u64>, Vec<u64>)], key: u64, pool_size: usize, hint: Option<usize>) -> String {
    let mut pool = HashMap::new();
    for (wid, q, c) in workers {
        let (rec, _got, _r) = wp::record_logging_at(*wid, q, c, false).await;
        pool.insert(*wid, rec);
    }
    let mut r: KeyPersistentRouting<u64, u64> = KeyPersistentRouting::default();
    let res = match r.route_message(wp::job(key, 100), pool_size, hint, &mut pool) {
        Ok(RouteResult::Handled) => "handled",
        Ok(RouteResult::Backlog(_)) => "backlog",
        Ok(RouteResult::RateLimited(_)) => "ratelimited",
        Err(_) => "err",
    };
    let mut out = vec![format!("res={res}")];
    let mut wids: Vec<usize> = pool.keys().copied().collect();
    wids.sort();
    for w in wids {
        out.push(format!("w{}={}", w, wp::books_of(&pool[&w])));
    }
    for (_, w) in pool.drain() {
        w.actor.stop(None);
    }
    out.join(";")
}

/// as `route_key_persistent`, with the router named ("key_persistent" | "sticky"; the sticky router's deque lists the idle workers)
pub async fn route_step(router: &str, workers: &[(usize, Vec<u64>, Vec<u64>)], key: u64, pool_size: usize, hint: Option<usize>) -> String {
    if router != "sticky" {
        return route_key_persistent(workers, key, pool_size, hint).await;
    }
    let mut pool = HashMap::new();
    let mut r: StickyQueuerRouting<u64, u64> = StickyQueuerRouting::default();
    for (wid, q, c) in workers {
        let (rec, _got, _r) = wp::record_logging_at(*wid, q, c, false).await;
        pool.insert(*wid, rec);
        r.on_worker_availability_change(*wid, q.is_empty() && c.is_empty());
    }
    let res = match r.route_message(wp::job(key, 100), pool_size, hint, &mut pool) {
        Ok(RouteResult::Handled) => "handled",
        Ok(RouteResult::Backlog(_)) => "backlog",
        Ok(RouteResult::RateLimited(_)) => "ratelimited",
        Err(_) => "err",
    };
    let mut out = vec![format!("res={res}")];
    let mut wids: Vec<usize> = pool.keys().copied().collect();
    wids.sort();
    for w in wids {
        out.push(format!("w{}={}", w, wp::books_of(&pool[&w])));
    }
    for (_, w) in pool.drain() {
        w.actor.stop(None);
    }
    out.join(";")
}

/// The window between a worker's death and its replacement, through the real router and worker records: two idle workers, worker 0's actor has
/// exited (its supervision event is still on its way); two jobs of one key are routed; then worker 0 is replaced.
/// Returns "first=<books of w0>|<books of w1>;second=..;replaced=.." (books as in `books_of`).
pub async fn dead_worker_window(router: &str) -> String {
    let mut pool = HashMap::new();
    for wid in 0..2usize {
        let (rec, _got, _r) = wp::record_logging_at(wid, &[], &[], false).await;
        pool.insert(wid, rec);
    }
    // worker 0 exits; the factory has not processed its supervision event yet
    {
        let w0 = pool.get_mut(&0).unwrap();
        w0.actor.stop(None);
        if let Some(h) = w0.get_join_handle() {
            let _ = h.await;
        }
    }
    let books = |pool: &HashMap<WorkerId, WorkerProperties<u64, u64>>| format!("{}|{}", wp::books_of(&pool[&0]), wp::books_of(&pool[&1]));
    let mut out = Vec::new();
    let mut kp: KeyPersistentRouting<u64, u64> = KeyPersistentRouting::default();
    let mut st: StickyQueuerRouting<u64, u64> = StickyQueuerRouting::default();
    st.on_worker_availability_change(0, true);
    st.on_worker_availability_change(1, true);
    for (label, msg) in [("first", 100u64), ("second", 101u64)] {
        // the key hashes to worker 0 for the key-persistent router (hint 0 stands for the hash); the sticky router takes the first idle worker
        let _ = if router == "sticky" { st.route_message(wp::job(5, msg), 2, None, &mut pool) } else { kp.route_message(wp::job(5, msg), 2, Some(0), &mut pool) };
        out.push(format!("{label}={}", books(&pool)));
    }
    let (actor, handle) = crate::Actor::spawn(None, wp::NullWorker, ()).await.expect("worker");
    let _ = pool.get_mut(&0).unwrap().replace_worker(actor, handle);
    out.push(format!("replaced={}", books(&pool)));
    for (_, w) in pool.drain() {
        w.actor.stop(None);
    }
    out.join(";")
}

/// access to the private deque / flags of the two queuer routers (native replays)
pub trait DequeAccess {
    fn set_deque(&mut self, deque: &[usize], n: usize);
    fn get_deque(&self) -> (Vec<usize>, Vec<bool>);
}
impl DequeAccess for QueuerRouting<u64, u64> {
    fn set_deque(&mut self, deque: &[usize], n: usize) {
        self.available_workers = VecDeque::from(deque.to_vec());
        self.worker_in_queue = (0..n).map(|w| deque.contains(&w)).collect();
    }
    fn get_deque(&self) -> (Vec<usize>, Vec<bool>) {
        (self.available_workers.iter().copied().collect(), self.worker_in_queue.clone())
    }
}
impl DequeAccess for StickyQueuerRouting<u64, u64> {
    fn set_deque(&mut self, deque: &[usize], n: usize) {
        self.available_workers = VecDeque::from(deque.to_vec());
        self.worker_in_queue = (0..n).map(|w| deque.contains(&w)).collect();
    }
    fn get_deque(&self) -> (Vec<usize>, Vec<bool>) {
        (self.available_workers.iter().copied().collect(), self.worker_in_queue.clone())
    }
}
