//! Probe inside `factory::routing`: one `choose_target_worker` call on a router with explicit private state.
#![allow(missing_docs, missing_debug_implementations, dead_code)]
use super::*;
use crate::factory::worker::verif_probe as wp;
use std::collections::VecDeque;

struct FixedHash(usize);
impl CustomHashFunction<u64> for FixedHash {
    fn hash(&self, _key: &u64, _n: usize) -> usize {
        self.0
    }
}

/// returns "res=<id|none>;deque=<..>;flags=<..>;last=<n>"
#[allow(clippy::too_many_arguments)]
pub async fn choose(router: &str, deque: &[usize], flags: &[bool], last_worker: usize, hash: usize, key: u64, pool_size: usize, hint: Option<usize>, pool: &[(usize, String)], calls: usize) -> String {
    let pool = wp::pool(pool).await;
    let job = wp::a_job(key);
    let mut res: Vec<String> = Vec::new();
    let mut post = String::new();
    match router {
        "custom" => {
            let mut r: CustomRouting<u64, u64, FixedHash> = CustomRouting::new(FixedHash(hash));
            for _ in 0..calls {
                res.push(r.choose_target_worker(&job, pool_size, hint, &pool).map(|x| x.to_string()).unwrap_or_else(|| "none".into()));
            }
        }
        "round_robin" => {
            let mut r: RoundRobinRouting<u64, u64> = RoundRobinRouting::default();
            r.last_worker = last_worker;
            for _ in 0..calls {
                res.push(r.choose_target_worker(&job, pool_size, hint, &pool).map(|x| x.to_string()).unwrap_or_else(|| "none".into()));
            }
            post = format!("last={}", r.last_worker);
        }
        "key_persistent" => {
            let mut r: KeyPersistentRouting<u64, u64> = KeyPersistentRouting::default();
            for _ in 0..calls {
                res.push(r.choose_target_worker(&job, pool_size, hint, &pool).map(|x| x.to_string()).unwrap_or_else(|| "none".into()));
            }
            post = format!("hash={}", crate::factory::hash::hash_with_max(&key, pool_size.max(1)));
        }
        "queuer" => {
            let mut r: QueuerRouting<u64, u64> = QueuerRouting::default();
            r.available_workers = VecDeque::from(deque.to_vec());
            r.worker_in_queue = flags.to_vec();
            for _ in 0..calls {
                res.push(r.choose_target_worker(&job, pool_size, hint, &pool).map(|x| x.to_string()).unwrap_or_else(|| "none".into()));
            }
            post = format!("deque={:?};flags={:?}", r.available_workers, r.worker_in_queue);
        }
        "sticky" => {
            let mut r: StickyQueuerRouting<u64, u64> = StickyQueuerRouting::default();
            r.available_workers = VecDeque::from(deque.to_vec());
            r.worker_in_queue = flags.to_vec();
            for _ in 0..calls {
                res.push(r.choose_target_worker(&job, pool_size, hint, &pool).map(|x| x.to_string()).unwrap_or_else(|| "none".into()));
            }
            post = format!("deque={:?};flags={:?}", r.available_workers, r.worker_in_queue);
        }
        _ => panic!("unknown router"),
    }
    format!("res={};{}", res.join("+"), post).replace(' ', "")
}
