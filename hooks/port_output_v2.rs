//! Probe inside `port::output::v2::inner`: the private `dispatch_batch` on recording subscribers (native replays of C16, v2 port).
#![allow(missing_docs, dead_code)]
use super::*;
use std::sync::{Arc, Mutex};

struct Recording {
    id: u64,
    name: String,
    log: Arc<Mutex<Vec<(String, u64, bool)>>>,
    refuse: Vec<u64>,
}
impl Subscriber<u64, u64> for Recording {
    fn send(&self, value: &u64) -> bool {
        let accept = !self.refuse.contains(value);
        self.log.lock().unwrap().push((self.name.clone(), *value, accept));
        accept
    }
    fn id(&self) -> u64 {
        self.id
    }
}

/// items: ("D", k, _) data k; ("S", id, name) subscribe; ("N", _, _) empty change. refuse: (name, value) pairs that are refused.
/// Returns (deliveries in the order made, subscriber (id, name) list afterwards, batch length afterwards).
pub async fn dispatch(initial: Vec<(u64, String)>, items: Vec<(String, u64, String)>, allow_dup: bool, refuse: Vec<(String, u64)>) -> (Vec<(String, u64, bool)>, Vec<u64>, usize) {
    let log = Arc::new(Mutex::new(Vec::new()));
    let mk = |id: u64, name: &str| -> Box<dyn Subscriber<u64, u64>> {
        Box::new(Recording { id, name: name.to_string(), log: log.clone(), refuse: refuse.iter().filter(|(n, _)| n == name).map(|(_, v)| *v).collect() })
    };
    let mut subs: Subscribers<u64, u64> = initial.iter().map(|(id, n)| (*id, mk(*id, n))).collect();
    let mut batch: Vec<OutportMessage<u64, u64>> = items
        .iter()
        .map(|(k, v, n)| match k.as_str() {
            "D" => OutportMessage::Data(*v),
            "S" => OutportMessage::SetSubscriber(Some(mk(*v, n))),
            _ => OutportMessage::SetSubscriber(None),
        })
        .collect();
    dispatch_batch(&mut subs, &mut batch, allow_dup).await;
    let ids = subs.iter().map(|(id, _)| *id).collect();
    let l = log.lock().unwrap().clone();
    (l, ids, batch.len())
}
