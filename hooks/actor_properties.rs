//! Probe inside `actor::actor_properties`: a detached `ActorProperties` with its receivers, driven directly by replay threads.
#![allow(private_interfaces, missing_debug_implementations, missing_docs, dead_code)]
use super::*;
use std::sync::Arc;

pub struct Dummy;

impl crate::Actor for Dummy {
    type Msg = u64;
    type State = ();
    type Arguments = ();
    async fn pre_start(
        &self,
        _myself: crate::ActorRef<Self::Msg>,
        _args: (),
    ) -> Result<Self::State, crate::ActorProcessingErr> {
        Ok(())
    }
}

pub const MARKER: u64 = 0xD0;

pub struct Detached {
    pub props: Arc<ActorProperties>,
    pub rx_signal: Option<OneshotReceiver<Signal>>,
    pub rx_stop: Option<OneshotReceiver<StopMessage>>,
    pub rx_sup: Option<InputPortReceiver<SupervisionEvent>>,
    pub rx_msg: Option<InputPortReceiver<MuxedMessage>>,
}

pub fn detached(status: u8) -> Detached {
    detached_with_id(status, None)
}

/// `remote = Some((node, pid))` builds the properties of a remote actor (no runtime type check applies to those)
pub fn detached_with_id(status: u8, remote: Option<(u64, u64)>) -> Detached {
    let (props, a, b, c, d) = match remote {
        None => ActorProperties::new::<Dummy>(None),
        Some((node_id, pid)) => ActorProperties::new_remote::<Dummy>(None, ActorId::Remote { node_id, pid }),
    };
    props.status.store(status, Ordering::SeqCst);
    Detached {
        props: Arc::new(props),
        rx_signal: Some(a),
        rx_stop: Some(b),
        rx_sup: Some(c),
        rx_msg: Some(d),
    }
}

/// 0 Ok, 1 SendErr(own value), 2 SendErr(other value), 3 InvalidActorType, 4 ChannelClosed
pub fn send(props: &ActorProperties, v: u64) -> u8 {
    match props.send_message_unchecked::<u64>(v) {
        Ok(()) => 0,
        Err(MessagingErr::SendErr(x)) if x == v => 1,
        Err(MessagingErr::SendErr(_)) => 2,
        Err(MessagingErr::InvalidActorType) => 3,
        Err(MessagingErr::ChannelClosed) => 4,
    }
}

/// the cluster entry point (a message that arrives in serialized form): same result codes as `send`
#[cfg(feature = "cluster")]
pub fn send_serialized(props: &ActorProperties, v: u64) -> u8 {
    use crate::Message;
    let own = v.serialize().unwrap();
    match props.send_serialized(own).map_err(|e| *e) {
        Ok(()) => 0,
        Err(MessagingErr::SendErr(m)) => match <u64 as Message>::deserialize(m) {
            Ok(x) if x == v => 1,
            _ => 2,
        },
        Err(MessagingErr::InvalidActorType) => 3,
        Err(MessagingErr::ChannelClosed) => 4,
    }
}

/// type-checked entry (C02 wrong-type gate): 0 Ok, 1 SendErr, 3 InvalidActorType
pub fn send_checked_wrong_type(props: &ActorProperties, v: u32) -> u8 {
    match props.send_message::<u32>(v) {
        Ok(()) => 0,
        Err(MessagingErr::SendErr(_)) => 1,
        Err(MessagingErr::InvalidActorType) => 3,
        Err(MessagingErr::ChannelClosed) => 4,
    }
}

pub fn drain(props: &ActorProperties) -> bool {
    props.drain().is_ok()
}

pub fn status(props: &ActorProperties) -> u8 {
    props.status.load(Ordering::SeqCst)
}

pub fn admission_word(props: &ActorProperties) -> usize {
    props.message_admission.load(Ordering::SeqCst)
}

impl Detached {
    /// close the message receiver the way `ActorPortSet::drop` does (close, then flush); returns the flushed items
    pub fn close_and_flush(&mut self) -> Vec<u64> {
        let mut out = Vec::new();
        if let Some(rx) = self.rx_msg.as_mut() {
            rx.close();
            while let Ok(m) = rx.try_recv() {
                out.push(decode(m));
            }
        }
        out
    }

    /// everything currently queued, in order (the receiver stays open)
    pub fn queue(&mut self) -> Vec<u64> {
        let mut out = Vec::new();
        if let Some(rx) = self.rx_msg.as_mut() {
            while let Ok(m) = rx.try_recv() {
                out.push(decode(m));
            }
        }
        out
    }
}

fn decode(m: MuxedMessage) -> u64 {
    match m {
        MuxedMessage::Drain => MARKER,
        MuxedMessage::Message(b) => <u64 as crate::Message>::from_boxed(b).unwrap_or(u64::MAX),
    }
}

/// cloneable handle usable from other crates (the concrete type stays private)
#[derive(Clone)]
pub struct Handle(Arc<ActorProperties>);

impl Detached {
    pub fn handle(&self) -> Handle {
        Handle(self.props.clone())
    }
}

impl Handle {
    pub fn send(&self, v: u64) -> u8 {
        send(&self.0, v)
    }
    #[cfg(feature = "cluster")]
    pub fn send_serialized(&self, v: u64) -> u8 {
        send_serialized(&self.0, v)
    }
    pub fn send_wrong_type(&self, v: u32) -> u8 {
        send_checked_wrong_type(&self.0, v)
    }
    pub fn drain(&self) -> bool {
        drain(&self.0)
    }
    pub fn send_right_type_checked(&self, v: u64) -> u8 {
        match self.0.send_message::<u64>(v) {
            Ok(()) => 0,
            Err(MessagingErr::SendErr(_)) => 1,
            Err(MessagingErr::InvalidActorType) => 3,
            Err(MessagingErr::ChannelClosed) => 4,
        }
    }
    pub fn status(&self) -> u8 {
        status(&self.0)
    }
    pub fn admission_word(&self) -> usize {
        admission_word(&self.0)
    }
    pub fn set_status(&self, s: u8) -> u8 {
        let st = ActorProperties::status_from_u8(s);
        self.0.set_status(st) as u8
    }
    pub fn notify_stop_listener(&self) {
        self.0.notify_stop_listener()
    }
    /// blocks the calling OS thread until `wait()` completes (single-future executor)
    pub fn wait_blocking(&self) {
        futures::executor::block_on(self.0.wait())
    }
}
