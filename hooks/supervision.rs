//! Probe inside `actor::supervision` (private fields of SupervisionTree).
#![allow(missing_docs, dead_code)]
use super::*;

pub fn take_children(parent: &ActorCell) -> Vec<ActorCell> {
    SupervisionTree::take_children(parent)
}

pub fn children(parent: &ActorCell) -> Option<Vec<ActorCell>> {
    parent.inner.tree.children.lock().unwrap().as_ref().map(|m| m.values().cloned().collect())
}

/// take the global tree lock (native race replays: park a structural operation of another thread on it)
pub fn lock_tree() -> std::sync::MutexGuard<'static, ()> {
    TREE_MUTATION_LOCK.lock().unwrap()
}
