//! Probe inside `actor::supervision` (private fields of SupervisionTree).
#![allow(missing_docs, dead_code)]
use super::*;

pub fn take_children(parent: &ActorCell) -> Vec<ActorCell> {
    SupervisionTree::take_children(parent)
}

pub fn children(parent: &ActorCell) -> Option<Vec<ActorCell>> {
    parent.inner.tree.children.lock().unwrap().as_ref().map(|m| m.values().cloned().collect())
}
