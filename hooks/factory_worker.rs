//! Probe inside `factory::worker`: worker records with explicit private state (what they are running / have queued).
#![allow(missing_docs, missing_debug_implementations, dead_code)]
use super::*;
use std::collections::HashMap;

pub struct NullWorker;
impl crate::Actor for NullWorker {
    type Msg = WorkerMessage<u64, u64>;
    type State = ();
    type Arguments = ();
    async fn pre_start(&self, _: crate::ActorRef<Self::Msg>, _: ()) -> Result<(), crate::ActorProcessingErr> {
        Ok(())
    }
}

fn job(key: u64, msg: u64) -> Job<u64, u64> {
    Job { key, msg, options: JobOptions::default(), accepted: None }
}

/// kinds: "avail" | "busy:<key>" | "queued" | "pending:<key>"   (must run inside a tokio runtime)
pub async fn record(wid: usize, kind: &str, discard: WorkerDiscardSettings) -> WorkerProperties<u64, u64> {
    let (actor, handle) = crate::Actor::spawn(None, NullWorker, ()).await.expect("worker");
    let mut w = WorkerProperties::new("verif".to_string(), wid, actor, discard, None, handle, None);
    if let Some(k) = kind.strip_prefix("busy:") {
        let key: u64 = k.parse().unwrap();
        w.curr_jobs.insert(key, JobOptions::default());
        *w.pending_key_counts.entry(key).or_default() += 1;
    } else if kind == "queued" {
        w.message_queue.push_back(job(99, 0));
        *w.pending_key_counts.entry(99).or_default() += 1;
    } else if let Some(k) = kind.strip_prefix("pending:") {
        let key: u64 = k.parse().unwrap();
        *w.pending_key_counts.entry(key).or_default() += 1;
    }
    w
}

pub async fn pool(spec: &[(usize, String)]) -> HashMap<usize, WorkerProperties<u64, u64>> {
    let mut m = HashMap::new();
    for (wid, kind) in spec {
        m.insert(*wid, record(*wid, kind, WorkerDiscardSettings::None).await);
    }
    m
}

pub fn a_job(key: u64) -> Job<u64, u64> {
    job(key, 0)
}

pub fn queue_len(w: &WorkerProperties<u64, u64>) -> usize {
    w.message_queue.len()
}
