//! Probe inside `factory::worker`: worker records with explicit private state (what they are running / have queued).
#![allow(missing_docs, missing_debug_implementations, dead_code)]
use super::*;
use std::collections::HashMap;

pub struct NullWorker;
impl crate::Actor for NullWorker {
    type Msg = WorkerMessage<u64, u64>;
    type State = ();
    type Arguments = ();
    async fn pre_start(&self, _: crate::ActorRef<Self::Msg>, _: ()) -> Result<(), crate::ActorProcessingErr> {
        Ok(())
    }
}

pub fn job(key: u64, msg: u64) -> Job<u64, u64> {
    Job { key, msg, options: JobOptions::default(), accepted: None }
}

/// kinds: "avail" | "busy:<key>" | "queued" | "pending:<key>"   (must run inside a tokio runtime)
pub async fn record(wid: usize, kind: &str, discard: WorkerDiscardSettings) -> WorkerProperties<u64, u64> {
    let (actor, handle) = crate::Actor::spawn(None, NullWorker, ()).await.expect("worker");
    let mut w = WorkerProperties::new("verif".to_string(), wid, actor, discard, None, handle, None);
    if let Some(k) = kind.strip_prefix("busy:") {
        let key: u64 = k.parse().unwrap();
        w.curr_jobs.insert(key, JobOptions::default());
        *w.pending_key_counts.entry(key).or_default() += 1;
    } else if kind == "queued" {
        w.message_queue.push_back(job(99, 0));
        *w.pending_key_counts.entry(99).or_default() += 1;
    } else if let Some(k) = kind.strip_prefix("pending:") {
        let key: u64 = k.parse().unwrap();
        *w.pending_key_counts.entry(key).or_default() += 1;
    }
    w
}

pub async fn pool(spec: &[(usize, String)]) -> HashMap<usize, WorkerProperties<u64, u64>> {
    let mut m = HashMap::new();
    for (wid, kind) in spec {
        m.insert(*wid, record(*wid, kind, WorkerDiscardSettings::None).await);
    }
    m
}

pub fn a_job(key: u64) -> Job<u64, u64> {
    job(key, 0)
}

pub fn queue_len(w: &WorkerProperties<u64, u64>) -> usize {
    w.message_queue.len()
}

pub struct Recorder(pub std::sync::Mutex<Vec<(String, u64)>>);
impl DiscardHandler<u64, u64> for Recorder {
    fn discard(&self, reason: DiscardReason, job: &mut Job<u64, u64>) {
        self.0.lock().unwrap().push((format!("{reason:?}"), job.msg));
    }
}

/// one `enqueue_job(new)` from an explicit pre-state; queue jobs carry msg ids 0..qlen, the new job msg id 100
/// returns "queue=..;discards=..;running=<n>"
pub async fn enqueue_once(mode: &str, limit: usize, qlen: usize, busy: bool, worker_dead: bool) -> String {
    let settings = match mode {
        "Newest" => WorkerDiscardSettings::Static { limit, mode: DiscardMode::Newest },
        "Oldest" => WorkerDiscardSettings::Static { limit, mode: DiscardMode::Oldest },
        _ => WorkerDiscardSettings::None,
    };
    let mut w = record(0, "avail", settings).await;
    let rec = std::sync::Arc::new(Recorder(std::sync::Mutex::new(Vec::new())));
    w.discard_handler = Some(rec.clone());
    if worker_dead {
        w.actor.stop(None);
        if let Some(h) = w.handle.take() {
            let _ = h.await;
        }
    }
    for i in 0..qlen {
        w.message_queue.push_back(job(i as u64, i as u64));
    }
    if busy {
        w.curr_jobs.insert(999, JobOptions::default());
    }
    let r = w.enqueue_job(job(100, 100));
    let q: Vec<String> = w.message_queue.iter().map(|j| j.msg.to_string()).collect();
    let d: Vec<String> = rec.0.lock().unwrap().iter().map(|(r, m)| format!("{r}:{m}")).collect();
    format!("queue={};discards={};running={};ok={}", q.join("+"), d.join("+"), w.curr_jobs.len(), r.is_ok() as u8)
}

/// One bookkeeping operation of a worker record from an explicit pre-state (`queue`: keys of the queued jobs, head first; `curr`: keys in
/// flight; the pending-key table is the one the invariant prescribes for them). `op`: "enqueue:<key>" | "complete:<key>" | "replace".
/// Returns "queue=k+k;curr=k+k;pending=k:n+k:n".
pub async fn books_once(queue: &[u64], curr: &[u64], op: &str, worker_dead: bool) -> String {
    let mut w = record(0, "avail", WorkerDiscardSettings::None).await;
    if worker_dead {
        w.actor.stop(None);
        if let Some(h) = w.handle.take() {
            let _ = h.await;
        }
    }
    for (i, k) in queue.iter().enumerate() {
        w.message_queue.push_back(job(*k, i as u64));
        *w.pending_key_counts.entry(*k).or_default() += 1;
    }
    for k in curr {
        w.curr_jobs.insert(*k, JobOptions::default());
        *w.pending_key_counts.entry(*k).or_default() += 1;
    }
    if let Some(k) = op.strip_prefix("enqueue:") {
        let _ = w.enqueue_job(job(k.parse().unwrap(), 100));
    } else if let Some(k) = op.strip_prefix("complete:") {
        let _ = w.worker_complete(k.parse().unwrap());
    } else if op == "replace" {
        let (actor, handle) = crate::Actor::spawn(None, NullWorker, ()).await.expect("worker");
        let _ = w.replace_worker(actor, handle);
    } else {
        panic!("unknown op {op}");
    }
    let q: Vec<String> = w.message_queue.iter().map(|j| j.key.to_string()).collect();
    let mut c: Vec<String> = w.curr_jobs.keys().map(|k| k.to_string()).collect();
    c.sort();
    let mut p: Vec<String> = w.pending_key_counts.iter().map(|(k, n)| format!("{k}:{n}")).collect();
    p.sort();
    format!("queue={};curr={};pending={}", q.join("+"), c.join("+"), p.join("+"))
}

struct LoggingWorker(std::sync::Arc<std::sync::Mutex<Vec<u64>>>);
impl crate::Actor for LoggingWorker {
    type Msg = WorkerMessage<u64, u64>;
    type State = ();
    type Arguments = ();
    async fn pre_start(&self, _: crate::ActorRef<Self::Msg>, _: ()) -> Result<(), crate::ActorProcessingErr> {
        Ok(())
    }
    async fn handle(&self, _: crate::ActorRef<Self::Msg>, m: Self::Msg, _: &mut ()) -> Result<(), crate::ActorProcessingErr> {
        if let WorkerMessage::Dispatch(job) = m {
            self.0.lock().unwrap().push(job.msg);
        }
        Ok(())
    }
}

fn job_ttl(key: u64, msg: u64, expired: bool) -> Job<u64, u64> {
    let opts = if expired { JobOptions::new(Some(crate::concurrency::Duration::from_nanos(1))) } else { JobOptions::default() };
    Job { key, msg, options: opts, accepted: None }
}

/// One operation of a worker record with full accounting of where every job went. `queue`: (key, expired) of the queued jobs (msg ids 0..),
/// `curr`: keys in flight; the incoming job of "enqueue:<key>" has msg id 100. Returns "queue=ids;handed=ids;discards=reason:id+..;curr=n".
pub async fn fates_once(queue: &[(u64, bool)], curr: &[u64], op: &str, mode: &str, limit: usize, worker_dead: bool) -> String {
    let settings = match mode {
        "Newest" => WorkerDiscardSettings::Static { limit, mode: DiscardMode::Newest },
        "Oldest" => WorkerDiscardSettings::Static { limit, mode: DiscardMode::Oldest },
        _ => WorkerDiscardSettings::None,
    };
    let got = std::sync::Arc::new(std::sync::Mutex::new(Vec::new()));
    let (actor, handle) = crate::Actor::spawn(None, LoggingWorker(got.clone()), ()).await.expect("worker");
    let mut w = WorkerProperties::new("verif".to_string(), 0, actor, settings, None, handle, None);
    let rec = std::sync::Arc::new(Recorder(std::sync::Mutex::new(Vec::new())));
    w.discard_handler = Some(rec.clone());
    if worker_dead {
        w.actor.stop(None);
        if let Some(h) = w.handle.take() {
            let _ = h.await;
        }
    }
    for (i, (k, e)) in queue.iter().enumerate() {
        w.message_queue.push_back(job_ttl(*k, i as u64, *e));
        *w.pending_key_counts.entry(*k).or_default() += 1;
    }
    for k in curr {
        w.curr_jobs.insert(*k, JobOptions::default());
        *w.pending_key_counts.entry(*k).or_default() += 1;
    }
    if queue.iter().any(|x| x.1) {
        std::thread::sleep(std::time::Duration::from_millis(2));
    }
    let got2 = std::sync::Arc::new(std::sync::Mutex::new(Vec::new()));
    if let Some(k) = op.strip_prefix("enqueue:") {
        let _ = w.enqueue_job(job(k.parse().unwrap(), 100));
    } else if let Some(k) = op.strip_prefix("complete:") {
        let _ = w.worker_complete(k.parse().unwrap());
    } else if op == "replace" {
        let (actor, handle) = crate::Actor::spawn(None, LoggingWorker(got2.clone()), ()).await.expect("worker");
        let _ = w.replace_worker(actor, handle);
    } else {
        panic!("unknown op {op}");
    }
    for _ in 0..50 {
        tokio::task::yield_now().await;
    }
    let q: Vec<String> = w.message_queue.iter().map(|j| j.msg.to_string()).collect();
    let mut h: Vec<String> = got.lock().unwrap().iter().map(|x| x.to_string()).collect();
    h.extend(got2.lock().unwrap().iter().map(|x| x.to_string()));
    let d: Vec<String> = rec.0.lock().unwrap().iter().map(|(r, m)| format!("{r}:{m}")).collect();
    format!("queue={};handed={};discards={};curr={}", q.join("+"), h.join("+"), d.join("+"), w.curr_jobs.len())
}

/// A worker record with the given queued job keys (msg ids 0..), in-flight keys and draining flag, backed by a worker actor that logs the msg ids it handles.
pub async fn record_logging(queue: &[u64], curr: &[u64], draining: bool) -> (WorkerProperties<u64, u64>, std::sync::Arc<std::sync::Mutex<Vec<u64>>>, std::sync::Arc<Recorder>) {
    record_logging_at(0, queue, curr, draining).await
}

pub async fn record_logging_at(wid: usize, queue: &[u64], curr: &[u64], draining: bool) -> (WorkerProperties<u64, u64>, std::sync::Arc<std::sync::Mutex<Vec<u64>>>, std::sync::Arc<Recorder>) {
    let got = std::sync::Arc::new(std::sync::Mutex::new(Vec::new()));
    let (actor, handle) = crate::Actor::spawn(None, LoggingWorker(got.clone()), ()).await.expect("worker");
    let mut w = WorkerProperties::new("verif".to_string(), wid, actor, WorkerDiscardSettings::None, None, handle, None);
    let rec = std::sync::Arc::new(Recorder(std::sync::Mutex::new(Vec::new())));
    w.discard_handler = Some(rec.clone());
    for (i, k) in queue.iter().enumerate() {
        w.message_queue.push_back(job(*k, i as u64));
        *w.pending_key_counts.entry(*k).or_default() += 1;
    }
    for k in curr {
        w.curr_jobs.insert(*k, JobOptions::default());
        *w.pending_key_counts.entry(*k).or_default() += 1;
    }
    w.is_draining = draining;
    (w, got, rec)
}

pub fn recorded(rec: &Recorder) -> Vec<(String, u64)> {
    rec.0.lock().unwrap().clone()
}

pub fn flags(w: &WorkerProperties<u64, u64>) -> (bool, bool, crate::ActorId, usize) {
    (w.is_draining, !w.curr_jobs.is_empty() || !w.message_queue.is_empty(), w.actor.get_id(), w.wid)
}

pub fn queue_ids(w: &WorkerProperties<u64, u64>) -> Vec<u64> {
    w.message_queue.iter().map(|j| j.msg).collect()
}

/// "<queue as key:msg+..>/<in-flight keys>/<pending table key:n+..>"
pub fn books_of(w: &WorkerProperties<u64, u64>) -> String {
    let q: Vec<String> = w.message_queue.iter().map(|j| format!("{}:{}", j.key, j.msg)).collect();
    let mut c: Vec<String> = w.curr_jobs.keys().map(|k| k.to_string()).collect();
    c.sort();
    let mut p: Vec<String> = w.pending_key_counts.iter().map(|(k, n)| format!("{k}:{n}")).collect();
    p.sort();
    format!("{}/{}/{}", q.join("+"), c.join("+"), p.join("+"))
}

pub fn push_job(w: &mut WorkerProperties<u64, u64>, key: u64, msg: u64) {
    w.message_queue.push_back(job(key, msg));
    *w.pending_key_counts.entry(key).or_default() += 1;
}

pub fn set_handler(w: &mut WorkerProperties<u64, u64>, h: std::sync::Arc<Recorder>) {
    w.discard_handler = Some(h);
}
