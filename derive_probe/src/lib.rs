//! An enum covering every variant shape `#[derive(RactorClusterMessage)]` supports; the MIR of the impl the derive generates for it is what the C19
//! derive slice executes (the generator is ractor_cluster_derive/src/codegen.rs of the tree under test).
use ractor::RpcReplyPort;
use ractor_cluster::RactorClusterMessage;

#[derive(RactorClusterMessage)]
pub enum Probe {
    Unit,
    One(u64),
    Two(u32, String),
    Named {
        a: u16,
        b: Vec<u8>,
    },
    #[rpc]
    Ask(RpcReplyPort<u64>),
    #[rpc]
    AskWith(u8, RpcReplyPort<String>),
    #[rpc]
    PortFirst(RpcReplyPort<u32>, u64),
    #[rpc]
    NamedAsk {
        x: u64,
        reply: RpcReplyPort<u8>,
    },
}

pub fn decode(m: ractor::message::SerializedMessage) -> Result<Probe, ractor::message::BoxedDowncastErr> {
    <Probe as ractor::Message>::deserialize(m)
}

pub fn encode(p: Probe) -> Result<ractor::message::SerializedMessage, ractor::message::BoxedDowncastErr> {
    <Probe as ractor::Message>::serialize(p)
}
