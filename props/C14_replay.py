"""native replay for C14: a battery of concrete router calls on the real build (the solver's counterexample fixes the router and, where
it matters, the hash value / last_worker); the per-call promises are re-evaluated on what the real router returned"""
import native


def call(router, pool, pool_size, hint=None, deque=(), flags=(), last=0, hash_=0, key=0, calls=1):
    out, _, rc, err = native.run('routing', router=router, deque=list(deque), flags=[1 if f else 0 for f in flags], last=last, hash=hash_, key=key, pool_size=pool_size, hint=hint,
                                 pool='+'.join('%d=%s' % (w, k) for w, k in pool), calls=calls, timeout=30)
    if rc != 0:
        raise RuntimeError('native routing replay failed: ' + err[-300:])
    d = dict(x.split(':', 1) for x in out['out'].split(';') if ':' in x)
    res = [None if x == 'none' else int(x) for x in d.get('res', '').split('+') if x]
    return res, d


def replay(which, hint_values=None):
    bad = []
    hv = hint_values or {}
    if which == 'custom':
        for present in ([0, 1, 2], [0, 2], [1]):
            for h in sorted({0, 1, 2, 3, 5, 7, (1 << 64) - 1, hv.get('hash', 4)}):
                for ps in sorted({1, 2, 3, hv.get('pool_size', 3)}):
                    if ps == 0:
                        continue
                    res, _ = call('custom', [(w, 'avail') for w in present], ps, hash_=h)
                    r = res[0]
                    if r is not None and not (r < ps and r in present):
                        bad.append('custom: hash %d pool_size %d pool %s -> %s' % (h, ps, present, r))
                    if r is None and (h % ps) in present:
                        bad.append('custom: hash %d pool_size %d pool %s -> None although target present' % (h, ps, present))
    elif which == 'round_robin':
        for n in (1, 2, 3):
            for last in sorted({0, 1, 2, 3, 7, hv.get('last', 0)}):
                res, _ = call('round_robin', [(w, 'busy:1') for w in range(n)], n, last=last, calls=n)
                if sorted(x for x in res if x is not None) != list(range(n)):
                    bad.append('round_robin: pool_size %d last_worker %d -> %s' % (n, last, res))
    elif which == 'key_persistent':
        for present in ([0, 1, 2], [0, 2]):
            for pending_at in (None, 0, 2):
                for hint in (None, 1, 2):
                    pool = [(w, 'pending:0' if w == pending_at else 'avail') for w in present]
                    res, d = call('key_persistent', pool, 3, hint=hint, key=0)
                    r = res[0]
                    h = int(d['hash'])
                    if pending_at in present and pending_at is not None:
                        want = pending_at
                    elif hint is not None and hint in present:
                        want = hint
                    else:
                        want = h if h in present else None
                    if r != want:
                        bad.append('key_persistent: pool %s pending %s hint %s -> %s expected %s' % (present, pending_at, hint, r, want))
    else:
        router = 'queuer' if which == 'queuer' else 'sticky'
        combos = [('avail', 'avail', 'avail'), ('busy:1', 'avail', 'busy:1'), ('busy:1', 'busy:1', 'busy:1'), ('busy:0', 'avail', 'queued'), ('queued', 'busy:1', 'avail')]
        import itertools
        states = [(list(p), [w in p for w in range(3)]) for r in range(4) for p in itertools.permutations(range(3), r)] + [([5, 1], [False, True, False])]
        for dq, fl in states:
            for combo in combos:
                for hint in (None, 1):
                    res, d = call(router, list(enumerate(combo)), 3, hint=hint, deque=dq, flags=fl, key=0)
                    r = res[0]
                    owner = [w for w in range(3) if combo[w] == 'busy:0'] if router == 'sticky' else []
                    if r is not None and not (combo[r] == 'avail' or r in owner):
                        bad.append('%s: deque %s workers %s hint %s -> %s (not available)' % (router, dq, combo, hint, r))
                    if owner and r not in owner:
                        bad.append('%s: key owner %s ignored -> %s' % (router, owner, r))
                    if not owner and r is None:
                        cand = [x for x in dq if x < 3 and combo[x] == 'avail'] + ([hint] if hint is not None and combo[hint] == 'avail' else [])
                        if cand:
                            bad.append('%s: deque %s workers %s hint %s -> None although %s available' % (router, dq, combo, hint, cand))
                    dq2 = [int(x) for x in d.get('deque', '[]').strip('[]').split(',') if x]
                    fl2 = [x == 'true' for x in d.get('flags', '[]').strip('[]').split(',') if x]
                    if len(set(dq2)) != len(dq2) or any((x in dq2) != fl2[x] for x in range(len(fl2)) if x in dq or x in dq2):
                        bad.append('%s: bookkeeping inconsistent after call: deque %s flags %s (from %s)' % (router, dq2, fl2, dq))
    return {'replayed': bool(bad), 'detail': 'native %s battery: %d deviations %s' % (which, len(bad), bad[:3]), 'replay': {'scenario': 'routing', 'which': which}}


def replay_books(rp):
    """one bookkeeping operation of a real worker record from the explicit pre-state; the invariant is re-evaluated on the result"""
    out, _, rc, err = native.run('worker_books', queue=rp['queue'], curr=rp['curr'], op=rp['op'], dead=1 if rp['dead'] else 0, timeout=30)
    if rc != 0:
        raise RuntimeError('native worker_books failed: ' + err[-300:])
    d = dict(x.split(':', 1) for x in out['out'].split(';'))
    q = [int(x) for x in d['queue'].split('+') if x]
    c = [int(x) for x in d['curr'].split('+') if x]
    p = {int(x.split(':')[0]): int(x.split(':')[1]) for x in d['pending'].split('+') if x}
    want = {}
    for k in q + c:
        want[k] = want.get(k, 0) + 1
    bad = []
    if p != want:
        bad.append('pending_key_table_is_exact: table %s, jobs %s' % (p, want))
    if len(c) > 1:
        bad.append('at_most_one_job_in_flight')
    if rp['op'] == 'replace' and sorted(q + c) != sorted(rp['queue']):
        bad.append('queued_jobs_survive_replacement')
    return {'replayed': bool(bad), 'detail': 'native worker record %s: queue=%s in_flight=%s pending=%s ; violated %s' % (rp, q, c, p, bad), 'replay': {'which': 'books', 'rp': rp}}
