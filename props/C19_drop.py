"""C19, engine-M slice: what one iteration of the message loop does with a serialized message the actor's message type cannot decode.

`process_message` (real MIR, tokio `select!` expansion, `handle_message`) is run from an arbitrary loop-head state (C01's layer L1); the user's
`Message::from_boxed` is opaque: it returns Ok, returns Err or panics. For a message that arrived in serialized form (from a remote node) a decoder that
fails or panics must cost the actor nothing: the iteration completes, asks the loop to continue, no handler runs, nothing unwinds out of the iteration.
"""
import lifecycle as lc
import lifeprops as lp
import lifetrace as lt
from exec import Inconclusive, Unmodelled

RUNTIMES = {'quick': ('ActorRuntime', 'ThreadLocalActorRuntime'), 'thorough': ('ActorRuntime', 'ThreadLocalActorRuntime')}


def replay(outcome, runtime=None):
    import C19_drop_replay
    return C19_drop_replay.replay(outcome, runtime)


def check(ctx, tier):
    prog, _info = lc.load()
    seen = set()
    for runtime in RUNTIMES.get(tier, RUNTIMES['quick']):
        for fn in ('process_message', 'handle_message'):
            b = prog.find_fn('%s::<TActor>::%s' % (runtime, fn))
            if b is None:
                raise Inconclusive('function not found in dump: %s::%s' % (runtime, fn))
            ctx.encoded(prog, b)
        I1, _a1, pm = lt.explore_process_message(prog, runtime, 1, loop_status=(2, 4))
        ctx.absorb(I1)
        ctx.paths += len(pm)
        n = 0
        for k, r in enumerate(pm):
            dec = [e for e in r['state'].trace if e[0] == 'DECODE']
            if not dec:
                continue
            if len(dec) != 1 or dec[0][1] is None:
                raise Inconclusive('unexpected decode events %r' % (dec,))
            _t, serialized, outcome = dec[0]
            if not serialized:
                continue
            n += 1
            handled = [e for e in r['cbs'] if e[1] == 'start' and e[2] in ('handle', 'handle_serialized')]
            name = 'drop.%s.path%d.%s' % (runtime, k, outcome)
            if outcome == 'ok':
                seen.add('decodable_message_reaches_the_handler') if handled else None
                lp.record(ctx, name, r['state'], {'a_decoded_message_reaches_the_handler': r['klass'] is None or bool(handled)}, 'C19.drop', on_cex=lambda m, runtime=runtime: replay('ok', runtime))
                continue
            claims = {
                'iteration_completes_without_unwinding': r['kind'] == 'ready',
                'undecodable_serialized_message_does_not_fail_the_actor': r['klass'] is not None and r['klass'][0] == 'continue',
                'no_handler_runs_for_it': not handled,
            }
            seen.add('decoder_' + outcome)
            lp.record(ctx, name, r['state'], claims, 'C19.drop', on_cex=lambda m, outcome=outcome, runtime=runtime: replay(outcome, runtime),
                      sample={'layer': 'L1 process_message', 'decoder': outcome, 'class': r['klass']})
        if n == 0:
            raise Inconclusive('no path decodes a serialized message (%s)' % runtime)
    for w in ('decoder_err', 'decoder_panic', 'decodable_message_reaches_the_handler'):
        ctx.note_witness('drop.' + w, w in seen)
    ctx.bounds['drop'] = 'one process_message iteration per runtime (%s) from an arbitrary loop-head state, callbacks opaque with poll budget 1; Message::from_boxed opaque (Ok / Err / panic)' % ', '.join(RUNTIMES.get(tier, RUNTIMES['quick']))
