"""native replay of one enqueue_job call (C15 discard limits)"""
import native


def run_native(mode, limit, qlen, busy, dead):
    out, _, rc, err = native.run('worker_enqueue', mode=mode or 'None', limit=limit, qlen=qlen, busy=1 if busy else 0, dead=1 if dead else 0, timeout=30)
    if rc != 0:
        raise RuntimeError('native enqueue replay failed: ' + err[-300:])
    d = dict(x.split(':', 1) for x in out['out'].split(';'))
    q = [int(x) for x in d['queue'].split('+') if x]
    disc = [(x.split(':')[0], int(x.split(':')[1])) for x in d['discards'].split('+') if x]
    return {'queue': q, 'discards': disc, 'running': int(d['running'])}


def violations(mode, limit, qlen, busy, obs):
    bad = []
    q = obs['queue']
    slot = 1 if obs['running'] == 0 and q else 0
    if mode in ('Newest', 'Oldest') and len(q) - slot > limit:
        bad.append('queue_within_limit_after_enqueue: %d waiting (queue %s, hand-over slot %d) > limit %d' % (len(q) - slot, q, slot, limit))
    shed = [m for r, m in obs['discards'] if r == 'Loadshed']
    if len(set(shed)) != len(shed) or set(shed) & set(q):
        bad.append('each_shed_job_reported_once')
    if mode == 'Newest' and shed and shed != [100]:
        bad.append('newest_mode_sheds_the_incoming_job')
    if mode == 'Oldest' and shed and shed != sorted(shed):
        bad.append('oldest_mode_sheds_from_the_head')
    return bad


def replay(rp, limit, casts):
    dead = any(not c for c in casts)
    obs = run_native(rp['mode'], limit, rp['qlen'], rp['busy'], dead)
    bad = violations(rp['mode'], limit, rp['qlen'], rp['busy'], obs)
    return {'replayed': bool(bad), 'detail': 'native enqueue_job(mode=%s, limit=%d, queue_before=%d, busy=%s, worker_dead=%s) -> %s ; violated %s' % (
        rp['mode'], limit, rp['qlen'], rp['busy'], dead, obs, bad), 'replay': {'scenario': 'worker_enqueue', 'rp': rp, 'limit': limit, 'dead': dead}}
