"""Shared pieces for the ractor_cluster checks on engine M (C17): program loader (MIR of ractor_cluster + the prost-generated
protocol sources of the same build), interpreter with the cluster-specific models, builders for protocol values."""
import glob
import os
import re
import z3

import mirdump
import models_std
import models_sync
import models_ctor
import models_coll
from exec import Interp, State, Outcome, Inconclusive, Unmodelled, strip_generics
from values import *

GEN_FILES = ('auth.rs', 'node.rs', 'control.rs', 'meta.rs')


def load():
    prog, info = mirdump.load('ractor_cluster')
    if not getattr(prog, '_gen_added', False):
        # prost-build output of the very build that produced the MIR dump (build script re-runs when the .proto files change)
        pat = os.path.join(mirdump.BUILD, 'target-mir', 'debug', 'build', 'ractor_cluster-*', 'out')
        outs = [d for d in glob.glob(pat) if os.path.exists(os.path.join(d, 'auth.rs'))]
        if not outs:
            raise Inconclusive('prost-generated protocol sources not found under ' + pat)
        d = max(outs, key=lambda p: os.path.getmtime(os.path.join(p, 'auth.rs')))
        for f in GEN_FILES:
            p = os.path.join(d, f)
            if os.path.exists(p):
                # registered under the absolute path rustc prints in `<impl at ...>` spans of derive-generated impls
                prog.crate.impl_cache = {k: v for k, v in prog.crate.impl_cache.items() if v is not None}
                prog.crate.add_source(p, open(p).read())
        ext = os.path.join(mirdump.REPO, 'ractor', 'src', 'rpc', 'call_result.rs')
        if os.path.exists(ext):
            prog.crate.add_source('EXT/ractor/src/rpc/call_result.rs', open(ext).read())
        # enums of the ractor crate that ractor_cluster matches on (ractor is built with its `cluster` feature here)
        ext2 = os.path.join(mirdump.REPO, 'ractor', 'src', 'message.rs')
        if os.path.exists(ext2):
            feats = set(prog.crate.features)
            prog.crate.features = feats | {'cluster'}
            prog.crate.add_source('EXT/ractor/src/message.rs', open(ext2).read())
            # the supervision / lifecycle / group-change events a session subscribes to
            for rel in ('actor/messages.rs', 'registry/pid_registry.rs'):
                pth = os.path.join(mirdump.REPO, 'ractor', 'src', rel)
                if os.path.exists(pth):
                    prog.crate.add_source('EXT/ractor/src/' + rel, open(pth).read())
            pth = os.path.join(mirdump.REPO, 'ractor', 'src', 'pg.rs')
            if os.path.exists(pth):
                src = open(pth).read()
                mm = re.search(r'pub enum GroupChangeMessage \{.*?\n\}', src, re.S)
                if mm:
                    prog.crate.add_source('EXT/ractor/src/pg_group_change.rs', mm.group(0))
            prog.crate.features = feats
        prog.rescan_impls()
        prog._gen_added = True
        info['generated_protocol_sources'] = d
    return prog, info


H = z3.Function('challenge_digest', z3.BitVecSort(32), z3.BitVecSort(256))


def digest_of(t):
    """hash::challenge_digest(cookie, challenge) for the one fixed (real) cookie: an uninterpreted function u32 -> 32 bytes"""
    h = H(t)
    return Agg('[]', [Sc(z3.Extract(8 * i + 7, 8 * i, h), 'u8') for i in range(32)])


def new_interp(prog, loop_bound=40):
    I = Interp(prog, mode='bv', loop_bound=loop_bound)
    models_std.install(I)
    models_sync.install(I)
    models_ctor.install(I)
    models_coll.install(I)

    def m_cd(I, st, f, args, fr):
        st.ghost.setdefault('digest_calls', []).append(args[1])
        return I.ret(st, digest_of(args[1].t))
    I.override.append((re.compile(r'(^|::)challenge_digest$'), m_cd))

    @I.model(r'(^|::)next_u32$|^<.* as Rng(Core)?>::next_u32$', 'rand: next_u32 returns any u32')
    def m_rand(I, st, f, args, fr):
        v = I.fresh_int('rand_u32', 'u32', st)
        st.ghost.setdefault('rand', []).append(v)
        return I.ret(st, v)

    @I.model(r'^rand::rng$|^rng$', 'rand::rng')
    def m_rng(I, st, f, args, fr):
        return I.ret(st, Opaque('ThreadRng'))
    return I


def variant(prog, enum_name, vname, fields=(), file_hint=None):
    d = prog.crate.enum(enum_name, file_hint)
    if not d:
        raise Inconclusive('enum %s not found' % enum_name)
    for (v, idx, kind, fl) in d['variants']:
        if v == vname:
            if len(fl) != len(fields):
                raise Inconclusive('%s::%s has %d fields, expected %d' % (enum_name, vname, len(fl), len(fields)))
            return Enum(enum_name, v, idx, fields)
    raise Inconclusive('%s::%s not found' % (enum_name, vname))


def variants(prog, enum_name, file_hint=None):
    d = prog.crate.enum(enum_name, file_hint)
    if not d:
        raise Inconclusive('enum %s not found' % enum_name)
    return d['variants']


def record(prog, sname, file_hint=None, **kw):
    name = sname
    d = prog.crate.struct(name, file_hint)
    if not d:
        raise Inconclusive('struct %s not found' % name)
    extra = set(kw) - set(d['fields'])
    if extra:
        raise Inconclusive('struct %s has no fields %s' % (name, sorted(extra)))
    return Agg(name, [kw.get(k, Opaque('%s.%s' % (name, k))) for k in d['fields']])


def field(prog, v, name, fname, file_hint=None):
    d = prog.crate.struct(name, file_hint)
    return v.fields[d['fields'].index(fname)]


def sym_bytes(I, st, name, n):
    return [I.fresh_int('%s_%d' % (name, i), 'u8', st) for i in range(n)]


def install_effects(I, allowed=()):
    """every call that is neither crate code, nor a model, nor allow-listed ends the path as an `effect` outcome naming the
    callee: used to show that nothing at all happens before a gate"""
    allowed = [re.compile(a) for a in allowed]

    def eff(I, st, f, args, fr):
        canon = strip_generics(f)
        for a in allowed + list(I.allow):
            if a.search(f) or a.search(canon):
                return NotImplemented
        st.emit('EFFECT', f)
        return [Outcome(st, 'effect', f)]
    I.models.append((re.compile(r'.'), eff, 'any other call = observable effect (path ends there)'))
