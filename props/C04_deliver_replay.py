"""native side of the C04 delivery slice: a Draining supervisor (parked in a handler, backlog behind it) still receives its children's terminal events"""
import native


def run_native():
    out, _, rc, err = native.run('draining_supervisor', timeout=60)
    if rc != 0:
        raise RuntimeError('native draining_supervisor failed: ' + err[-300:])
    log = [x for x in out.get('log', '').split(',') if x]
    bad = []
    if out.get('drain_ok') != '1' or out.get('status_when_children_exit') != '4':
        bad.append('scenario_not_established: %s' % out)
    if sum(1 for x in log if x.startswith('failed:') and 'child exploded' in x) != 1:
        bad.append('the_panicking_child_is_reported_exactly_once_as_failed')
    if sum(1 for x in log if x == 'terminated:done') != 1:
        bad.append('the_stopped_child_is_reported_exactly_once_as_terminated')
    if out.get('ended') != '1':
        bad.append('the_supervisor_exits_through_the_drain_marker')
    return {'log': log, 'violated': bad}


def replay():
    r = run_native()
    return {'replayed': bool(r['violated']), 'detail': 'native draining supervisor with two exiting children: %s' % r, 'replay': {'scenario': 'draining_supervisor', 'prop': 'C04', 'which': 'deliver'}}


def replay_from_json(d):
    r = replay()
    print(r['detail'])
    return 1 if r['replayed'] else 0
