"""C18, engine-M slice: "node events report exactly one ready session per peer" - the ConnectionReady arm of `<NodeServer as Actor>::handle` with the real
`is_elected`, `candidates_for_peer` and `elect_sessions`.

From states with 2..3 sessions to one peer (accepting / initiating, nonce none / 7 / 9), every subset authenticated, one event subscriber installed: for every
session x, `ConnectionReady(x)` notifies the subscriber at most once and only if x is authenticated; over all sessions of the state at most one would be
reported ready - the sessions the kernel elects among the authenticated ones: exactly one, except for connections dialled from this node with equal (or
no) nonces, a tie only the accepting side can break (it closes all but one of them)."""
import itertools
import z3

import cluster as cl
import lifecycle as lc
import lifeprops as lp
import models_std
import C17_gates as gates
import C18_candidate as cand
from exec import State, Outcome, Inconclusive, Unmodelled
from values import *

FN = '<NodeServer as Actor>::handle'


def check(ctx, prog):
    body = prog.find_fn(FN)
    ie = prog.find_fn('NodeServerState::is_elected')
    if body is None or ie is None:
        raise Inconclusive('NodeServer::handle / is_elected not found')
    ctx.encoded(prog, ie)
    seen = set()
    confs = [c for c in cand.configs(ctx.tier) if all(s[2] == 'peer' for _, s in c)]
    if ctx.tier == 'quick':
        confs = [c for i, c in enumerate(confs) if len(c) == 2 or i % 2 == 0]
    for sessions in confs:
        ids = [k for k, _ in sessions]
        for r in range(len(ids) + 1):
            for auth in itertools.combinations(ids, r):
                ready = []
                for x in ids:
                    I = gates.session_interp(prog, effects=False)

                    @I.model(r'^<dyn (\w+::)*NodeEventSubscription as (\w+::)*NodeEventSubscription>::node_session_(ready|opened|authenticated|disconnected)$', 'subscriber callback (recorded)')
                    def m_evt(I, st, f, args, fr):
                        info = models_std.deref_val(I, st, args[1]) if isinstance(args[1], Ref) else args[1]
                        st.emit('EVENT', f.rsplit('node_session_', 1)[1], cl.field(prog, info, 'NodeServerSessionInformation', 'node_id').concrete())
                        return I.ret(st, UNIT)
                    st = State()
                    state = cand.mk_state(prog, I, st, sessions, auth, 'this')
                    f = list(state.fields)
                    d = prog.crate.struct('NodeServerState')
                    f[d['fields'].index('subscriptions')] = Agg('HashMap', [Agg('()', (Str('sub'), BoxV(st.alloc(Opaque('subscription', ident='sub')), 'Box')))])
                    sc = st.alloc(Agg('NodeServerState', f))
                    msg = cl.variant(prog, 'NodeServerMessage', 'ConnectionReady', (Enum('ActorId', 'Local', 0, (I.mk_int(x, 'u64'),)),))
                    st, coro = lc.make_coro(I, st, prog, FN, [Ref(st.alloc(Opaque('NodeServer')), ()), Opaque('ActorRef', ident='myself'), msg, Ref(sc, (), True)])
                    cc = st.alloc(coro)
                    done = gates.drive(I, st, cc, 3)
                    ctx.absorb(I)
                    ctx.paths += len(done)
                    tag = '%s.auth%s.ready%d' % ('_'.join('%s%d' % ('S' if s[0] else 'C', s[1]) for _, s in sessions), ''.join(map(str, auth)) or '-', x)
                    for k, (s, kind, v) in enumerate(done):
                        name = 'ready.%s.path%d' % (tag, k)
                        rp = {'sessions': [[k_, [bool(s_[0]), s_[1], s_[2]]] for k_, s_ in sessions], 'auth': list(auth), 'x': x}
                        cex = (lambda rp=rp: (lambda m: replay(rp)))()
                        evs = [e for e in s.trace if e[0] == 'EVENT']
                        claims = {'handler_completes': kind == 'ready',
                                  'only_ready_events_and_at_most_one': all(e[1] == 'ready' for e in evs) and len(evs) <= 1,
                                  'reported_session_is_the_one_named_and_authenticated': all(e[2] == 100 + x for e in evs) and (not evs or x in auth)}
                        lp.record(ctx, name, s, claims, 'C18.ready', on_cex=cex)
                        if evs:
                            ready.append(x)
                # over the sessions of this state: the sessions that would be reported ready are exactly those the kernel elects among the authenticated ones;
                # that is exactly one session unless the tie is one only the accepting side can break (every authenticated connection was dialled from here
                # with the same nonce: the acceptor closes all but one of them, C18_server / the Kani claim on the acceptor side)
                ebody = prog.find_fn('elect_sessions')
                elected = cand.elect(ctx, prog, ebody, tuple((k_, s_) for k_, s_ in sessions if k_ in auth), 'this', 'peer') if auth else []
                au = [s_ for k_, s_ in sessions if k_ in auth]
                acceptor_must_decide = len(au) > 1 and all(not s_[0] for s_ in au) and len({s_[1] for s_ in au}) == 1
                okk = sorted(ready) == sorted(elected) and (len(ready) == 1 or not auth or (acceptor_must_decide and len(ready) == len(au)) or
                                                            (len(ready) > 1 and all(not dict(sessions)[x_][0] for x_ in ready) and len({dict(sessions)[x_][1] for x_ in ready}) == 1))
                rec = {'name': 'ready.%s.auth%s.exactly_one_ready_session_per_peer' % ('_'.join('%s%d' % ('S' if s[0] else 'C', s[1]) for _, s in sessions), ''.join(map(str, auth)) or '-'),
                       'group': 'C18.ready.exactly_one_ready_session_per_peer', 'status': 'proved' if okk else 'cex', 'solver_s': 0.0, 'detail': {'would_be_reported_ready': ready}}
                ctx.obligations.append(rec)
                if not okk:
                    rp = {'sessions': [[k_, [bool(s_[0]), s_[1], s_[2]]] for k_, s_ in sessions], 'auth': list(auth), 'x': None}
                    ctx.handle_cex(rec['name'], 'C18.ready.exactly_one_ready_session_per_peer', None, lambda _m, rp=rp: replay(rp), rec)
                if len(auth) > 1 and len(ready) == 1:
                    seen.add('duplicates_one_ready')
                if not auth:
                    seen.add('nobody_authenticated')
    for w in ('duplicates_one_ready', 'nobody_authenticated'):
        ctx.note_witness('C18.ready.' + w, w in seen)
    ctx.bounds['ready'] = 'ConnectionReady for every session of states with 2..3 sessions to one peer (the configurations of the candidate slice), every subset authenticated, one subscriber'


def replay(rp):
    import C18_ready_replay
    return C18_ready_replay.replay(rp)
