"""native replay for the C15 drain slice: one message through the real Factory::handle on a real two-worker FactoryState"""
import native


def run_native(rp):
    msg = {'DrainRequests': 'drain', 'Dispatch': 'dispatch'}.get(rp['msg']) or 'finished:%s' % rp['msg'][len('Finished'):]
    out, _l, rc, err = native.run('factory_drain', draining=1 if rp['drain'] == 'Draining' else 0, busy=rp['busy'], queued=rp['queue'], msg=msg, timeout=30)
    if rc != 0:
        raise RuntimeError('native factory_drain failed: ' + err[-300:])
    return dict(x.split('~', 1) for x in out['out'].split(';'))


def evaluate(rp):
    o = run_native(rp)
    bad = []
    busy_after = len(rp['busy']) - (1 if rp['msg'].startswith('Finished') else 0)
    # the scripted router hands a queued job to the freed worker, so after a Finished the queue job (if any) is in flight again
    left = int(o['queue']) + busy_after + (1 if rp['msg'].startswith('Finished') and rp['queue'] else 0)
    draining_after = rp['drain'] == 'Draining' or rp['msg'] == 'DrainRequests'
    want_stop = draining_after and left == 0
    if (o['stop'] == '1') != want_stop:
        bad.append('factory_stops_itself_iff_draining_and_nothing_is_left: stop=%s, draining=%s, work left=%d' % (o['stop'], draining_after, left))
    if rp['msg'] == 'DrainRequests':
        if o['hooks'] != 'draining':
            bad.append('draining_hook_called_once: %s' % o['hooks'])
        if o['state'] == 'NotDraining':
            bad.append('drain_request_enters_draining')
    elif o['hooks']:
        bad.append('no_lifecycle_hook_outside_its_event: %s' % o['hooks'])
    if rp['msg'] == 'Dispatch' and rp['drain'] == 'Draining':
        if o['rejected'] != '1' or 'Shutdown:100' not in o['discards'] or int(o['queue']) != rp['queue']:
            bad.append('job_dispatched_while_draining_is_refused: %s' % o)
    if rp['drain'] == 'Draining' and o['state'] == 'NotDraining':
        bad.append('draining_is_never_left')
    return bad, o


def replay(rp):
    bad, o = evaluate(rp)
    return {'replayed': bool(bad), 'detail': 'native Factory::handle %s -> %s ; violated %s' % (rp, o, bad), 'replay': {'which': 'drain', 'rp': rp}}


def battery():
    bad, n = [], 0
    for drain in ('NotDraining', 'Draining'):
        for busy in ([], [0], [0, 1]):
            for q in ((0, 1) if busy else (0,)):
                for msg in ['DrainRequests', 'Dispatch'] + ['Finished%d' % w for w in busy]:
                    b, o = evaluate({'drain': drain, 'busy': busy, 'queue': q, 'msg': msg})
                    n += 1
                    bad += ['%s %s q%d %s: %s' % (drain, busy, q, msg, x) for x in b]
    return bad, n
