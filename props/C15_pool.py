"""C15 (pool slice): after any sequence of resize requests and worker deaths the set of live workers is exactly the last requested size.

Representation invariant of the factory's pool bookkeeping (Inv):
   * every slot below pool_size holds a worker that is not draining;
   * a slot at or above pool_size is empty, or holds a worker that is draining *and* still busy (it is retired on completion, C13);
   * worker_by_actor is exactly the inverse of the pool (actor id of slot w  ->  w), no stale entries.
Each operation that touches the pool is run from MIR on every concrete-shape state satisfying Inv (4 slots, pool_size 1..3) and must re-establish it:
   resize_pool(n) (with grow_pool / shrink_pool; worker spawns succeed - a failing spawn fails the factory's handler),
   the factory's handle_supervisor_evt for ActorTerminated / ActorFailed of a pool worker, of a retired worker and of a stranger.
"""
import itertools
import re
import z3

import world
import lifecycle as lc
import lifeprops as lp
import models_std
import models_async
import C13
import C14_books as books
from exec import State, Outcome, Inconclusive, Unmodelled
from values import *

SLOTS = 4
RESIZE = 'FactoryState::<TKey, TMsg, TWorker, TWorkerStart, TRouter, TQueue>::resize_pool'


def actor_ref(ident):
    return Agg('ActorRef', (Agg('ActorCell', (Opaque('props', ident=ident),)), Agg('PhantomData', ())))


def new_interp(prog):
    I = C13.factory_interp(prog)
    models_async.install(I, 1)
    I.override[:] = [(rx, fn) for rx, fn in I.override if 'get_id' not in rx.pattern]

    def m_get_id(I, st, f, args, fr):
        v = models_std.deref_val(I, st, args[0])
        while isinstance(v, Agg) and v.fields:
            v = models_std.deref_val(I, st, v.fields[0])
        return I.ret(st, Opaque('ActorId', ident=('id', getattr(v, 'ident', None))))
    I.override.append((re.compile(r'(^|::)ActorRef::<.*>::get_id$|(^|::)ActorCell::get_id$'), m_get_id))

    @I.model(r'^<dyn (\w+::)*WorkerBuilder<.*> as (\w+::)*WorkerBuilder<.*>>::build$', 'WorkerBuilder::build (opaque handler)')
    def m_build(I, st, f, args, fr):
        return I.ret(st, Agg('()', (Opaque('TWorker'), Opaque('TWorkerStart'))))

    @I.model(r'^<TWorker as (\w+::)*Actor>::spawn_linked$', 'Actor::spawn_linked of a worker: a fresh actor (or a spawn error, which fails the handler)')
    def m_spawn_linked(I, st, f, args, fr):
        return I.ret(st, Opaque('spawnfut', info={'n': fresh_id()}))

    @I.model(r'^<TRouter as (\w+::)*Router<.*>>::is_factory_queueing$', 'Router::is_factory_queueing (any)')
    def m_ifq(I, st, f, args, fr):
        return I.ret(st, I.fresh_bool('factory_queueing'))

    @I.model(r'^<Box<dyn (std::error::)?Error.*> as From<.*>>::from$', 'boxed error')
    def m_berr(I, st, f, args, fr):
        return I.ret(st, Opaque('boxed-error', info=args[0]))

    @I.model(r'^<(\w+::)*ActorRef<.*> as Clone>::clone$|(^|::)ActorRef::<.*>::get_cell$', 'ActorRef clone / get_cell')
    def m_clone(I, st, f, args, fr):
        return I.ret(st, models_std.deref_val(I, st, args[0]))
    prev = I.hooks.get('poll_other')

    def poll_other(I, st, v, cell, path, cx, fr):
        if isinstance(v, Opaque) and v.tag == 'spawnfut':
            k = st.ghost.get('spawned_workers', 0)
            s2 = st.fork()
            st.ghost['spawned_workers'] = k + 1
            st.emit('SPAWN_WORKER', 'new%d' % k)
            s2.emit('SPAWN_FAILED')
            okv = models_std.ok(Agg('()', (actor_ref('new%d' % k), Opaque('JoinHandle'))))
            return [Outcome(st, 'ret', models_std.ready(okv)), Outcome(s2, 'ret', models_std.ready(models_std.err(Opaque('SpawnErr'))))]
        return prev(I, st, v, cell, path, cx, fr) if prev else None
    I.hooks['poll_other'] = poll_other
    return I


def shapes():
    """all (pool_size, slots) satisfying Inv: slots[w] in {'live', 'drain', None}"""
    out = []
    for ps in (1, 2, 3):
        tails = itertools.product(('drain', None), repeat=SLOTS - ps)
        for t in tails:
            out.append((ps, tuple(['live'] * ps + list(t))))
    return out


def mk_state(prog, I, st, ps, slots, busy_live=(), queued=()):
    d = prog.crate.struct('FactoryState')
    dw = prog.crate.struct('WorkerProperties')

    def worker(w, kind):
        working = kind == 'drain' or w in busy_live
        rec = books.mk_worker(prog, I, st, [7] if (w in queued and working) else [], (5,) if working else ())
        f = list(rec.fields)
        f[dw['fields'].index('wid')] = I.mk_int(w, 'usize')
        f[dw['fields'].index('is_draining')] = z3.BoolVal(kind == 'drain')
        f[dw['fields'].index('actor')] = actor_ref('actor%d' % w)
        f[dw['fields'].index('discard_handler')] = models_std.NONE
        return Agg('WorkerProperties', f)
    fv, _limit = C13.mk_factory(prog, I, st, [], None, 'NotDraining')
    ff = list(fv.fields)
    present = [(w, k) for w, k in enumerate(slots) if k is not None]
    ff[d['fields'].index('pool')] = Agg('HashMap', [Agg('()', (I.mk_int(w, 'usize'), worker(w, k))) for w, k in present])
    ff[d['fields'].index('worker_by_actor')] = Agg('HashMap', [Agg('()', (Opaque('ActorId', ident=('id', 'actor%d' % w)), I.mk_int(w, 'usize'))) for w, _ in present])
    ff[d['fields'].index('pool_size')] = I.mk_int(ps, 'usize')
    ff[d['fields'].index('dead_mans_switch')] = models_std.NONE
    ff[d['fields'].index('worker_builder')] = BoxV(st.alloc(Opaque('builder', ident='builder')), 'Box')
    return Agg('FactoryState', ff)


def read_pool(prog, I, st, fc):
    d = prog.crate.struct('FactoryState')
    dw = prog.crate.struct('WorkerProperties')
    fa = I.read(st, fc, ())

    def conc(x):
        t = z3.simplify(x.t if isinstance(x, Sc) else x)
        return t.as_long() if z3.is_bv_value(t) else (True if z3.is_true(t) else (False if z3.is_false(t) else None))

    def ident_of(a):
        v = a
        while isinstance(v, Agg) and v.fields:
            v = v.fields[0]
        return getattr(v, 'ident', None)
    pool = {}
    for e in fa.fields[d['fields'].index('pool')].fields:
        w = e.fields[1]
        pool[conc(e.fields[0])] = {'draining': conc(w.fields[dw['fields'].index('is_draining')]),
                                   'busy': len(w.fields[dw['fields'].index('curr_jobs')].fields) > 0 or len(w.fields[dw['fields'].index('message_queue')].fields) > 0,
                                   'actor': ident_of(w.fields[dw['fields'].index('actor')]), 'wid': conc(w.fields[dw['fields'].index('wid')])}
    wba = {e.fields[0].ident[1]: conc(e.fields[1]) for e in fa.fields[d['fields'].index('worker_by_actor')].fields}
    return conc(fa.fields[d['fields'].index('pool_size')]), pool, wba


def inv_claims(ps, pool, wba):
    c = {}
    c['slots_below_pool_size_hold_live_workers'] = all(w in pool and pool[w]['draining'] is False for w in range(ps))
    c['slots_beyond_pool_size_are_empty_or_draining_and_busy'] = all((pool[w]['draining'] is True and pool[w]['busy']) for w in pool if w >= ps)
    c['worker_by_actor_is_the_inverse_of_the_pool'] = wba == {v['actor']: w for w, v in pool.items()}
    c['records_know_their_slot'] = all(v['wid'] == w for w, v in pool.items())
    return c


def check_resize(ctx, prog):
    body = prog.find_fn(RESIZE)
    if body is None:
        raise Inconclusive('resize_pool not found')
    ctx.encoded(prog, body)
    for fn in ('grow_pool', 'shrink_pool'):
        b = prog.find_fn(RESIZE.replace('resize_pool', fn))
        if b is None:
            raise Inconclusive(fn + ' not found')
        ctx.encoded(prog, b)
    seen = set()
    for ps, slots in shapes():
        for busy in ((), (ps - 1,)):
            for req in (0, 1, 2, 3, 4):
                I = new_interp(prog)
                st = State()
                fc = st.alloc(mk_state(prog, I, st, ps, slots, busy))
                st, coro = lc.make_coro(I, st, prog, RESIZE, [Ref(fc, (), True), Ref(st.alloc(actor_ref('myself')), ()), I.mk_int(req, 'usize')])
                cc = st.alloc(coro)
                frontier, done = [(st, 0)], []
                while frontier:
                    s, n = frontier.pop()
                    for o in lc.poll_coro(I, s, cc):
                        if o.kind != 'ret' or o.val.variant == 'Ready':
                            done.append(o)
                        elif n < 6:
                            frontier.append((o.st, n + 1))
                        else:
                            raise Inconclusive('resize_pool did not complete within 6 polls')
                ctx.absorb(I)
                ctx.paths += len(done)
                for k, o in enumerate(done):
                    name = 'resize.ps%d.%s.busy%s.to%d.path%d' % (ps, ''.join('L' if x == 'live' else ('D' if x else '-') for x in slots), ''.join(map(str, busy)) or '-', req, k)
                    rp = {'pool_size': ps, 'slots': list(slots), 'busy': list(busy), 'op': 'resize', 'arg': req}
                    cex = (lambda rp=rp: (lambda m: replay(rp)))()
                    if o.kind != 'ret':
                        lp.record(ctx, name, o.st, {'no_panic': False}, 'C15.pool', on_cex=cex)
                        continue
                    res = o.val.fields[0]
                    if res.variant == 'Err':
                        # only a failed worker spawn may fail a resize (the handler then fails the factory)
                        lp.record(ctx, name, o.st, {'resize_fails_only_when_a_spawn_failed': any(e[0] == 'SPAWN_FAILED' for e in o.st.trace)}, 'C15.pool', on_cex=cex)
                        continue
                    ps2, pool, wba = read_pool(prog, I, o.st, fc)
                    claims = inv_claims(ps2, pool, wba)
                    claims['pool_size_is_the_requested_size'] = ps2 == (ps if req == 0 else req)
                    live = sorted(w for w, v in pool.items() if v['draining'] is False)
                    claims['live_workers_are_exactly_the_requested_slots'] = live == list(range(ps2))
                    stops = [e for e in o.st.trace if e[0] == 'STOP_WORKER']
                    claims['a_stopped_worker_held_nothing'] = all(e[1] is not None and e[1][0] == [] and e[1][1] == 0 for e in stops)
                    if req and req < ps:
                        seen.add('shrink')
                    if req > ps:
                        seen.add('grow')
                    if any(v['draining'] for v in pool.values()):
                        seen.add('draining_kept')
                    if any(s_ == 'drain' for s_ in slots) and req > ps:
                        seen.add('draining_worker_revived')
                    lp.record(ctx, name, o.st, claims, 'C15.pool', sample={'pool_size': ps, 'slots': list(slots), 'request': req, 'after': {'pool_size': ps2, 'live': live, 'draining': sorted(w for w, v in pool.items() if v['draining'])}}
                              if k == 0 and req in (1, 4) and ps == 2 else None, on_cex=cex)
    for w_ in ('shrink', 'grow', 'draining_kept', 'draining_worker_revived'):
        ctx.note_witness('C15.pool.' + w_, w_ in seen)


def check_supervision(ctx, prog):
    fn = '<Factory<TKey, TMsg, TWorkerStart, TWorker, TRouter, TQueue> as Actor>::handle_supervisor_evt'
    body = prog.find_fn(fn)
    if body is None:
        raise Inconclusive('Factory::handle_supervisor_evt not found')
    ctx.encoded(prog, body)
    seen = set()
    for ps, slots in shapes():
        present = [w for w, k in enumerate(slots) if k is not None]
        for who, queued in [('actor%d' % w, ()) for w in present] + [('actor%d' % w, (w,)) for w in present if slots[w] == 'drain'] + [('retired-worker', ()), ('stranger', ())]:
            for evt in ('ActorTerminated', 'ActorFailed'):
                I = new_interp(prog)
                st = State()
                fc = st.alloc(mk_state(prog, I, st, ps, slots, (), queued))
                cell = Agg('ActorCell', (Opaque('props', ident=who),))
                if evt == 'ActorTerminated':
                    ev = Enum('SupervisionEvent', 'ActorTerminated', 1, (cell, models_std.NONE, models_std.NONE))
                else:
                    ev = Enum('SupervisionEvent', 'ActorFailed', 2, (cell, Opaque('err')))
                st, coro = lc.make_coro(I, st, prog, fn, [Ref(st.alloc(Opaque('Factory')), ()), actor_ref('myself'), ev, Ref(fc, (), True)])
                cc = st.alloc(coro)
                frontier, done = [(st, 0)], []
                while frontier:
                    s, n = frontier.pop()
                    for o in lc.poll_coro(I, s, cc):
                        if o.kind != 'ret' or o.val.variant == 'Ready':
                            done.append(o)
                        elif n < 4:
                            frontier.append((o.st, n + 1))
                        else:
                            raise Inconclusive('handle_supervisor_evt did not complete within 4 polls')
                ctx.absorb(I)
                ctx.paths += len(done)
                for k, o in enumerate(done):
                    name = 'supervision.ps%d.%s.%s.%s%s.path%d' % (ps, ''.join('L' if x == 'live' else ('D' if x else '-') for x in slots), evt, who, '.queued' if queued else '', k)
                    rp = {'pool_size': ps, 'slots': list(slots), 'busy': [], 'op': evt, 'arg': who, 'queued': list(queued)}
                    cex = (lambda rp=rp: (lambda m: replay(rp)))()
                    if o.kind != 'ret':
                        lp.record(ctx, name, o.st, {'no_panic': False}, 'C15.pool', on_cex=cex)
                        continue
                    res = o.val.fields[0]
                    if res.variant == 'Err':
                        lp.record(ctx, name, o.st, {'handler_fails_only_when_a_spawn_failed': any(e[0] == 'SPAWN_FAILED' for e in o.st.trace)}, 'C15.pool', on_cex=cex)
                        continue
                    ps2, pool, wba = read_pool(prog, I, o.st, fc)
                    claims = inv_claims(ps2, pool, wba)
                    claims['pool_size_unchanged'] = ps2 == ps
                    spawned = [e[1] for e in o.st.trace if e[0] == 'SPAWN_WORKER']
                    if who.startswith('actor'):
                        w = int(who[5:])
                        # the dead actor is forgotten; its slot holds the one replacement that was spawned - unless the worker was draining with nothing
                        # left to do, in which case the slot is vacated (and whatever was spawned for it is stopped again)
                        was_draining = slots[w] == 'drain'
                        replaced = len(spawned) == 1 and w in pool and pool[w]['actor'] == spawned[0]
                        vacated = was_draining and w not in pool and spawned[0:1] == [x for x in spawned if x not in wba][0:1] and len(spawned) <= 1
                        claims['dead_worker_replaced_in_its_slot_or_retired_if_draining'] = who not in wba and (replaced or vacated)
                        # C13: nothing accepted disappears with the slot - a worker that is stopped and removed holds neither queued nor handed-over jobs
                        stops = [e for e in o.st.trace if e[0] == 'STOP_WORKER']
                        claims['a_retired_worker_held_nothing'] = all(e[1] is not None and e[1][0] == [] and e[1][1] == 0 for e in stops)
                        if queued:
                            # the job that was queued behind the dead worker's in-flight job is handed to the replacement, which therefore stays
                            # (or it is still held for the replacement when the hand-over failed; or it was discarded with a reason because its ttl ran out)
                            _handed, discarded, _rej = C13.fates(o.st.trace)
                            kept = bool(discarded) or (replaced and pool[w]['busy'] and not stops)
                            if not kept:
                                # the only other fate the record knows is ttl expiry (decided per job, symbolic): the path must be one on which the job had expired
                                ctx.prove(name + '.job_queued_on_the_dead_worker_goes_to_its_replacement_unless_expired', o.st.pc, o.st.ghost.get(('expired', 'q0'), z3.BoolVal(False)),
                                          group='C15.pool.job_queued_on_the_dead_worker_goes_to_its_replacement', key='C15.pool.job_queued_on_the_dead_worker_goes_to_its_replacement', on_cex=cex)
                            seen.add('queued_job_survives')
                        seen.add('replaced')
                    else:
                        claims['death_of_an_actor_outside_the_pool_changes_nothing'] = not spawned and sorted(pool) == present and all(pool[w]['actor'] == 'actor%d' % w for w in present)
                        seen.add('ignored')
                    lp.record(ctx, name, o.st, claims, 'C15.pool', on_cex=cex)
    for w_ in ('replaced', 'ignored', 'queued_job_survives'):
        ctx.note_witness('C15.pool.supervision.' + w_, w_ in seen)


_replayed = {}


def replay(rp):
    import C15_pool_replay
    k = json_key(rp)
    if k not in _replayed:
        _replayed[k] = C15_pool_replay.replay(rp)
    return _replayed[k]


def json_key(rp):
    import json
    return json.dumps(rp, sort_keys=True)


def check(ctx, prog):
    check_resize(ctx, prog)
    check_supervision(ctx, prog)
