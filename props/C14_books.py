"""C14 (worker bookkeeping slice): key-persistent routing keeps a key on the worker that still has jobs of that key pending
(`has_pending_key`), across resizes and worker replacement. That only works if each worker record's pending-key table is exact:

    Inv:  pending_key_counts[k] == #(in-flight jobs with key k) + #(queued jobs with key k)   for every key k (absent == 0)
          and at most one job is in flight

Each operation of the record (enqueue_job, worker_complete, replace_worker; dispatch_job / get_next_non_expired_job inside them) is run
from MIR on every concrete-shape pre-state satisfying Inv (queue of up to 3 jobs over two keys, zero or one job in flight), hand-over to
the worker actor succeeding or failing: Inv holds afterwards (inductive, so for histories of any length)."""
import itertools
import re
import z3

import world
import models_std
import lifeprops as lp
import C15_limits as lim
from exec import State, Outcome, Inconclusive, Unmodelled
from values import *

KEYS = (5, 6)


def key(k):
    return Opaque('key', ident=('key', k))


def new_interp(prog):
    I = lim.new_interp(prog)
    # the real track_pending_key is part of what is checked here (C15_limits stubs it)
    I.override[:] = [(rx, fn) for rx, fn in I.override if 'track_pending_key' not in rx.pattern]

    @I.model(r'^(std::mem::|mem::)?take::<.*>$', 'mem::take (value out, Default in)')
    def m_take(I, st, f, args, fr):
        r = args[0]
        v = I.read(st, r.cell, r.path)
        if isinstance(v, Agg) and v.ty in ('HashMap', 'HashSet', 'Vec', 'VecDeque'):
            I.write(st, r.cell, r.path, Agg(v.ty, ()))
            return I.ret(st, v)
        raise Unmodelled('mem::take of %r' % (v,))

    @I.model(r'(^|::)WorkerHeartbeat::clear$', 'WorkerHeartbeat::clear (no effect on routing state)')
    def m_hb(I, st, f, args, fr):
        return I.ret(st, UNIT)
    return I


def mk_job(prog, k, ident):
    d = prog.crate.struct('Job')
    f = {n: Opaque('job.' + n, ident=('job', ident, n)) for n in d['fields']}
    f['key'] = key(k)
    f['msg'] = Opaque('msg', ident=ident)
    if 'accepted' in f:
        f['accepted'] = models_std.NONE
    return Agg('Job', [f[n] for n in d['fields']])


def counts(queue, curr):
    c = {}
    for k in list(queue) + list(curr):
        c[k] = c.get(k, 0) + 1
    return c


def mk_worker(prog, I, st, queue, curr):
    d = prog.crate.struct('WorkerProperties')
    need = {'message_queue', 'curr_jobs', 'pending_key_counts', 'actor', 'handle'}
    if not d or not need <= set(d['fields']):
        raise Inconclusive('WorkerProperties fields changed')
    f = {n: Opaque('worker.' + n) for n in d['fields']}
    f['wid'] = I.mk_int(0, 'usize')
    f['message_queue'] = Agg('VecDeque', [mk_job(prog, k, 'q%d' % i) for i, k in enumerate(queue)])
    f['curr_jobs'] = Agg('HashMap', [Agg('()', (key(k), Opaque('job-options'))) for k in curr])
    f['pending_key_counts'] = Agg('HashMap', [Agg('()', (key(k), I.mk_int(n, 'usize'))) for k, n in sorted(counts(queue, curr).items())])
    f['stats'] = models_std.NONE
    f['discard_handler'] = models_std.NONE
    f['factory_name'] = Str('factory')
    f['discard_settings'] = Enum('WorkerDiscardSettings', 'None', 0, ())
    f['actor'] = Opaque('worker-actor-ref')
    f['handle'] = models_std.NONE
    return Agg('WorkerProperties', [f[n] for n in d['fields']])


def read_books(prog, I, st, wc):
    d = prog.crate.struct('WorkerProperties')
    w = I.read(st, wc, ())

    def kid(v):
        v = models_std.deref_val(I, st, v)
        return v.ident[1] if isinstance(v, Opaque) and isinstance(v.ident, tuple) else None
    q = [kid(j.fields[prog.crate.struct('Job')['fields'].index('key')]) for j in w.fields[d['fields'].index('message_queue')].fields]
    c = [kid(e.fields[0]) for e in w.fields[d['fields'].index('curr_jobs')].fields]
    p = {}
    for e in w.fields[d['fields'].index('pending_key_counts')].fields:
        n = z3.simplify(e.fields[1].t)
        p[kid(e.fields[0])] = n.as_long() if z3.is_bv_value(n) or z3.is_int_value(n) else None
    return q, c, p


def check(ctx, prog):
    fns = {'enqueue': 'WorkerProperties::<TKey, TMsg>::enqueue_job', 'complete': 'WorkerProperties::<TKey, TMsg>::worker_complete', 'replace': 'WorkerProperties::<TKey, TMsg>::replace_worker'}
    bodies = {}
    for op, fn in fns.items():
        b = prog.find_fn(fn)
        if b is None:
            raise Inconclusive(fn + ' not found')
        bodies[op] = b
        ctx.encoded(prog, b)
    for fn in ('WorkerProperties::<TKey, TMsg>::track_pending_key', 'WorkerProperties::<TKey, TMsg>::untrack_pending_key', 'WorkerProperties::<TKey, TMsg>::dispatch_job'):
        b = prog.find_fn(fn)
        if b is None:
            raise Inconclusive(fn + ' not found')
        ctx.encoded(prog, b)
    seen = set()
    queues = [q for n in range(0, 4) for q in itertools.product(KEYS, repeat=n)]
    for queue in queues:
        for curr in ((), (KEYS[0],), (KEYS[1],)):
            ops = [('enqueue', k) for k in KEYS] + [('complete', k) for k in KEYS] + [('replace', None)]
            for op, k in ops:
                I = new_interp(prog)
                st = State()
                w = mk_worker(prog, I, st, queue, curr)
                wc = st.alloc(w)
                if op == 'enqueue':
                    args = [Ref(wc, (), True), mk_job(prog, k, 'new')]
                elif op == 'complete':
                    args = [Ref(wc, (), True), key(k)]
                else:
                    args = [Ref(wc, (), True), Opaque('new-worker-actor-ref'), Opaque('JoinHandle')]
                outs = I.run_body(st, bodies[op], args)
                ctx.absorb(I)
                ctx.paths += len(outs)
                for n, o in enumerate(outs):
                    name = 'books.%s%s.q%s.c%s.path%d' % (op, '' if k is None else k, ''.join(map(str, queue)) or '-', ''.join(map(str, curr)) or '-', n)
                    casts = [bool(e[2]) for e in o.st.trace if e[0] == 'CAST']
                    rp = {'queue': list(queue), 'curr': list(curr), 'op': op if k is None else '%s:%d' % (op, k), 'dead': any(not c for c in casts)}
                    cex = (lambda rp=rp: (lambda m: replay(rp)))()
                    if o.kind != 'ret':
                        lp.record(ctx, name, o.st, {'no_panic': False}, 'C14.books', on_cex=cex)
                        continue
                    q2, c2, p2 = read_books(prog, I, o.st, wc)
                    want = counts(q2, c2)
                    claims = {'pending_key_table_is_exact': p2 == want, 'at_most_one_job_in_flight': len(c2) <= 1}
                    if op == 'enqueue':
                        claims['accepted_job_is_tracked'] = (q2 + c2).count(k) == (list(queue) + list(curr)).count(k) + 1
                        seen.add('enqueue')
                    if op == 'replace':
                        # abandoned in-flight work is forgotten, queued work is kept (head handed to the replacement when it accepts it)
                        claims['queued_jobs_survive_replacement'] = sorted(q2 + c2) == sorted(queue)
                        if queue and curr and queue.count(curr[0]):
                            seen.add('replace_with_same_key_queued')
                    if op == 'complete' and k in curr:
                        claims['completed_job_leaves_the_books'] = sorted(q2 + c2) == sorted(queue)
                        seen.add('complete')
                    lp.record(ctx, name, o.st, claims, 'C14.books', sample={'queue': list(queue), 'in_flight': list(curr), 'op': rp['op'], 'after': {'queue': q2, 'in_flight': c2, 'pending': p2}},
                              on_cex=cex)
    for w_ in ('enqueue', 'complete', 'replace_with_same_key_queued'):
        ctx.note_witness('C14.books.' + w_, w_ in seen)


_replayed = {}


def replay(rp):
    import C14_replay
    k = (tuple(rp['queue']), tuple(rp['curr']), rp['op'], rp['dead'])
    if k not in _replayed:
        _replayed[k] = C14_replay.replay_books(rp)
    return _replayed[k]
