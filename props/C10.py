"""C10 - A name maps to at most one live actor and is released on exit (concurrent mode, DashMap as contract object)."""
import os
import re
import time
import z3

import conc
import mailbox as mb
import models_std
import models_sync
import models_ctor
import objects
from exec import Interp, State, Outcome, Inconclusive, Unmodelled
from values import *

NEW = 'ActorCell::new::<TActor>'
CELL_SET_STATUS = 'ActorCell::set_status'
WHERE_IS = 'where_is::<K>'
NAME = 'the-name'
HOLDER_PID = 1
PIDKEYS = {1: 0, 10: 1, 11: 2, 12: 3}


def new_interp(prog, tid, pid):
    I = Interp(prog, mode='bv', loop_bound=3)
    models_std.install(I)
    models_sync.install(I)
    models_sync.install_notify(I)
    models_ctor.install(I)
    import models_coll
    models_coll.install(I)
    I.cur_tid = tid
    I.waiter_index = 0
    I.objinfo = {'registry': {'name': 'registry'}, 'pidreg': {'name': 'pidreg'}, 'status': {'name': 'status'}, 'notify': {'name': 'wait_handler'}}

    def static_object(I, st, cellv, f):
        ident = getattr(cellv, 'ident', None)
        which = {'static:ACTOR_REGISTRY': 'registry', 'static:PID_REGISTRY': 'pidreg', 'static:PID_REGISTRY_LISTENERS': 'pidlisteners'}.get(ident)
        if which is None:
            return None
        key = ('static_map', which)
        if key not in st.ghost:
            inner = st.alloc(Obj('dashmap', which))
            st.ghost[key] = st.alloc(BoxV(inner, 'Arc'))
        return Ref(st.ghost[key], ())
    I.hooks['static_object'] = static_object

    # rustc prints the thread-local twin's callee as `inner::<impl actor_properties::ActorProperties>::new_thread_local`: resolve it to the other body of that name
    def tl_props(I, st, f, args, fr):
        cands = [n for n in prog.bodies if n.endswith('::new_thread_local') and (fr is None or n != fr.body.name)]
        if len(cands) != 1:
            raise Unmodelled('cannot resolve ' + f)
        b = prog.bodies[cands[0]]
        b = b if not isinstance(b, str) else prog.find_fn(cands[0])
        I.stats['calls_inlined'].add(b.name)
        return I.run_body(st, b, args)
    import re as _re
    I.override.append((_re.compile(r'ActorProperties>::new_thread_local'), tl_props))

    def dashmap_key(I, st, m, key):
        if m.oid == 'registry':
            if isinstance(key, Str) and key.s == NAME:
                return 0
            raise Unmodelled('registry key outside the instance domain: %r' % (key,))
        if m.oid == 'pidreg':
            if isinstance(key, Enum) and key.ty == 'ActorId' and key.variant == 'Local':
                p = key.fields[0].concrete()
                if p in PIDKEYS:
                    return PIDKEYS[p]
            raise Unmodelled('pid key outside the instance domain: %r' % (key,))
        raise Unmodelled('map %r' % (m,))
    I.hooks['dashmap_key'] = dashmap_key

    def dashmap_val(I, st, m, v):
        c = models_std.deref_val(I, st, v)
        if isinstance(c, Agg) and c.ty == 'ActorCell':
            props = I.read(st, c.fields[0].cell, ())
            sd = prog.crate.struct('ActorProperties')
            idv = props.fields[sd['fields'].index('id')]
            return idv.fields[0].concrete()
        raise Unmodelled('map value %r' % (c,))
    I.hooks['dashmap_val'] = dashmap_val
    ov = I.override

    def m_status_of_entry(I, st, f, args, fr):
        """get_status() of a cell found in the registry: the holder's status is the shared status object; any other registered cell belongs to a
        spawner of this instance, whose status is not shared here - it reads as any status of an actor that has not begun to stop"""
        v = models_std.deref_val(I, st, args[0])
        if not (isinstance(v, Opaque) and v.tag == 'mapval'):
            return NotImplemented
        body = prog.find_fn('ActorCell::get_status')
        if body is None:
            raise Inconclusive('ActorCell::get_status not found')
        outs = []
        for s2, is_holder in models_std.branch(I, st, v.info == z3.BitVecVal(HOLDER_PID, 8)):
            cellv = holder_cell(prog, I, s2)
            if not is_holder:
                oid = 'other_status!%d' % fresh_id()
                t = z3.BitVec(oid, 8)
                s2.assume(z3.ULE(t, 3))
                s2.objs[oid] = {'w': t}
                props = s2.cells[cellv.fields[0].cell]
                sd = prog.crate.struct('ActorProperties')
                fl = list(props.fields)
                fl[sd['fields'].index('status')] = Obj('atomic', oid, 'u8')
                s2.cells[cellv.fields[0].cell] = Agg('ActorProperties', fl)
            outs += I.run_body(s2, body, [Ref(s2.alloc(cellv), ())])
        return outs
    ov.append((re.compile(r'(^|::)ActorCell::get_status$'), m_status_of_entry))
    ov.append((re.compile(r'(^|::)get_new_local_id$'), lambda I, st, f, a, fr: I.ret(st, Enum('ActorId', 'Local', 0, (I.mk_int(pid, 'u64'),)))))
    # process groups and supervision are not part of this check
    for pat in (r'(^|::)demonitor_all$', r'(^|::)leave_all$', r'(^|::)pid_registry::demonitor$', r'^demonitor$'):
        ov.append((re.compile(pat), lambda I, st, f, a, fr: I.ret(st, UNIT)))

    # the pid-lifecycle listener map is assumed empty: iterating it yields nothing
    @I.model(r'^DashMap::<.*>::iter$', 'DashMap::iter (listener map assumed empty)')
    def m_iter(I, st, f, args, fr):
        m = models_std.deref_val(I, st, args[0])
        if isinstance(m, BoxV):
            m = I.read(st, m.cell, ())
        if isinstance(m, Obj) and m.oid == 'pidlisteners':
            import models_coll
            return I.ret(st, models_coll.mk_iter('list', Agg('()', ()), 0))
        raise Unmodelled('DashMap::iter on %r' % (m,))

    @I.model(r'^<dashmap::iter::Iter<.*> as Iterator>::next$', 'empty dashmap iterator')
    def m_iter_next(I, st, f, args, fr):
        return I.ret(st, models_std.NONE)
    return I


def holder_cell(prog, I, st):
    sd = prog.crate.struct('ActorProperties')
    f = {n: Opaque('props.' + n, ident='props.' + n) for n in sd['fields']}
    f['status'] = Obj('atomic', 'status', 'u8')
    f['wait_handler'] = Obj('notify', 'notify')
    f['name'] = models_std.some(Str(NAME))
    f['id'] = Enum('ActorId', 'Local', 0, (I.mk_int(HOLDER_PID, 'u64'),))
    pcell = st.alloc(Agg('ActorProperties', [f[n] for n in sd['fields']]))
    return Agg('ActorCell', (BoxV(pcell, 'Arc'),))


NEW_TL = 'ActorCell::new_thread_local::<TActor>'


def spawner_tree(prog, tid, pid, fn=NEW):
    I = new_interp(prog, tid, pid)

    def program(I, st):
        return mb.run_calls(I, st, [('new', fn, lambda s: [models_std.some(Str(NAME))])])

    def summarize(s, kind, results, seg):
        r = results[0] if results else None
        okk = isinstance(r, Enum) and r.variant == 'Ok'
        already = False
        if isinstance(r, Enum) and r.variant == 'Err' and isinstance(r.fields[0], Enum):
            already = r.fields[0].variant == 'ActorAlreadyRegistered'
        return {'kind': kind, 'ok': okk, 'already': already}
    return conc.unfold(I, 'spawner_pid%d' % pid, tid, State, program, summarize), I


def exiter_tree(prog, tid):
    I = new_interp(prog, tid, HOLDER_PID)

    def mk(target, j):
        def program(I, st):
            c = st.alloc(holder_cell(prog, I, st))
            return mb.run_calls(I, st, [('set_status_%s' % target[0], CELL_SET_STATUS, lambda s: [Ref(c, ()), Enum('ActorStatus', target[0], target[1], ())])], call_base=j)
        return program
    return conc.unfold(I, 'exiter', tid, State, [mk(('Stopping', 5), 0), mk(('Stopped', 6), 1)], lambda s, k, r, seg: {'kind': k}), I


def looker_tree(prog, tid):
    I = new_interp(prog, tid, 99)

    def program(I, st):
        return mb.run_calls(I, st, [('where_is', WHERE_IS, lambda s: [Str(NAME)])])

    def summarize(s, kind, results, seg):
        r = results[0] if results else None
        if isinstance(r, Enum) and r.variant == 'Some':
            v = r.fields[0]
            # the cloned ActorCell wraps the (opaque) map value: recover the identity term of the map entry
            while not (isinstance(v, Opaque) and v.tag == 'mapval'):
                if isinstance(v, Agg) and v.fields:
                    v = v.fields[0]
                elif isinstance(v, Opaque) and isinstance(v.info, tuple) and v.info[0] == 'fieldof':
                    v = v.info[1]
                else:
                    raise Unmodelled('cannot identify looked-up cell: %r' % (v,))
            return {'kind': kind, 'found': True, 'val': v.info}
        return {'kind': kind, 'found': False, 'val': None}
    return conc.unfold(I, 'looker', tid, State, program, summarize), I


def run_instance(ctx, prog, name, scenario, rounds):
    t0 = time.time()
    trees, interps, meta = [], [], []
    if scenario == 'vacant2':
        for pid in (10, 11):
            tr, I = spawner_tree(prog, len(trees), pid)
            trees.append(tr); interps.append(I); meta.append(('spawner', pid))
        init_present, init_vals, pid_present = {}, {}, {}
    elif scenario == 'vacant3':
        for pid in (10, 11, 12):
            tr, I = spawner_tree(prog, len(trees), pid)
            trees.append(tr); interps.append(I); meta.append(('spawner', pid))
        init_present, init_vals, pid_present = {}, {}, {}
    elif scenario in ('clash', 'clash_tl'):
        # a live holder and one spawn under its name (through ActorCell::new or its thread-local twin): the spawn is refused and the holder untouched
        tr, I = spawner_tree(prog, 0, 10, NEW if scenario == 'clash' else NEW_TL)
        trees.append(tr); interps.append(I); meta.append(('spawner', 10))
        init_present, init_vals, pid_present = {0: True}, {0: HOLDER_PID}, {PIDKEYS[HOLDER_PID]: True}
    else:
        tr, I = exiter_tree(prog, 0)
        trees.append(tr); interps.append(I); meta.append(('exiter', HOLDER_PID))
        tr, I = spawner_tree(prog, 1, 10)
        trees.append(tr); interps.append(I); meta.append(('spawner', 10))
        tr, I = looker_tree(prog, 2)
        trees.append(tr); interps.append(I); meta.append(('looker', None))
        if scenario == 'exit_respawn2':
            tr, I = spawner_tree(prog, 3, 11)
            trees.append(tr); interps.append(I); meta.append(('spawner', 11))
        init_present, init_vals, pid_present = {0: True}, {0: HOLDER_PID}, {PIDKEYS[HOLDER_PID]: True}
    for I in interps:
        ctx.absorb(I)
    objs = {'registry': ('dashmap', objects.dashmap_init(1, init_present, init_vals), {'nkeys': 1}),
            'pidreg': ('dashmap', objects.dashmap_init(len(PIDKEYS), pid_present, {PIDKEYS[HOLDER_PID]: HOLDER_PID} if pid_present else None), {'nkeys': len(PIDKEYS)}),
            'status': ('atomic', objects.atomic_init(8, 2), {'bits': 8}),
            'notify': ('notify', objects.notify_init(1), {'nwaiters': 1})}
    order = list(range(len(trees)))
    if ctx.seed:
        import random
        random.Random(ctx.seed).shuffle(order)
    bmc = conc.BMC(objs, trees, rounds, order=order, no_spurious=True)
    T = len(trees)
    done = z3.And([bmc.finished(t, ('ret',)) for t in range(T)])
    claims = {}
    spawners = [t for t in range(T) if meta[t][0] == 'spawner']
    okv = {t: bmc.leaf_select(t, lambda leaf: z3.BoolVal(leaf.data['ok']), z3.BoolVal(False)) for t in spawners}
    alr = {t: bmc.leaf_select(t, lambda leaf: z3.BoolVal(leaf.data['already']), z3.BoolVal(False)) for t in spawners}
    fin = bmc.final_state('registry')
    finp = bmc.final_state('pidreg')

    def ev_nodes(t, oid, opname):
        return [n for n in trees[t].event_nodes() if n.event.oid == oid and n.event.opname == opname]
    for t in spawners:
        pid = meta[t][1]
        ins = ev_nodes(t, 'registry', 'insert')
        inserted = mb.any_executed(bmc, ins)
        claims['spawn%d.ok_or_already_registered' % pid] = z3.Or(okv[t], alr[t])
        claims['spawn%d.loser_writes_nothing' % pid] = z3.Implies(z3.Not(okv[t]), z3.And(z3.Not(inserted), z3.Not(finp['p%d' % PIDKEYS[pid]])))
        claims['spawn%d.winner_stays_registered' % pid] = z3.Implies(okv[t], z3.And(fin['p0'], fin['v0'] == pid, finp['p%d' % PIDKEYS[pid]]))
    n_ok = mb.count_true([okv[t] for t in spawners])
    if scenario.startswith('vacant'):
        claims['exactly_one_spawn_succeeds'] = n_ok == 1
    elif scenario.startswith('clash'):
        claims['a_spawn_under_a_held_name_is_refused'] = z3.And(n_ok == 0, z3.And([alr[t] for t in spawners]))
        claims['a_name_clash_changes_nothing_about_the_holder'] = z3.And(fin['p0'], fin['v0'] == HOLDER_PID, finp['p%d' % PIDKEYS[HOLDER_PID]])
    else:
        claims['at_most_one_spawn_succeeds'] = z3.ULE(n_ok, 1)
        ex = 0
        # holder gone from both maps once its exit finished
        claims['holder_released'] = z3.And(z3.Not(z3.And(fin['p0'], fin['v0'] == HOLDER_PID)), z3.Not(finp['p%d' % PIDKEYS[HOLDER_PID]]))
        # every remove executed by the exiter removed the holder's own entry (or nothing)
        for n in ev_nodes(ex, 'registry', 'remove'):
            claims['exit_removes_only_own_entry.%d' % n.idx] = z3.Implies(z3.And(bmc.executed[n], n.event.res['present']), n.event.res['val'] == HOLDER_PID)
        lk = [t for t in range(T) if meta[t][0] == 'looker'][0]
        found = bmc.leaf_select(lk, lambda leaf: z3.BoolVal(leaf.data['found']), z3.BoolVal(False))
        val = bmc.leaf_select(lk, lambda leaf: leaf.data['val'] if leaf.data['found'] else None, z3.BitVecVal(0, 8))
        gets = ev_nodes(lk, 'registry', 'get')
        tget = mb.pick_time(bmc, gets, 0)
        nws = [n for n in trees[ex].event_nodes() if n.event.opname == 'notify_waiters']
        for n in nws:
            claims['lookup_never_returns_an_actor_whose_waiters_were_released.%d' % n.idx] = z3.Implies(
                z3.And(found, val == HOLDER_PID, bmc.executed[n]), z3.ULT(tget, bmc.time[n]))
        claims['lookup_returns_holder_or_a_successful_spawn'] = z3.Implies(found, z3.Or([val == HOLDER_PID] + [z3.And(val == meta[t][1], okv[t]) for t in spawners]))
    claims['no_thread_panics'] = z3.And([z3.Not(bmc.at_leaf_kind(t, 'unwind')) for t in range(T)])
    info = {'instance': name, 'scenario': scenario, 'threads': [tr.name for tr in trees], 'paths': [tr.paths for tr in trees], 'nodes': [len(tr.nodes) for tr in trees],
            'event_depth': [tr.max_event_depth() for tr in trees], 'rounds': rounds, 'slots': bmc.S, 'unfold_s': round(time.time() - t0, 2)}
    ctx.extra.setdefault('instances', []).append(info)
    trunc_free = z3.And([z3.Not(bmc.at_leaf_kind(t, 'trunc')) for t in range(T)])
    base = list(bmc.cons)
    ctx.witness(name + '.everyone_finishes', base + [done], logic='QF_BV')
    if scenario.startswith('vacant'):
        ctx.witness(name + '.second_spawner_wins', base + [done, okv[spawners[1]]], logic='QF_BV')
    elif scenario.startswith('clash'):
        pass
    else:
        ctx.witness(name + '.respawn_succeeds_after_exit', base + [done, okv[spawners[0]]], logic='QF_BV')
        ctx.witness(name + '.respawn_fails_while_holder_registered', base + [done, z3.Not(okv[spawners[0]])], logic='QF_BV')
        ctx.witness(name + '.lookup_finds_the_new_actor', base + [done, found, val == 10], logic='QF_BV')
    allc = z3.And(list(claims.values()))
    t1 = time.time()
    r, m = ctx.solve(base + [done, trunc_free, z3.Not(allc)], logic='QF_BV')
    dt = time.time() - t1
    info['main_query_s'] = round(dt, 1)
    if r == 'unsat':
        for cn in claims:
            ctx.obligations.append({'name': '%s.%s' % (name, cn), 'group': 'C10.' + cn.split('.')[0], 'status': 'proved', 'solver_s': round(dt / len(claims), 3)})
        ctx.samples.append({'instance': info, 'claims': list(claims), 'verdict': 'unsat: no schedule within the bound violates any claim'})
    elif r == 'unknown':
        ctx.inconclusive.append('solver unknown on instance %s: %s' % (name, m))
    else:
        bad = [cn for cn, c in claims.items() if z3.is_false(m.eval(c, model_completion=True))]
        sched = bmc.schedule_from_model(m)
        rec = {'name': '%s.%s' % (name, bad[0] if bad else 'claims'), 'group': 'C10', 'status': 'cex', 'solver_s': round(dt, 3), 'violated': bad,
               'schedule': [(t, lbl) for (_, t, _, lbl, _) in sched]}

        def on_cex(model):
            import C10_replay
            if scenario.startswith('clash'):
                import C10_release_replay
                return C10_release_replay.replay_clash()
            return C10_replay.replay(scenario, [m_[0] for m_ in meta], sched, bad)
        ctx.handle_cex(rec['name'], 'C10.' + (bad[0].split('.')[0] if bad else 'claims'), m, on_cex, rec)
        ctx.obligations.append(rec)


def job(sub, name, scenario, R):
    prog, info = mb.load()
    run_instance(sub, prog, name, scenario, R)


def run(ctx):
    prog, info = mb.load()
    for fn in (NEW, 'registry::register', 'unregister', WHERE_IS, 'register_pid', 'unregister_pid', CELL_SET_STATUS, 'ActorProperties::new_remote::<TActor>'):
        b = prog.find_fn(fn)
        if b is None:
            raise Inconclusive('function not found in dump: ' + fn)
        ctx.encoded(prog, b)
    ctx.bounds.update({'schedules': 'R round-robin rounds', 'names': 1, 'pids': 'one per cell, no pid clash (local ids are allocated from a counter)',
                       'outside': 'more names / spawners / rounds than instantiated; DashMap internals (entry holds the key lock until consumed or dropped; get/remove are atomic; '
                                  'contract trusted); pid lifecycle listeners (assumed none); the waiters themselves (C06) - "wait() has returned" is represented by the exiter\'s '
                                  'notify_waiters event'})
    ctx.assumptions += ['DashMap contract: entry(k) locks the key until the Entry is inserted into or dropped; remove/get/insert are atomic per key',
                        'tokio channel / Notify / Mutex constructors create fresh thread-local objects (nothing else can reach them before the cell is published)',
                        'pg::{demonitor_all,leave_all} and pid_registry::demonitor are no-ops here']
    if ctx.tier == 'quick':
        insts = [('vacant_2spawners_r2', 'vacant2', 2), ('exit_respawn_lookup_r2', 'exit_respawn', 2), ('clash_r1', 'clash', 1), ('clash_thread_local_r1', 'clash_tl', 1)]
    else:
        insts = [('vacant_2spawners_r2', 'vacant2', 2), ('exit_respawn_lookup_r2', 'exit_respawn', 2), ('vacant_3spawners_r2', 'vacant3', 2),
                 ('exit_respawn_lookup_r3', 'exit_respawn', 3), ('exit_2respawn_lookup_r2', 'exit_respawn2', 2), ('vacant_2spawners_r3', 'vacant2', 3), ('clash_r1', 'clash', 1), ('clash_thread_local_r1', 'clash_tl', 1)]
    if os.environ.get('VERIF_C10_INST'):
        a = os.environ['VERIF_C10_INST'].split(',')
        insts = [(os.environ['VERIF_C10_INST'], a[0], int(a[1]))]
    ctx.bounds['instances'] = [dict(zip(('name', 'scenario', 'rounds'), i)) for i in insts]
    ctx.parallel(job, insts)
    # the exit sequence releases the name exactly once (no later, stale unregister that could hit a successor): whole real exit path of a named actor
    import C10_release
    import C10_release_replay
    import lifeprops as lp
    import lifecycle as lc
    rel = C10_release.instances(ctx.tier)
    lprog = lc.load()[0]
    for rt in sorted({i[0] for i in rel}):
        lp.encoded(ctx, lprog, rt)
    ctx.bounds['release'] = {'instances': [dict(zip(('runtime', 'poll_budget'), i)) for i in rel],
                             'scope': 'layered lifecycle exploration of a named actor (as C01 / C04: L1 process_message classes, L2 start + task + processing_loop + lifecycle guard, task cancellation at every suspension point); '
                                      'registry::unregister / unregister_pid recorded as effects'}
    ctx.parallel(C10_release.job, rel)
    try:
        r = C10_release_replay.run_native()
        ctx.translator_validated += 1
        ctx.extra['release_native'] = r
        if r['violated']:
            rec = {'name': 'release.native_battery', 'group': 'C10.release', 'solver_s': 0.0, 'status': 'cex'}
            ctx.obligations.append(rec)
            ctx.handle_cex(rec['name'], 'C10.release.native', None, lambda _m: {'replayed': True, 'detail': 'real name reuse while the predecessor is in post_stop: %s' % r, 'replay': {'which': 'release'}}, rec)
    except RuntimeError as e:
        ctx.inconclusive.append('release native scenario unavailable: %s' % str(e)[-300:])


def replay_file(path):
    import json
    import C10_replay
    d = json.load(open(path))
    if (d.get('replay') or {}).get('which') in ('release', 'clash'):
        import C10_release_replay
        return C10_release_replay.replay_from_json(d)
    return C10_replay.replay_from_json(d)
