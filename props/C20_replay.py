"""native replay for C20: the proxy's real handle_serialized on explicit states, and the receiving session's node-frame arms with a logging target and session"""
import native

Z32 = '00' * 32


def proxy(pid, counter, tags, closed, cursor, kind, reply_tag=0, timeout_ms=250, session_dead=False):
    out, _, rc, err = native.run('remote_proxy', pid=pid, counter=counter, tags=tags, closed=closed, cursor=cursor, kind=kind, reply_tag=reply_tag, timeout_ms=timeout_ms, session_dead=1 if session_dead else 0, timeout=30)
    if rc != 0:
        raise RuntimeError('native remote_proxy failed: ' + err[-300:])
    d = dict(x.split(':', 1) for x in out['out'].split(';'))
    return {'frames': [x for x in d['frames'].split('+') if x], 'resolved': [x for x in d['resolved'].split('+') if x], 'pending': [int(x) for x in d['pending'].split('+') if x], 'counter': int(d['counter'])}


def replay_proxy(args):
    bad, obs = [], {}
    pid = 11
    # Call: fresh tag, stored under the outgoing tag, verbatim payload, timeout forwarded
    for kind, tmo in (('Call/timeout', 250), ('Call/no-timeout', -1)):
        o = proxy(pid, 5, [2, 4], [0, 0], None, kind)
        obs[kind] = o
        want = 'Call/to:%d/tag:6/timeout:%d/what:[12]/variant:v/meta:Some([9])' % (pid, tmo)
        if o['frames'] != [want] or o['pending'] != [2, 4, 6] or o['counter'] != 6 or o['resolved']:
            bad.append('%s: expected frame %s, pending [2,4,6], counter 6: %s' % (kind, want, o))
    # tags never repeat, also when nothing is pending (an abandoned call's late reply must not meet a reused tag)
    o = proxy(pid, 5, [], [], None, 'Call/no-timeout')
    obs['call_idle'] = o
    if o['frames'][:1] != ['Call/to:%d/tag:6/timeout:-1/what:[12]/variant:v/meta:Some([9])' % pid] or o['counter'] != 6:
        bad.append('Call on an idle proxy whose counter is 5 must use tag 6: %s' % o)
    o = proxy(pid, 5, [3], [1], None, 'Call/no-timeout')
    obs['call_after_cleanup'] = o
    if not o['frames'] or '/tag:6/' not in o['frames'][0] or o['counter'] != 6:
        bad.append('Call after the only pending (closed) request was cleaned up must still use tag 6: %s' % o)
    o = proxy(pid, 5, [2, 4], [0, 0], None, 'Call/timeout', session_dead=True)
    obs['call_session_dead'] = o
    if o['pending'] != [2, 4]:
        bad.append('a Call whose frame the session refused must not keep its port: %s' % o)
    o = proxy(pid, 5, [2, 4], [0, 0], None, 'Cast')
    obs['cast'] = o
    if o['frames'] != ['Cast/to:%d/what:[12]/variant:v/meta:Some([9])' % pid] or o['pending'] != [2, 4] or o['counter'] != 5:
        bad.append('Cast: %s' % o)
    # replies: exactly the port stored under the tag, removed; others untouched; stale tags dropped
    for rt, want_res, want_pend in ((4, ['4'], [2]), (2, ['2'], [4]), (3, [], [2, 4]), (6, [], [2, 4])):
        o = proxy(pid, 5, [2, 4], [0, 0], None, 'CallReply', reply_tag=rt)
        obs['reply_%d' % rt] = o
        if o['resolved'] != want_res or o['pending'] != want_pend or o['frames'] or o['counter'] != 5:
            bad.append('CallReply(tag %d): expected resolved %s, pending %s: %s' % (rt, want_res, want_pend, o))
    # cleanup drops only closed ports
    o = proxy(pid, 5, [2, 4], [1, 0], None, 'Cast')
    obs['cleanup'] = o
    if o['pending'] != [4]:
        bad.append('cleanup must drop the closed port 2 and keep the open port 4: %s' % o)
    o = proxy(pid, 5, [2, 4], [0, 0], 2, 'Cast')
    obs['cleanup_cursor'] = o
    if o['pending'] != [2, 4]:
        bad.append('cleanup dropped an open port: %s' % o)
    return {'replayed': bool(bad), 'detail': 'native proxy scenarios: %s ; observations %s' % (bad, obs), 'replay': {'which': 'proxy', 'args': args}}


def session(kind):
    kw = dict(auth='AsServer(Ok)', a=0, b=0, d1=Z32, d2=Z32, frame='node', kind=kind, val=0, flag=0, digest='', advertised=1, remotable=1, check_reply='NoOtherConnection', cookie='c')
    out, _, rc, err = native.run('auth_session', timeout=30, **kw)
    if rc != 0:
        raise RuntimeError('native auth_session failed: ' + err[-300:])
    return out


def replay_session(args):
    bad, obs = [], {}
    o = session('Cast')
    obs['Cast'] = (o.get('target_log'), o.get('session_frames'))
    if o.get('target_log') != 'Cast/variant=Cast/args=[12]/meta=Some([9])' or o.get('session_frames'):
        bad.append('Cast not delivered verbatim / unexpected frames: %s' % (obs['Cast'],))
    for kind, tmo in (('Call/timeout', 50), ('Call/no-timeout', -1)):
        o = session(kind)
        obs[kind] = (o.get('target_log'), o.get('session_frames'))
        if o.get('target_log') != 'Call/variant=Call/args=[12]/meta=Some([9])/timeout=%d' % tmo:
            bad.append('%s not delivered verbatim: %s' % (kind, o.get('target_log')))
        if o.get('session_frames') != 'Reply/to=%s/tag=77/what=[42]' % o.get('target_pid'):
            bad.append('%s: the reply task must echo tag 77 and the target pid with the answer, once: %s' % (kind, o.get('session_frames')))
    return {'replayed': bool(bad), 'detail': 'native session scenarios: %s ; observations %s' % (bad, obs), 'replay': {'which': 'session', 'args': args}}


def replay(which, args):
    return replay_proxy(args) if which == 'proxy' else replay_session(args)
