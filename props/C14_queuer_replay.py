"""native replay for the C14 queuer-history slice: one dispatch / worker_finished_job on a real FactoryState with the real (sticky) queuer router"""
import native


def run_native(rp):
    op = {'dispatch': 'dispatch', 'worker_finished_job': 'finished:%s' % rp['w'], 'death': 'death:%s' % rp['w'], 'resize': 'resize:%s' % rp['w']}[rp['op']]
    out, _l, rc, err = native.run('factory_queuer', sticky=1 if 'Sticky' in rp['router'] else 0, busy=rp['busy'], deque=rp['deque'], queued=rp['queue'], op=op, timeout=30)
    if rc != 0:
        raise RuntimeError('native factory_queuer failed: ' + err[-300:])
    d = dict(x.split('~', 1) for x in out['out'].split(';'))
    ints = lambda s: [int(x) for x in s.split('+') if x]
    return {'deque': ints(d['deque']), 'flags': [x == '1' for x in d['flags'].split('+') if x], 'idle': ints(d['idle']), 'queue': int(d['queue'])}


def evaluate(rp):
    o = run_native(rp)
    bad = []
    if any(f and w not in o['deque'] for w, f in enumerate(o['flags'])):
        bad.append('flagged_workers_are_in_the_deque: %s / %s' % (o['deque'], o['flags']))
    if not all(w in o['deque'] for w in o['idle']):
        bad.append('every_available_worker_is_known_to_the_router: idle %s, deque %s' % (o['idle'], o['deque']))
    if o['queue'] and o['idle']:
        bad.append('no_job_waits_in_the_factory_queue_while_a_worker_is_idle: %d waiting, idle %s' % (o['queue'], o['idle']))
    return bad, o


def replay(rp):
    bad, o = evaluate(rp)
    return {'replayed': bool(bad), 'detail': 'native FactoryState step %s -> %s ; violated %s' % (rp, o, bad), 'replay': {'which': 'queuer_hist', 'rp': rp}}


def battery():
    bad, n = [], 0
    for router in ('QueuerRouting', 'StickyQueuerRouting'):
        for busy, dq, q, op, w in (([], [0, 1, 2], 0, 'dispatch', None), ([0, 1, 2], [], 1, 'dispatch', None), ([0, 1, 2], [], 2, 'worker_finished_job', 1), ([0], [2, 1], 0, 'worker_finished_job', 0),
                                   ([1, 2], [1, 0], 0, 'dispatch', None), ([0, 1, 2], [2], 0, 'worker_finished_job', 2), ([0, 1], [2], 0, 'dispatch', None),
                                   ([0, 1, 2], [], 1, 'death', 1), ([0], [1, 2], 0, 'death', 2), ([], [0, 1, 2], 0, 'resize', 2), ([0, 1, 2], [], 2, 'resize', 4)):
            b, o = evaluate({'router': router, 'busy': busy, 'deque': dq, 'queue': q, 'op': op, 'w': w})
            n += 1
            bad += ['%s %s: %s' % (router, (busy, dq, q, op, w), x) for x in b]
    return bad, n
