"""C13 (two-step slice, hypothesis H2 of DESIGN 6): a completion report that a worker incarnation sent just before it died, handled after the factory
replaced that worker.

The factory's supervision port outranks its message port, so `Finished(w, k)` of the dead incarnation is handled *after* the replacement was installed and
given the next queued job. Step 1: `Factory::handle_supervisor_evt(ActorFailed(worker 0))` on a pool whose worker 0 has a job of key 5 in flight and another
job of key 5 (or of key 6) queued behind it. Step 2: `FactoryState::worker_finished_job(0, 5)` - the stale report. The job the replacement was just handed is
still running there: its bookkeeping entry must survive a report that is not its own."""
import z3

import lifecycle as lc
import lifeprops as lp
import models_std
import C13
import C14_books as books
import C15_pool as cp
from exec import State, Outcome, Inconclusive, Unmodelled
from values import *

SUP = '<Factory<TKey, TMsg, TWorkerStart, TWorker, TRouter, TQueue> as Actor>::handle_supervisor_evt'
FIN = 'FactoryState::<TKey, TMsg, TWorker, TWorkerStart, TRouter, TQueue>::worker_finished_job'


def check(ctx, prog):
    fin = prog.find_fn(FIN)
    if fin is None or prog.find_fn(SUP) is None:
        raise Inconclusive('handle_supervisor_evt / worker_finished_job not found')
    d = prog.crate.struct('FactoryState')
    dw = prog.crate.struct('WorkerProperties')
    seen = set()
    for qkey in (5, 6):
        I = cp.new_interp(prog)
        st = State()
        fv = cp.mk_state(prog, I, st, 1, ('live', None, None, None), busy_live=(0,))
        ff = list(fv.fields)
        pool = ff[d['fields'].index('pool')]
        rec = books.mk_worker(prog, I, st, [qkey], (5,))
        f = list(rec.fields)
        f[dw['fields'].index('wid')] = I.mk_int(0, 'usize')
        f[dw['fields'].index('is_draining')] = z3.BoolVal(False)
        f[dw['fields'].index('actor')] = cp.actor_ref('actor0')
        f[dw['fields'].index('discard_handler')] = models_std.NONE
        ff[d['fields'].index('pool')] = Agg('HashMap', [Agg('()', (I.mk_int(0, 'usize'), Agg('WorkerProperties', f)))])
        fc = st.alloc(Agg('FactoryState', ff))
        cell = Agg('ActorCell', (Opaque('props', ident='actor0'),))
        ev = Enum('SupervisionEvent', 'ActorFailed', 2, (cell, Opaque('err')))
        st, coro = lc.make_coro(I, st, prog, SUP, [Ref(st.alloc(Opaque('Factory')), ()), cp.actor_ref('myself'), ev, Ref(fc, (), True)])
        cc = st.alloc(coro)
        frontier, done = [(st, 0)], []
        while frontier:
            s, n = frontier.pop()
            for o in lc.poll_coro(I, s, cc):
                if o.kind != 'ret' or o.val.variant == 'Ready':
                    done.append(o)
                elif n < 4:
                    frontier.append((o.st, n + 1))
                else:
                    raise Inconclusive('handle_supervisor_evt did not complete')
        for k, o in enumerate(done):
            if o.kind != 'ret' or o.val.fields[0].variant != 'Ok':
                continue
            fa = I.read(o.st, fc, ())
            w = [e.fields[1] for e in fa.fields[d['fields'].index('pool')].fields][0]
            q1, c1, p1 = books.read_books(prog, I, o.st, o.st.alloc(w))
            if qkey not in c1:
                continue      # the hand-over to the replacement failed or the job had expired: nothing is running there
            # step 2: the stale report of the dead incarnation's job (key 5)
            outs2 = I.run_body(o.st, fin, [Ref(fc, (), True), I.mk_int(0, 'usize'), books.key(5)])
            ctx.paths += len(outs2)
            for k2, o2 in enumerate(outs2):
                name = 'stale.q%d.path%d.%d' % (qkey, k, k2)
                cex = lambda m, qkey=qkey: replay(qkey)
                if o2.kind != 'ret':
                    lp.record(ctx, name, o2.st, {'no_panic': False}, 'C13.stale', on_cex=cex)
                    continue
                fa2 = I.read(o2.st, fc, ())
                ws = [e.fields[1] for e in fa2.fields[d['fields'].index('pool')].fields]
                q2, c2, p2 = books.read_books(prog, I, o2.st, o2.st.alloc(ws[0])) if ws else ([], [], {})
                claims = {'a_report_of_the_dead_incarnation_does_not_complete_the_job_its_replacement_is_running': qkey in c2}
                seen.add('same_key' if qkey == 5 else 'other_key')
                lp.record(ctx, name, o2.st, claims, 'C13.stale', on_cex=cex, sample={'queued_key': qkey, 'in_flight_after_replacement': c1, 'in_flight_after_the_stale_report': c2})
        ctx.absorb(I)
    for w_ in ('same_key', 'other_key'):
        ctx.note_witness('C13.stale.' + w_, w_ in seen)
    ctx.bounds['stale_report'] = 'one worker with a job of key 5 in flight and one job (key 5 or 6) queued behind it; its death handled by the factory, then the dead incarnation\'s Finished(0, 5)'


def replay(qkey):
    import C13_stale_replay
    return C13_stale_replay.replay(qkey)
