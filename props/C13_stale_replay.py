"""native replay for the C13 stale-report slice (H2): real FactoryState, real supervision handler, then the dead incarnation's Finished"""
import native


def run_native(qkey):
    out, _l, rc, err = native.run('factory_stale', qkey=qkey, timeout=30)
    if rc != 0:
        raise RuntimeError('native factory_stale failed: ' + err[-300:])
    d = dict(x.split('~', 1) for x in out['out'].split(';'))

    def books(v):
        if v == 'gone':
            return None
        q, c, p = v.split('/')
        return {'queue': [x for x in q.split('+') if x], 'in_flight': [int(x) for x in c.split('+') if x]}
    return books(d['after_death']), books(d['after_stale_report'])


def replay(qkey):
    a, b = run_native(qkey)
    bad = []
    if a and qkey in a['in_flight'] and (b is None or qkey not in b['in_flight']):
        bad.append('the replacement of worker 0 was handed the queued job of key %d (in flight %s); after the Finished(0, 5) of the dead incarnation nothing is in flight (%s) although that job never finished' % (qkey, a['in_flight'], b))
    return {'replayed': bool(bad), 'detail': 'native death of worker 0 then its stale Finished(0,5), queued key %d: after death %s, after the stale report %s ; %s' % (qkey, a, b, bad or 'no violation'),
            'replay': {'which': 'stale', 'qkey': qkey}}
