"""native replay for the C19 drop slice: a real actor (both runtimes) is sent a serialized message its decoder accepts / refuses / panics on; afterwards it must
still be running and handle the next message"""
import native


def run_native(tl, decoder):
    out, _l, rc, err = native.run('decode_drop', tl=tl, decoder=decoder, timeout=30)
    if rc != 0:
        raise RuntimeError('native decode_drop failed: ' + err[-300:])
    return dict(out)


def evaluate(tl, decoder):
    out = run_native(tl, decoder)
    bad = []
    if decoder == 'ok':
        if out.get('handled_after_first') != '1' or out.get('handled_after_second') != '2':
            bad.append('decodable serialized message not handled: %s' % out)
    else:
        if out.get('handled_after_first') != '0':
            bad.append('a handler ran for an undecodable message: %s' % out)
        if out.get('alive_after_first') != '1' or out.get('handled_after_second') != '1' or out.get('status') != 'Running':
            bad.append('the actor was harmed by an undecodable serialized message (decoder: %s): %s' % (decoder, out))
    return bad, out


def replay(outcome, runtime=None):
    bad, obs = [], {}
    for tl in ((0, 1) if runtime is None else ((1,) if 'ThreadLocal' in runtime else (0,))):
        b, o = evaluate(tl, outcome)
        obs['thread_local' if tl else 'actor'] = o
        bad += ['%s runtime: %s' % ('thread-local' if tl else 'default', x) for x in b]
    return {'replayed': bool(bad), 'detail': 'native actor sent a serialized message (decoder %s): %s ; violated %s' % (outcome, obs, bad),
            'replay': {'which': 'drop', 'decoder': outcome, 'runtime': runtime}}
