"""native side of the C06 guard slice: the final state's Drop panics inside the exit clean-up of an actor nobody supervises"""
import native


def run_native(mode, dead_sup):
    out, _, rc, err = native.run('teardown_panic', mode=mode, dead_sup=1 if dead_sup else 0, timeout=60)
    if rc != 0:
        raise RuntimeError('native teardown_panic failed: ' + err[-300:])
    return {k: int(v) for k, v in out.items()}


def violated(o):
    bad = []
    if not o.get('joined'):
        bad.append('the_join_handle_completes')
    if o.get('status_at_join') != 6:
        bad.append('status_reads_stopped_when_the_join_handle_completes')
    if not o.get('early_waiter') or not o.get('late_waiter') or not o.get('request_and_wait'):
        bad.append('every_waiter_completes')
    return bad


def battery():
    res = []
    for mode in ('stop', 'drain'):
        for dead in (False, True):
            o = run_native(mode, dead)
            res.append({'mode': mode, 'dead_supervisor': dead, 'observed': o, 'violated': violated(o)})
    return res


def replay():
    res = battery()
    bad = [r for r in res if r['violated']]
    return {'replayed': bool(bad), 'detail': 'native teardown with a panicking final-state Drop: %s' % (bad or res), 'replay': {'scenario': 'teardown_panic', 'prop': 'C06', 'which': 'guard'}}


def replay_from_json(d):
    r = replay()
    print(r['detail'])
    return 1 if r['replayed'] else 0
