"""C08 - A failed or cancelled spawn leaves nothing behind (failure paths of the real `start` coroutine + the port set's Drop)."""
import z3

import lifecycle as lc
import lifeprops as lp
import lifetrace as lt
import lifeoracles as lo
import actor_run as ar
import models_std
from exec import Inconclusive, State
from values import *


def job(sub, runtime, budget, named, links=False):
    prog, info = lc.load()
    I = ar.new_interp(prog, budget, runtime)
    lt.install_summary(I, prog, [('stop', None)], runtime)
    st = State()
    a = ar.Actor(prog, I, st, True, 2, name='the-name' if named else None, observer=links)
    if links:
        I.pre_start_effect = lambda I, s: a.link_to_observer(s)
    ss = z3.BitVec('sup_status', 8)
    st.assume(z3.ULE(ss, 6))
    st.objs['sup_status'] = {'w': ss}
    rv = a.runtime_value(st)
    fn = '%s::<TActor>::start' % runtime
    body = prog.find_fn(fn)
    if body is None:
        raise Inconclusive('function not found: ' + fn)
    args = [rv, a.ports, Opaque('Arguments')] + ([models_std.some(a.sup_cell)] if runtime == 'ActorRuntime' else [Opaque('Spawner', ident='spawner'), models_std.some(a.sup_cell)])
    outs = I.run_body(st, body, args)
    if len(outs) != 1 or not isinstance(outs[0].val, Coro):
        raise Inconclusive('start did not return a coroutine')
    st = outs[0].st
    ccell = st.alloc(outs[0].val)
    st_cancel = st.fork()
    res = ar.drive(I, st, ccell, 3, 'st')
    sub.absorb(I)
    sub.paths += len(res)
    tag = '%s.p%d.%s%s' % (runtime, budget, 'named' if named else 'anon', '.pre_start_links' if links else '')
    causes = set()
    n_ok = 0
    for k, (s, kind, v, n) in enumerate(res):
        name = '%s.start.path%d' % (tag, k)
        if kind in ('unwind', 'abort'):
            lp.record(sub, name, s, {'start_never_unwinds': False}, 'C08.start', on_cex=lambda m, s=s: replay(tag, s.trace, named, False))
            continue
        if kind != 'ready':
            continue
        if v.variant == 'Ok':
            n_ok += 1
            # a successful start: linked before being marked running, status not Stopped
            claims = {'linked_before_running': a.supervisor_of_a(s) and a.child_of_sup(s)}
            lp.record(sub, name, s, claims, 'C08.start_ok', on_cex=lambda m, s=s: replay(tag, s.trace, named, False))
            continue
        s.emit('START_ERR', v.fields[0].variant if isinstance(v.fields[0], Enum) else '?')
        claims = lo.failed_spawn_claims(I, a, s, s.trace, named)
        ends = [(e[2], e[4]) for e in s.trace if e[0] == 'CB' and e[1] == 'end']
        cancelled = any(e[0] == 'CB' and e[1] == 'cancelled' for e in s.trace)
        spawner_dead = any(e[0] == 'FX' and e[1] == 'spawner_dead' for e in s.trace)
        failed_cb = [x for x in ends if x[1] in ('err', 'panic')]
        # the link was refused: no callback failed, nothing was cancelled, and the path exists only for a supervisor that is shutting down
        refused = (not failed_cb) and (not cancelled) and (not spawner_dead) and sub.solve(list(s.pc) + [z3.ULT(ss, 4)])[0] == 'unsat'
        cause = 'refused_link' if refused else ('spawner_dead' if spawner_dead else ('killed_during_start' if cancelled or not ends else 'pre_start_' + ends[0][1]))
        causes.add(cause)
        claims['error_is_startup_failed'] = isinstance(v.fields[0], Enum) and v.fields[0].variant == 'StartupFailed'
        if refused:
            # the link was refused only because the supervisor is shutting down
            claims['refused_only_when_supervisor_is_late'] = True
            sub.prove(name + '.refused_only_when_supervisor_is_late', s.pc, z3.UGE(ss, 4), group='C08.start.refused_link_condition', key='C08.start.refused_link_condition',
                      on_cex=lambda m, s=s: replay(tag, s.trace, named, True))
        lp.record(sub, name, s, claims, 'C08.start', sample={'cause': cause, 'effects': [e[1] for e in s.trace if e[0] == 'FX']},
                  on_cex=lambda m, s=s, refused=refused: replay(tag, s.trace, named, refused))
    # the spawning future itself is dropped at an await point (a timeout around spawn, an aborted spawning task): everything the start coroutine holds
    # at that suspension point is dropped - the lifecycle guard (its real Drop runs the clean-up), the port set, the pending pre_start future
    n_cancel = 0
    frontier = [(st_cancel, 0)]
    while frontier:
        s0, n = frontier.pop()
        for o in lc.poll_coro(I, s0, ccell):
            if o.kind != 'ret' or o.val.variant == 'Ready' or n + 1 >= 3:
                continue
            cs = o.st.fork()
            active = None
            for e in cs.trace:
                if e[0] == 'CB' and e[1] == 'start':
                    active = e
                elif e[0] == 'CB' and e[1] in ('end', 'cancelled') and active is not None and e[3] == active[3]:
                    active = None
            if active is not None:
                cs.emit('CB', 'cancelled', active[2], active[3])
            cs.emit('START_CANCELLED')
            co = I.read(cs, ccell, ())
            for d in I.drop_value(cs, co, Ref(ccell, (), True)):
                n_cancel += 1
                name = '%s.start_cancelled.poll%d.path%d' % (tag, n + 1, n_cancel)
                if d.kind != 'ret':
                    lp.record(sub, name, d.st, {'dropping_the_start_future_never_unwinds': False}, 'C08.start_cancelled', on_cex=lambda m: replay_cancelled(named, links))
                    continue
                claims = lo.failed_spawn_claims(I, a, d.st, d.st.trace, named)
                lp.record(sub, name, d.st, claims, 'C08.start_cancelled', sample={'cancelled_at_poll': n + 1, 'effects': [e[1] for e in d.st.trace if e[0] == 'FX']},
                          on_cex=lambda m: replay_cancelled(named, links))
            lc.refresh_ports(I, o.st, 'stc%d_%d' % (n + 1, n_cancel))
            frontier.append((o.st, n + 1))
    sub.paths += n_cancel
    sub.note_witness('C08.%s.start_future_cancelled_at_an_await' % tag, n_cancel > 0)
    for c in ('pre_start_err', 'pre_start_panic', 'killed_during_start', 'refused_link'):
        sub.note_witness('C08.%s.cause_%s' % (tag, c), c in causes)
    sub.note_witness('C08.%s.successful_start_exists' % tag, n_ok > 0)


def start_cancel_battery(ctx):
    import life_replay
    try:
        n = 0
        for named in (False, True):
            for links in (False, True):
                bad, log = life_replay.replay_start_cancelled(named, links)
                n += 1
                if bad:
                    rec = {'name': 'start_cancelled.native.%s%s' % ('named' if named else 'anon', '.links' if links else ''), 'group': 'C08.start_cancelled', 'solver_s': 0.0, 'status': 'cex'}
                    ctx.obligations.append(rec)
                    ctx.handle_cex(rec['name'], 'C08.start_cancelled.native', None, lambda _m, named=named, links=links: replay_cancelled(named, links), rec)
        ctx.translator_validated += n
    except RuntimeError as e:
        ctx.inconclusive.append('start-cancel native battery unavailable: %s' % str(e)[-300:])


def ports_drop_check(ctx, prog):
    """the real <ActorPortSet as Drop>::drop from arbitrary port contents: all four queues end closed and empty"""
    I = lc.new_interp(prog)
    st = State()
    init = lc.symbolic_ports(I, st, 'p')
    pcell = st.alloc(lc.portset_value(prog))
    body = prog.find_fn('<ActorPortSet as Drop>::drop')
    if body is None:
        raise Inconclusive('<ActorPortSet as Drop>::drop not found')
    ctx.encoded(prog, body)
    outs = I.run_body(st, body, [Ref(pcell, (), True)])
    ctx.absorb(I)
    flushed_any = False
    for k, o in enumerate(outs):
        name = 'ports_drop.path%d' % k
        if o.kind != 'ret':
            ctx.prove(name + '.completes', o.st.pc, z3.BoolVal(False), group='C08.ports_drop.completes', key='C08.ports_drop')
            continue
        ob = o.st.objs
        claim = z3.And(ob['sigq']['rxclosed'], ob['stopq']['rxclosed'], ob['supq']['closed'], ob['msgq']['closed'], ob['supq']['len'] == 0, ob['msgq']['len'] == 0,
                       ob['sigq']['st'] != 1, ob['stopq']['st'] != 1)
        ctx.prove(name + '.all_queues_closed_and_empty', o.st.pc, claim, group='C08.ports_drop.closed_and_empty', key='C08.ports_drop',
                  sample={'function': body.name, 'claim': 'after Drop: four receivers closed, nothing left queued (queued reply ports are dropped with their messages)'})
        flushed_any = flushed_any or any(e[0] == 'FLUSHED' for e in o.st.trace)
    ctx.note_witness('C08.ports_drop.flushes_a_queued_item', flushed_any)


def replay_cancelled(named, links):
    import life_replay
    bad, log = life_replay.replay_start_cancelled(named, links)
    return {'replayed': bool(bad), 'detail': 'native spawn future dropped during pre_start (named=%s, pre_start links=%s) -> %s ; violated %s' % (named, links, log, bad),
            'replay': {'which': 'start_cancelled', 'named': named, 'links': links}}


def replay(tag, trace, named, sup_dead):
    import life_replay
    return life_replay.replay_trace(tag, trace, 'C08', sup=True, sup_dead=sup_dead, named=named)


def run(ctx):
    prog, info = lc.load()
    insts = [('ActorRuntime', 1, False, False), ('ActorRuntime', 1, True, False), ('ActorRuntime', 1, False, True), ('ThreadLocalActorRuntime', 1, True, False)] if ctx.tier == 'quick' else \
        [('ActorRuntime', 1, False, False), ('ActorRuntime', 1, True, False), ('ActorRuntime', 2, True, False), ('ThreadLocalActorRuntime', 1, True, False),
         ('ActorRuntime', 1, False, True), ('ThreadLocalActorRuntime', 1, False, True)]
    for rt in sorted({i[0] for i in insts}):
        lp.encoded(ctx, prog, rt)
    ctx.bounds.update(lp.COMMON_BOUNDS)
    ctx.bounds['instances'] = [dict(zip(('runtime', 'poll_budget', 'named', 'pre_start_links_itself_to_another_actor'), i)) for i in insts]
    ctx.bounds['outside'] += '; name clashes (C10)'
    ctx.bounds['start_future_cancelled'] = ('the start coroutine is dropped at each of its suspension points within the poll budget (pre_start pending; thread-local: also the hand-over to the '
                                            'spawner thread): what it holds there - lifecycle guard, port set, pending user future - is dropped generically (saved locals of the current state, then the upvars), '
                                            'the guard through its real Drop; the order among these drops is not the compiler\'s drop-shim order')
    ctx.assumptions += lp.COMMON_ASSUMPTIONS
    ports_drop_check(ctx, prog)
    ctx.parallel(job, insts)
    start_cancel_battery(ctx)
    # "a name clash changes nothing about the existing holder": a spawn under a held name through ActorCell::new and through its thread-local twin
    # (instances of the registry model shared with C10, reported under this property)
    import C10
    import mailbox as mb
    mprog = mb.load()[0]
    for fn in (C10.NEW, C10.NEW_TL):
        b = mprog.find_fn(fn)
        if b is None:
            raise Inconclusive('function not found in dump: ' + fn)
        ctx.encoded(mprog, b)
    C10.run_instance(ctx, mprog, 'name_clash.regular', 'clash', 1)
    C10.run_instance(ctx, mprog, 'name_clash.thread_local', 'clash_tl', 1)
    try:
        import C10_release_replay
        rc_ = C10_release_replay.run_clash()
        ctx.translator_validated += 1
        ctx.extra['name_clash_native'] = rc_
        if rc_['violated']:
            rec = {'name': 'name_clash.native_battery', 'group': 'C08.name_clash', 'solver_s': 0.0, 'status': 'cex'}
            ctx.obligations.append(rec)
            ctx.handle_cex(rec['name'], 'C08.name_clash.native', None, lambda _m: {'replayed': True, 'detail': 'real spawns under a held name: %s' % rc_, 'replay': {'which': 'clash'}}, rec)
    except RuntimeError as e:
        ctx.inconclusive.append('name clash native scenario unavailable: %s' % str(e)[-300:])
    ctx.bounds['outside'] = ctx.bounds['outside'].replace('; name clashes (C10)', '')
    # thread-local spawn: the hand-over of the start task between the caller and the spawner thread (abort-on-drop guard on whichever side holds the handle)
    import C08_tlspawn
    import C08_tlspawn_replay
    C08_tlspawn.check(ctx, prog)
    try:
        r = C08_tlspawn_replay.run_native()
        ctx.translator_validated += 1
        ctx.extra['tlspawn_native'] = r
        if r['violated']:
            rec = {'name': 'tlspawn.native_battery', 'group': 'C08.tlspawn', 'solver_s': 0.0, 'status': 'cex'}
            ctx.obligations.append(rec)
            ctx.handle_cex(rec['name'], 'C08.tlspawn.native', None, lambda _m: {'replayed': True, 'detail': 'thread-local spawn abandoned while queued: %s' % r, 'replay': {'which': 'tlspawn'}}, rec)
    except RuntimeError as e:
        ctx.inconclusive.append('tlspawn native scenario unavailable: %s' % str(e)[-300:])


def replay_file(path):
    import json
    import life_replay
    d = json.load(open(path))
    if (d.get('replay') or {}).get('which') == 'clash':
        import C10_release_replay
        return C10_release_replay.replay_from_json(d)
    if (d.get('replay') or {}).get('which') == 'tlspawn':
        import C08_tlspawn_replay
        return C08_tlspawn_replay.replay_from_json(d)
    if (d.get('replay') or {}).get('which') == 'start_cancelled':
        bad, log = life_replay.replay_start_cancelled(d['replay']['named'], d['replay']['links'])
        print('native spawn future dropped during pre_start:', log, bad)
        return 1 if bad else 0
    return life_replay.replay_from_json(d)
