"""C14 (composition slice): same-key exclusivity and submission order under key-persistent routing, as an inductive invariant over whole routing steps.

    J:  every key is pending (queued or in flight) on at most one worker of the pool, and every worker's pending-key table is exact (C14_books)

`<KeyPersistentRouting as Router>::route_message` - the real choice *and* the real `enqueue_job` / `dispatch_job` of the chosen worker's record - is run from
every pool over workers 0..2 (each present or not) whose records satisfy J (two keys, each nowhere or on one worker with one job in flight and 0..1 queued,
or queued only behind a closed mailbox), for a job of key 5, with every hint, the hash symbolic, hand-over succeeding or failing:
afterwards J holds again, exactly one record changed (or none and the job came back), the new job sits on the worker that held the key - behind every older
job of that key - and nothing else moved. Completion and replacement only shrink pending sets (C14_books), resize never moves jobs (C15_pool), so J is
inductive over histories: two jobs of one key are never in progress on two workers, and jobs of a key run in submission order."""
import itertools
import z3

import models_std
import lifeprops as lp
import C14_books as books
from exec import State, Outcome, Inconclusive, Unmodelled
from values import *

FN = '<KeyPersistentRouting<TKey, TMsg> as Router<TKey, TMsg>>::route_message'
K, OTHER = 5, 6


def worker_shapes():
    """(queue keys, in-flight keys) of one worker"""
    return [((), ()), ((), (K,)), ((K,), (K,)), ((), (OTHER,)), ((OTHER,), (OTHER,)), ((K,), ()), ((K,), (OTHER,)), ((OTHER,), (K,))]


def pending(shape):
    return set(shape[0]) | set(shape[1])


def pools():
    out = []
    shapes = worker_shapes()
    for present in ((0, 1, 2), (0, 2), (1,), ()):
        for combo in itertools.product(shapes, repeat=len(present)):
            # J: each key on at most one worker
            okk = all(sum(1 for s in combo if key in pending(s)) <= 1 for key in (K, OTHER))
            if okk:
                out.append(tuple(zip(present, combo)))
    return out


def job_ids(prog, I, st, wc):
    """(key, message identity) of the queued jobs of a worker record, in queue order"""
    d = prog.crate.struct('WorkerProperties')
    dj = prog.crate.struct('Job')
    w = I.read(st, wc, ())
    out = []
    for j in w.fields[d['fields'].index('message_queue')].fields:
        kv = models_std.deref_val(I, st, j.fields[dj['fields'].index('key')])
        mv = j.fields[dj['fields'].index('msg')]
        out.append((kv.ident[1] if isinstance(kv, Opaque) and isinstance(kv.ident, tuple) else None, getattr(mv, 'ident', None)))
    return out


def check(ctx, prog):
    check_router(ctx, prog, 'KeyPersistentRouting')
    check_router(ctx, prog, 'StickyQueuerRouting')


def check_router(ctx, prog, router):
    body = prog.find_fn('<%s<TKey, TMsg> as Router<TKey, TMsg>>::route_message' % router) or prog.find_fn('<%s as Router>::route_message' % router)
    if body is None:
        raise Inconclusive('%s::route_message not found' % router)
    ctx.encoded(prog, body)
    dw = prog.crate.struct('WorkerProperties')
    seen = set()
    all_pools = pools()
    sticky = router == 'StickyQueuerRouting'
    if sticky:
        # a sticky-queuer worker only ever holds jobs of one key (it is given a job when idle or when it already processes that key)
        all_pools = [p for p in all_pools if all(len(pending(s)) <= 1 for _, s in p)]
    if ctx.tier == 'quick':
        all_pools = [p for i, p in enumerate(all_pools) if len(p) <= 2 or i % 3 == 0]
    pre = 'exclusive' if not sticky else 'exclusive_sticky'
    for pl in all_pools:
        for hint in (None, 0, 1):
            I = books.new_interp(prog)
            import C14
            C14.install_hash(I)
            st = State()
            recs = []
            for wid, (q, c) in pl:
                rec = books.mk_worker(prog, I, st, list(q), tuple(c))
                f = list(rec.fields)
                f[dw['fields'].index('wid')] = I.mk_int(wid, 'usize')
                f[dw['fields'].index('actor')] = Opaque('worker-actor-ref', ident='actor%d' % wid)
                recs.append((wid, Agg('WorkerProperties', f)))
            poolv = Agg('HashMap', [Agg('()', (I.mk_int(wid, 'usize'), r)) for wid, r in recs])
            pc = st.alloc(poolv)
            if sticky:
                idle = [w for w, (q, c) in pl if not q and not c]
                rd = prog.crate.struct('StickyQueuerRouting')
                rf = {'_key': Agg('PhantomData', ()), '_msg': Agg('PhantomData', ()), 'available_workers': Agg('VecDeque', [I.mk_int(w, 'usize') for w in idle]),
                      'worker_in_queue': Agg('Vec', [z3.BoolVal(w in idle) for w in range(3)])}
                rc = st.alloc(Agg('StickyQueuerRouting', [rf[n] for n in rd['fields']]))
            else:
                rc = st.alloc(Agg('KeyPersistentRouting', (Agg('PhantomData', ()), Agg('PhantomData', ()))))
            jobv = books.mk_job(prog, K, 'new')
            outs = I.run_body(st, body, [Ref(rc, (), True), jobv, I.mk_int(3, 'usize'), models_std.NONE if hint is None else models_std.some(I.mk_int(hint, 'usize')), Ref(pc, (), True)])
            ctx.absorb(I)
            ctx.paths += len(outs)
            tag = pre + '.%s.hint%s' % ('_'.join('%d:%s/%s' % (w, ''.join(map(str, q)) or '-', ''.join(map(str, c)) or '-') for w, (q, c) in pl) or 'empty', hint)
            holder = next((w for w, s in pl if K in pending(s)), None)
            for k, o in enumerate(outs):
                name = '%s.path%d' % (tag, k)
                cex = (lambda pl=pl, hint=hint: (lambda m: replay(pl, hint, router)))()
                if o.kind != 'ret':
                    lp.record(ctx, name, o.st, {'routing_completes_without_panic': False}, 'C14.' + pre, on_cex=cex)
                    continue
                res = o.val
                after = {}
                after_ids = {}
                pv = o.st.cells[pc]
                for e in pv.fields:
                    wid = z3.simplify(e.fields[0].t).as_long()
                    wc = o.st.alloc(e.fields[1])
                    after[wid] = books.read_books(prog, I, o.st, wc)
                    after_ids[wid] = job_ids(prog, I, o.st, wc)
                before = {w: (list(q), list(c)) for w, (q, c) in pl}
                changed = [w for w in after if (after[w][0], sorted(after[w][1])) != (before[w][0], sorted(before[w][1]))]
                exact = all(p == {kk: n for kk, n in books.counts(q, c).items()} for (q, c, p) in after.values())
                pend_after = {key: [w for w, (q, c, p) in after.items() if key in q or key in c] for key in (K, OTHER)}
                claims = {'pool_members_unchanged': sorted(after) == sorted(before),
                          'pending_key_tables_stay_exact': exact,
                          'each_key_still_on_at_most_one_worker': all(len(v) <= 1 for v in pend_after.values()),
                          'at_most_one_job_in_flight_per_worker': all(len(c) <= 1 for (q, c, p) in after.values())}
                handled = isinstance(res, Enum) and res.variant == 'Ok' and isinstance(res.fields[0], Enum) and res.fields[0].variant == 'Handled'
                if handled:
                    claims['exactly_one_record_changed'] = len(changed) == 1
                    if len(changed) == 1:
                        w = changed[0]
                        q2, c2, _ = after[w]
                        q1, c1 = before[w]
                        # the new job is the last of the queue, or it went straight to the worker (then no older job of that key waits)
                        # jobs of the key in the order they will run: the one in flight (if any), then the queue. Afterwards that order is the old one with
                        # the new job at the end; at most the first of them moved from the queue into flight
                        ids_before = ['q%d' % i for i, kk in enumerate(q1) if kk == K]
                        ids_after = [j for (kk, j) in after_ids[w] if kk == K]
                        n_started = 1 if (K in c2 and K not in c1) else 0
                        appended = q2 == q1 + [K] and sorted(c2) == sorted(c1)
                        started = n_started == 1
                        claims['new_job_behind_every_older_job_of_its_key'] = ids_after == (ids_before + ['new'])[n_started:] and len(c2) <= 1 and (K in c2 or not n_started)
                        claims['job_goes_to_the_worker_that_holds_its_key'] = holder is None or w == holder
                        if holder is not None:
                            seen.add('pinned')
                        if started:
                            seen.add('started')
                        if appended:
                            seen.add('queued')
                else:
                    claims['a_job_that_comes_back_changed_nothing'] = not changed
                    claims['job_comes_back_only_when_no_worker_can_take_it'] = holder is None
                    seen.add('backlog')
                lp.record(ctx, name, o.st, claims, 'C14.' + pre, on_cex=cex)
    for w in ('pinned', 'started', 'queued', 'backlog'):
        ctx.note_witness('C14.%s.%s' % (pre, w), w in seen)
    ctx.bounds[pre] = 'pools over workers 0..2 (each present or not), per worker one of 8 record shapes over two keys, every combination in which each key is on at most one worker; new job of one key; hint none / 0 / 1; hash symbolic; hand-over succeeding or failing'


def replay(pl, hint, router='KeyPersistentRouting'):
    import C14_exclusive_replay
    return C14_exclusive_replay.replay(pl, hint, router)
