"""C06 (wrapper slice): `ActorCell::{wait, stop_and_wait, kill_and_wait, drain_and_wait}` - the public coroutines around the waiter that the concurrent
instances check. The inner `ActorProperties::wait` is the environment (pending any number of polls within the budget, then complete - its behaviour against a
concurrent exit is the BMC part of C06); the timer may elapse at any poll that found it pending.

  * Ok is returned only after the inner wait completed (the wrappers add no way to "complete" early)
  * with a timeout, Err(Timeout) is returned only when the timer elapsed while the wait was still pending, and then nothing else is done to the actor
  * stop_and_wait sends exactly one stop (with the given reason) before waiting; kill_and_wait exactly one kill; drain_and_wait calls drain exactly once and
    waits only if the drain was accepted; plain wait sends nothing
  * a refused stop / drain is reported as an error without waiting"""
import re
import z3

import lifecycle as lc
import lifeprops as lp
import models_std
import C09
from exec import State, Outcome, Inconclusive, Unmodelled
from values import *


def new_interp(prog):
    I = C09.new_interp(prog)

    def m_wait(I, st, f, args, fr):
        st.emit('WAIT_NEW')
        return I.ret(st, Agg('InnerWaitFut', ()))
    I.override.append((re.compile(r'(^|::)ActorProperties::wait$'), m_wait))

    def m_stop(I, st, f, args, fr):
        okk = I.fresh_bool('stop_ok')
        st.emit('STOP_SENT', args[1])
        return [Outcome(s2, 'ret', models_std.ok(UNIT) if succ else models_std.err(Enum('MessagingErr', 'ChannelClosed', 1, ()))) for s2, succ in models_std.branch(I, st, okk)]
    I.override.append((re.compile(r'(^|::)ActorProperties::send_stop$'), m_stop))

    def m_sig(I, st, f, args, fr):
        okk = I.fresh_bool('signal_ok')
        st.emit('SIGNAL_SENT', args[1])
        return [Outcome(s2, 'ret', models_std.ok(UNIT) if succ else models_std.err(Enum('MessagingErr', 'ChannelClosed', 1, ()))) for s2, succ in models_std.branch(I, st, okk)]
    I.override.append((re.compile(r'(^|::)ActorProperties::send_signal$'), m_sig))

    def m_drain(I, st, f, args, fr):
        okk = I.fresh_bool('drain_ok')
        st.emit('DRAIN_CALLED')
        return [Outcome(s2, 'ret', models_std.ok(UNIT) if succ else models_std.err(Enum('MessagingErr', 'ChannelClosed', 1, ()))) for s2, succ in models_std.branch(I, st, okk)]
    I.override.append((re.compile(r'(^|::)ActorProperties::drain$'), m_drain))
    prev = I.hooks.get('poll_other')

    def poll_other(I, st, v, cell, path, cx, fr, prev=prev):
        if isinstance(v, Agg) and v.ty == 'InnerWaitFut':
            s2 = st.fork()
            st.emit('WAIT_DONE')
            s2.emit('WAIT_PENDING')
            return [Outcome(st, 'ret', models_std.ready(UNIT)), Outcome(s2, 'ret', models_std.PENDING)]
        return prev(I, st, v, cell, path, cx, fr) if prev else None
    I.hooks['poll_other'] = poll_other
    return I


def cellv(st):
    props = st.alloc(Opaque('ActorProperties', ident='the-props'))
    return Agg('ActorCell', (BoxV(props, 'Arc'),))


def check(ctx, prog):
    seen = set()
    fns = {'wait': 'ActorCell::wait', 'stop_and_wait': 'ActorCell::stop_and_wait', 'kill_and_wait': 'ActorCell::kill_and_wait', 'drain_and_wait': 'ActorCell::drain_and_wait'}
    for op, fn in fns.items():
        body = prog.find_fn(fn)
        if body is None:
            raise Inconclusive(fn + ' not found')
        ctx.encoded(prog, body)
        for with_timeout in (False, True):
            I = new_interp(prog)
            st = State()
            c = st.alloc(cellv(st))
            to = models_std.some(Agg('Duration', (I.fresh_int('timeout_nanos', 'u128', st),))) if with_timeout else models_std.NONE
            args = [Ref(c, ())] + ([models_std.some(Str('the-reason'))] if op == 'stop_and_wait' else []) + [to]
            st, coro = lc.make_coro(I, st, prog, fn, args)
            cc = st.alloc(coro)
            res = C09.drive(I, st, cc, 3)
            ctx.absorb(I)
            ctx.paths += len(res)
            for k, (s, kind, v, n) in enumerate(res):
                name = 'wrappers.%s.%s.path%d' % (op, 'timeout' if with_timeout else 'forever', k)
                cex = lambda m, op=op: replay(op)
                if kind == 'budget':
                    continue
                if kind != 'ready':
                    lp.record(ctx, name, s, {'no_panic': False}, 'C06.wrappers', on_cex=cex)
                    continue
                tr = s.trace
                stops = [e for e in tr if e[0] == 'STOP_SENT']
                sigs = [e for e in tr if e[0] == 'SIGNAL_SENT']
                drains = [e for e in tr if e[0] == 'DRAIN_CALLED']
                waits = [e for e in tr if e[0] == 'WAIT_NEW']
                done = [e for e in tr if e[0] == 'WAIT_DONE']
                elapsed = [e for e in tr if e[0] == 'ELAPSED']
                okk = isinstance(v, Enum) and v.variant == 'Ok'
                is_timeout = isinstance(v, Enum) and v.variant == 'Err' and (op == 'wait' or (isinstance(v.fields[0], Enum) and v.fields[0].variant == 'Timeout') or (isinstance(v.fields[0], Agg) and v.fields[0].ty in ('Elapsed', 'Timeout')))
                claims = {'ok_only_after_the_wait_completed': (not okk) or bool(done),
                          'timeout_only_when_the_timer_elapsed_with_the_wait_pending': (not is_timeout) or (with_timeout and bool(elapsed) and not done),
                          'at_most_one_wait_and_nothing_after_it': len(waits) <= 1 and (not waits or all(i < next(j for j, e in enumerate(tr) if e[0] == 'WAIT_NEW') for i, e in enumerate(tr) if e[0] in ('STOP_SENT', 'SIGNAL_SENT', 'DRAIN_CALLED')))}
                if op == 'wait':
                    claims['plain_wait_sends_nothing'] = not stops and not sigs and not drains
                elif op == 'stop_and_wait':
                    r = stops[0][1] if stops else None
                    claims['exactly_one_stop_with_the_given_reason_and_nothing_else'] = len(stops) == 1 and not sigs and not drains and isinstance(r, Enum) and r.variant == 'Some' and isinstance(r.fields[0], Str) and r.fields[0].s == 'the-reason'
                elif op == 'kill_and_wait':
                    claims['exactly_one_kill_and_nothing_else'] = len(sigs) == 1 and not stops and not drains and isinstance(sigs[0][1], Enum) and sigs[0][1].variant == 'Kill'
                else:
                    claims['exactly_one_drain_and_nothing_else'] = len(drains) == 1 and not stops and not sigs
                if okk:
                    seen.add(op + '.ok')
                if is_timeout:
                    seen.add('timeout')
                if isinstance(v, Enum) and v.variant == 'Err' and not is_timeout:
                    claims['a_refused_request_is_reported_without_waiting'] = not waits and op in ('stop_and_wait', 'drain_and_wait')
                    seen.add('refused')
                lp.record(ctx, name, s, claims, 'C06.wrappers', on_cex=cex)
    for w in ('wait.ok', 'stop_and_wait.ok', 'kill_and_wait.ok', 'drain_and_wait.ok', 'timeout', 'refused'):
        ctx.note_witness('C06.wrappers.' + w, w in seen)
    ctx.bounds['wrappers'] = 'the four wait wrappers with and without a timeout, the inner wait pending for up to 2 polls, the timer elapsing at any poll that found it pending, stop / kill / drain accepted or refused'


def replay(op):
    import C06_wrappers_replay
    return C06_wrappers_replay.replay(op)
