"""native replay for the C18 ready slice: ConnectionReady through the real NodeServer::handle with a recording subscriber"""
import native


def run_native(sessions, auth):
    out, _l, rc, err = native.run('node_ready', servers=[1 if s[1][0] else 0 for s in sessions], nonces=[s[1][1] for s in sessions], auth=list(auth), timeout=60)
    if rc != 0:
        raise RuntimeError('native node_ready failed: ' + err[-300:])
    return [int(x) for x in out.get('reported', '').split(',') if x]


def evaluate(sessions, auth):
    rep = run_native(sessions, auth)
    bad = []
    if any(x >= 1000 for x in rep):
        bad.append('a subscriber event other than the ready event of the named session: %s' % rep)
    rep = [x for x in rep if x < 1000]
    if any(x not in auth for x in rep):
        bad.append('a session that has not authenticated is reported ready: %s' % rep)
    au = [s[1] for s in sessions if s[0] in auth]
    tie_for_acceptor = len(au) > 1 and all(not s[0] for s in au) and len({s[1] for s in au}) == 1
    if auth and not rep:
        bad.append('nobody is reported ready although %s authenticated' % list(auth))
    if len(rep) > 1 and not (all(not dict((k, v) for k, v in sessions)[x][0] for x in rep) and len({dict((k, v) for k, v in sessions)[x][1] for x in rep}) == 1):
        bad.append('%d sessions to one peer are reported ready: %s' % (len(rep), rep))
    return bad, rep


def replay(rp):
    bad, rep = evaluate(rp['sessions'], rp['auth'])
    return {'replayed': bool(bad), 'detail': 'native ConnectionReady for every session of %s, authenticated %s -> reported %s ; %s' % (rp['sessions'], rp['auth'], rep, bad or 'no violation'),
            'replay': {'which': 'ready', 'rp': rp}}


def battery():
    bad, n = [], 0
    for sessions, auth in (([[1, [True, 7, 'peer']], [2, [True, 9, 'peer']]], [1, 2]), ([[1, [True, 0, 'peer']], [2, [True, 0, 'peer']]], [1, 2]), ([[1, [True, 7, 'peer']], [2, [False, 7, 'peer']]], [1, 2]),
                          ([[1, [False, 7, 'peer']], [2, [False, 9, 'peer']]], [1, 2]), ([[1, [True, 7, 'peer']], [2, [True, 9, 'peer']]], [2]), ([[1, [True, 7, 'peer']], [2, [True, 9, 'peer']]], []),
                          ([[1, [True, 9, 'peer']], [2, [True, 7, 'peer']], [3, [False, 7, 'peer']]], [1, 2, 3])):
        b, rep = evaluate(sessions, auth)
        n += 1
        bad += ['%s auth %s: %s' % (sessions, auth, x) for x in b]
    return bad, n
