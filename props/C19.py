"""C19 - Wire decoding is total, bounded and round-trips  (engine K part).

[core] engine K (Kani/CBMC), harnesses in /verif/kani/vk/src/{frame,codec}.rs:
  F   `ractor_cluster::net::session::checked_frame_length(len: u64, max: u64)` through the hook wrapper
      `verif_session_probe::verif_frame_len`: for ALL (len, max): Ok(n) <=> len <= max and len <= isize::MAX, and then n == len
      (`alloc::fmt::format` stubbed: the error paths only format a message).
  RT  `ractor::BytesConvertable` (feature `cluster`): from_bytes(into_bytes(v)) == v and the encoded width for EVERY value of
      u8..u128, i8..i128, f32/f64 (bit pattern), bool, char, (); for Vec<T> of every element type with 0..=N elements
      (N = 2 quick, 2 and 4 thorough) and String of 0..=N bytes of valid UTF-8.
  TOT `Vec<T>::from_bytes` for fixed-width numeric T on EVERY byte string of 0..=L bytes (L = 6 quick, u64/i64 9; L = 9
      thorough): no panic, len/size elements, re-encoding the result reproduces the complete-element prefix of the input
      (decoder is the inverse of the encoder; stated without fixing the byte order); Vec<bool>/Vec<u8>: one element per byte,
      the canonical bytes 1/0 decode to true/false; Vec<char>: the encoding of C chars followed by T < 4 stray bytes decodes
      to those chars.
What the code promises for malformed input was checked first: the trait documents "Panics are acceptable"; scalar from_bytes
indexes bytes[..size] (panics on short input), char/String/Vec<char> unwrap a validity check. None of that is claimed.
Outside the claim (other parts of C19, engine M / [ext]): Job metadata, handle_message, derive-generated decoders, the
fragmenting reader; vectors longer than N, buffers longer than L.
"""
import json
import os
import sys
import threading

sys.path.insert(0, os.path.join(os.path.dirname(os.path.dirname(os.path.abspath(__file__))), 'kani'))
import kanirun   # noqa: E402
import native    # noqa: E402

ISIZE_MAX = (1 << 63) - 1
U64 = (1 << 64) - 1
INTS = ['u8', 'u16', 'u32', 'u64', 'u128', 'i8', 'i16', 'i32', 'i64', 'i128']
ELEMS = INTS + ['f32', 'f64', 'bool', 'char']
SIZE = {'u8': 1, 'i8': 1, 'u16': 2, 'i16': 2, 'u32': 4, 'i32': 4, 'f32': 4, 'char': 4, 'u64': 8, 'i64': 8, 'f64': 8, 'u128': 16, 'i128': 16, 'bool': 1}

# harness -> (kind, type, bound)
SPEC = {'frame::frame_len_all_pairs': ('frame', None, None), 'codec::rt_bool_char_unit': ('rt_bcu', None, None),
        'codec::rts2': ('rt_string', 'string', 2), 'codec::rts4': ('rt_string', 'string', 4),
        'codec::tot6_bool_u8': ('tot_bool_u8', None, 6), 'codec::tot9_bool_u8': ('tot_bool_u8', None, 9),
        'codec::tot6_char': ('tot_char', (1, 2), None), 'codec::tot11_char': ('tot_char', (2, 3), None)}
for _t in INTS + ['f32', 'f64']:
    SPEC['codec::rt_' + _t] = ('rt_scalar', _t, None)
for _t in ELEMS:
    SPEC['codec::rtv2_' + _t] = ('rt_vec', _t, 2)
    SPEC['codec::rtv4_' + _t] = ('rt_vec', _t, 4)
for _t in ['u16', 'u32', 'u64', 'i16', 'i32', 'i64']:
    SPEC['codec::tot6_' + _t] = ('tot_vec', _t, 6)
    SPEC['codec::tot9_' + _t] = ('tot_vec', _t, 9)

QUICK = (['frame::frame_len_all_pairs', 'codec::rt_bool_char_unit', 'codec::rts2', 'codec::tot6_bool_u8', 'codec::tot6_char']
         + ['codec::rt_' + t for t in INTS + ['f32', 'f64']]
         + ['codec::rtv2_' + t for t in ELEMS]
         + ['codec::tot6_' + t for t in ['u16', 'u32', 'i16', 'i32']] + ['codec::tot9_u64', 'codec::tot9_i64'])
THOROUGH = sorted(SPEC)


# ---------------------------------------------------------------------------------------------- native side + oracles
def codec(release=False, **kw):
    out, _, rc, err = native.run('codec', release=release, **kw)
    if rc != 0:
        raise RuntimeError('native codec failed: ' + err[-300:])
    return out


def ints(s):
    return [int(x) for x in (s or '').split(',') if x]


def evaluate(scn, release=False):
    """re-evaluates the harness oracle on one concrete input through the real build; returns (violated clause or None, observation)"""
    k = scn['kind']
    if k == 'frame':
        out, _, rc, err = native.run('frame_len', release=release, len=scn['len'], max=scn['max'])
        r = None if out.get('result') == 'none' else int(out['result'])
        fits = scn['len'] <= scn['max'] and scn['len'] <= ISIZE_MAX
        bad = None
        if r is None and fits:
            bad = 'frame within the limit rejected'
        elif r is not None and not fits:
            bad = 'accepted frame exceeds the limit or isize::MAX'
        elif r is not None and r != scn['len']:
            bad = 'accepted length differs from the wire length'
        return bad, {'result': r}
    if k in ('rt_scalar', 'rt_vec', 'rt_string'):
        ty = scn['ty']
        vals = scn['values']
        out = codec(release, ty=ty, op='rt', values=vals)
        if out.get('panicked') == 'true':
            return 'panic during encode/decode of a valid value', out
        size = 1 if ty == 'string' else SIZE[ty.replace('vec_', '')]
        if len(ints(out.get('bytes'))) != len(vals) * size:
            return 'encoded length', out
        if ints(out.get('back')) != vals:
            return 'round-trip', out
        return None, out
    if k == 'tot_vec':
        ty, data = scn['ty'], scn['bytes']
        size = SIZE[ty]
        out = codec(release, ty='vec_' + ty, op='decode', bytes=data)
        if out.get('panicked') == 'true':
            return 'decoder panicked on an arbitrary byte string', out
        back = ints(out.get('back'))
        if len(back) != len(data) // size:
            return 'decoded element count', out
        out2 = codec(release, ty='vec_' + ty, op='rt', values=back)
        if out2.get('panicked') == 'true' or ints(out2.get('bytes')) != data[:(len(data) // size) * size]:
            return 're-encoding the decoded elements does not reproduce the input bytes', {'decode': out, 'reencode': out2}
        return None, out
    if k == 'tot_bool_u8':
        data = scn['bytes']
        ob = codec(release, ty='vec_bool', op='decode', bytes=data)
        ou = codec(release, ty='vec_u8', op='decode', bytes=data)
        if ob.get('panicked') == 'true' or ou.get('panicked') == 'true':
            return 'decoder panicked on an arbitrary byte string', {'bool': ob, 'u8': ou}
        bb, uu = ints(ob.get('back')), ints(ou.get('back'))
        if len(bb) != len(data) or uu != data:
            return 'one element per byte', {'bool': ob, 'u8': ou}
        for i, x in enumerate(data):
            if (x == 1 and bb[i] != 1) or (x == 0 and bb[i] != 0):
                return 'canonical bool byte decoded wrongly', {'bool': ob}
        return None, {'bool': ob, 'u8': ou}
    if k == 'tot_char':
        chars, trail = scn['chars'], scn['trail']
        enc = codec(release, ty='vec_char', op='rt', values=chars)
        if enc.get('panicked') == 'true' or len(ints(enc.get('bytes'))) != 4 * len(chars):
            return 'encoding of valid chars', enc
        out = codec(release, ty='vec_char', op='decode', bytes=ints(enc.get('bytes')) + trail)
        if out.get('panicked') == 'true':
            return 'decoder panicked on valid chars followed by stray bytes', out
        if ints(out.get('back')) != chars:
            return 'chars do not survive trailing bytes', out
        return None, out
    if k == 'rt_bcu':
        for ty, v in (('bool', scn['b']), ('char', scn['c'])):
            out = codec(release, ty=ty, op='rt', values=[v])
            if out.get('panicked') == 'true' or ints(out.get('back')) != [v] or len(ints(out.get('bytes'))) != SIZE[ty]:
                return ty + ' round-trip', out
        out = codec(release, ty='unit', op='rt', values=[])
        if out.get('panicked') == 'true' or ints(out.get('bytes')):
            return 'unit round-trip', out
        return None, out
    raise RuntimeError('unknown scenario kind %r' % k)


def replay_both(scn):
    bad_dev, obs = evaluate(scn, release=False)
    try:
        bad_rel, _ = evaluate(scn, release=True)
    except Exception as e:   # noqa
        bad_rel = 'release replay failed: %r' % (e,)
    return {'replayed': bool(bad_dev), 'detail': 'native replay of %s: violated dev=%s release=%s; observed %s' % (json.dumps(scn), bad_dev, bad_rel, json.dumps(obs)),
            'replay': dict(scn, violated=bad_dev, violated_release=bad_rel, observed=obs)}


# ---------------------------------------------------------------------------------------------- counterexample extraction
def valid_char(u):
    return u < 0x110000 and not (0xD800 <= u <= 0xDFFF)


def decode_playback(harness, test):
    """concrete values in the order of the harness' kani::any() calls -> scenario; None when the layout does not match"""
    kind, ty, n = SPEC[harness]
    v, w = test['vals'], test['widths']
    src = 'kani concrete playback of %s (%s)' % (harness, test['check'])
    if kind == 'frame':
        return {'kind': 'frame', 'len': v[0], 'max': v[1], 'source': src} if w == [8, 8] else None
    if kind == 'rt_scalar':
        return {'kind': 'rt_scalar', 'ty': ty, 'values': [v[0]], 'source': src} if w == [SIZE[ty]] else None
    if kind == 'rt_bcu':
        return {'kind': 'rt_bcu', 'b': v[0] & 1, 'c': v[1], 'source': src} if w == [1, 4] and valid_char(v[1]) else None
    if kind == 'rt_vec':
        if w != [SIZE[ty]] * n + [8] or v[n] > n:
            return None
        vals = v[:v[n]]
        if ty == 'bool':
            vals = [x & 1 for x in vals]
        if ty == 'char' and not all(valid_char(x) for x in vals):
            return None
        return {'kind': 'rt_vec', 'ty': 'vec_' + ty, 'values': vals, 'source': src}
    if kind == 'rt_string':
        if w != [1] * n + [8] or v[n] > n:
            return None
        try:
            bytes(v[:v[n]]).decode('utf-8')
        except UnicodeDecodeError:
            return None
        return {'kind': 'rt_string', 'ty': 'string', 'values': v[:v[n]], 'source': src}
    if kind == 'tot_vec':
        return {'kind': 'tot_vec', 'ty': ty, 'bytes': v[:v[n]], 'source': src} if w == [1] * n + [8] and v[n] <= n else None
    if kind == 'tot_bool_u8':
        return {'kind': 'tot_bool_u8', 'bytes': v[:v[n]], 'source': src} if w == [1] * n + [8] and v[n] <= n else None
    if kind == 'tot_char':
        mc, mt = ty
        if w != [4] * mc + [1] * mt + [8, 8] or v[mc + mt] > mc or v[mc + mt + 1] > mt:
            return None
        chars = v[:v[mc + mt]]
        if not all(valid_char(x) for x in chars):
            return None
        return {'kind': 'tot_char', 'chars': chars, 'trail': v[mc:mc + v[mc + mt + 1]], 'source': src}
    return None


def probe_scenarios(harness):
    """deterministic boundary inputs of the harness' shape (fallback when a Kani trace cannot be concretised, and written-out samples)"""
    kind, ty, n = SPEC[harness]
    if kind == 'frame':
        pts = [0, 1, 5, ISIZE_MAX - 1, ISIZE_MAX, ISIZE_MAX + 1, U64 - 1, U64]
        return [{'kind': 'frame', 'len': a, 'max': b} for a in pts for b in pts]
    pat = {1: [0, 1, 0x7F, 0x80, 0xFF], 2: [0, 1, 0x0102, 0x8000, 0xFFFE], 4: [0, 1, 0x01020304, 0x80000000, 0xFFFFFFFE],
           8: [0, 1, 0x0102030405060708, 1 << 63, U64 - 1], 16: [0, 1, 0x0102030405060708090A0B0C0D0E0F10, 1 << 127, (1 << 128) - 2]}
    if kind == 'rt_scalar':
        return [{'kind': 'rt_scalar', 'ty': ty, 'values': [x]} for x in pat[SIZE[ty]]]
    if kind == 'rt_bcu':
        return [{'kind': 'rt_bcu', 'b': b, 'c': c} for b in (0, 1) for c in (0x41, 0xE9, 0x20AC, 0x1F600, 0x10FFFF)]
    if kind == 'rt_vec':
        base = {'bool': [1, 0, 1, 1], 'char': [0x41, 0x1F600, 0xE9, 0x10FFFF]}.get(ty) or (pat[SIZE[ty]][1:] + pat[SIZE[ty]][:1])
        return [{'kind': 'rt_vec', 'ty': 'vec_' + ty, 'values': base[:k]} for k in range(n + 1)]
    if kind == 'rt_string':
        return [{'kind': 'rt_string', 'ty': 'string', 'values': list(s.encode())[:n]} for s in ('', 'a', 'ab', 'é', 'aéb', '€', '\U0001F600') if len(s.encode()) <= n]
    seq = [1, 2, 3, 4, 5, 6, 7, 8, 9]
    if kind == 'tot_vec':
        return [{'kind': 'tot_vec', 'ty': ty, 'bytes': seq[:k]} for k in range(n + 1)] + [{'kind': 'tot_vec', 'ty': ty, 'bytes': [0xFF, 0x80, 0, 1, 0xFE, 0x7F, 2, 3, 4][:k]} for k in range(1, n + 1)]
    if kind == 'tot_bool_u8':
        return [{'kind': 'tot_bool_u8', 'bytes': [1, 0, 2, 255, 1, 1, 0, 0, 1][:k]} for k in range(n + 1)]
    if kind == 'tot_char':
        mc, mt = ty
        return [{'kind': 'tot_char', 'chars': [0x1F600, 0x41][:c], 'trail': [0xD8, 0, 0xFF][:t]} for c in range(mc + 1) for t in range(mt + 1)]
    return []


MAX_PLAYBACKS = 4


def concretise_and_replay(ctx, hr):
    """a failed Kani harness is only a candidate: obtain concrete inputs and reproduce on the real build.
    1. deterministic boundary vectors of the harness' shape through the native build (milliseconds);
    2. otherwise Kani's concrete playback (`-Z concrete-playback --concrete-playback=print`, 10-90 s per harness; at most
       MAX_PLAYBACKS per run - a change in a macro body fails a dozen harnesses at once) supplies the solver's values."""
    notes = []
    res = {'replayed': False, 'detail': 'no concrete values obtained'}
    for s in probe_scenarios(hr.name):
        bad, _ = evaluate(s)
        if bad:
            s['source'] = 'deterministic boundary vector after kani failure of ' + hr.name
            res = replay_both(s)
            if res['replayed']:
                notes.append('concretised by a boundary vector')
                break
    if not res['replayed']:
        used = ctx.extra.get('kani_playbacks', 0)
        if used >= MAX_PLAYBACKS:
            notes.append('playback budget (%d per run) exhausted' % MAX_PLAYBACKS)
        else:
            ctx.extra['kani_playbacks'] = used + 1
            scns = []
            try:
                tests, pmeta = kanirun.playback(hr.name, harness_timeout_s=600 if ctx.tier == 'quick' else 1800, tag='C19')
                notes.append('kani playback %ss, %d tests' % (pmeta['wall_s'], len(tests)))
                for t in tests:
                    if t['kind'] == 'cover':
                        continue
                    s = decode_playback(hr.name, t)
                    if s is None:
                        notes.append('playback values for "%s" do not match the harness layout: widths %s' % (t['check'], t['widths']))
                    else:
                        scns.append(s)
            except Exception as e:   # noqa
                notes.append('playback failed: %r' % (e,))
            for s in scns:
                res = replay_both(s)
                if res['replayed']:
                    break
    res['detail'] = 'kani failed checks %s; %s; %s' % (sorted({c['description'] for c in hr.failed})[:3], '; '.join(notes), res.get('detail'))
    return res


# ---------------------------------------------------------------------------------------------- driver
def run(ctx):
    tier = 'thorough' if ctx.tier == 'thorough' else 'quick'
    harnesses = THOROUGH if tier == 'thorough' else QUICK
    ctx.extra['rule'] = ('engine K: one evaluation = one CBMC property (safety check, assertion or cover) decided by the SAT back end inside a harness run, '
                         'plus one per concrete boundary vector pushed through the native build; every harness quantifies over ALL values / byte strings of its shape. '
                         'distinct_nontrivial = kani::cover! properties reported SATISFIED (distinct interesting input regions shown reachable).')
    ctx.bounds.update({
        'frame_length': 'all (u64 length, u64 max) pairs', 'scalars': 'every value of u8..u128, i8..i128, f32, f64 (bit patterns incl. NaN), bool, char, ()',
        'vector_elements_N': '0..=2' if tier == 'quick' else '0..=2 and 0..=4', 'vector_element_types': ELEMS,
        'string_bytes_N': '0..=2 (valid UTF-8)' if tier == 'quick' else '0..=4 (valid UTF-8)',
        'decode_totality_L': 'every byte string of 0..=6 bytes (u64/i64: 0..=9)' if tier == 'quick' else 'every byte string of 0..=9 bytes',
        'lengths': 'symbolic; the harness dispatches on the symbolic length to a body instantiated with that constant (symbolic-size allocations are 20-50x slower)',
        'unwind': 'scalars 4; vectors N = 2: 5, N = 4: 7; strings 5 / 7; byte strings L = 6: 10, L = 9: 12; chars 6 / 7 (>= longest loop + 2); unwinding assertions on', 'kani_default_checks': 'on (panics, overflow, memory safety, assertion reachability)',
        'outside': 'vectors longer than N / byte strings longer than L; from_bytes of scalars, char, String, Vec<char> on malformed input (panics are the documented contract '
                   '"Panics are acceptable"); usize/isize (deliberately not implemented); feature blanket_serde; Job metadata, handle_message, derive decoders and the '
                   'fragmenting reader (engine M parts of C19)'})
    ctx.assumptions += [
        'Kani 0.68 / CBMC 6.11 translate the MIR of the code under test and of the std Vec / slice / to_be_bytes code it uses faithfully (bit-precise, sequential)',
        'alloc::fmt::format is stubbed by a function returning an empty String in the frame-length harness (the message text does not influence the result)',
        'hook wrapper /verif/hooks/cluster_session.rs only flattens io::Result<usize> to Option<usize>',
        'target x86_64 (usize = u64, isize::MAX = 2^63 - 1); ractor built with default-features = false, features = [cluster, tokio_runtime] (the non-serde impls)',
        'decode totality is stated byte-order agnostically: count = len / size and re-encoding reproduces the complete-element prefix; which byte order is on the wire is not part of the property',
        'Vec<bool>: only the canonical bytes 0 / 1 are pinned down; what other bytes decode to is not part of the property',
    ]
    for rel, fn, disp in (('ractor_cluster/src/net/session.rs', 'checked_frame_length', 'ractor_cluster::net::session::checked_frame_length'),):
        f = kanirun.describe_fn(rel, fn, disp)
        if f is None:
            ctx.inconclusive.append('%s not found in %s (renamed or moved?)' % (fn, rel))
            return
        ctx.functions.append(f)
    ser = os.path.join(kanirun.REPO, 'ractor/src/serialization.rs')
    if not os.path.exists(ser):
        ctx.inconclusive.append('ractor/src/serialization.rs not found')
        return
    import hashlib
    ctx.functions.append({'name': 'ractor::serialization::impls::<impl BytesConvertable for {scalars, Vec<_>, String}>::{into_bytes, from_bytes}',
                          'file': 'ractor/src/serialization.rs', 'source_sha256': hashlib.sha256(open(ser, 'rb').read()).hexdigest()[:16]})
    ctx.samples.append({'oracle': __doc__.split('[core]')[1].split('Outside the claim')[0].strip()})

    box = {}

    def kani_job():
        try:
            box['res'] = kanirun.verify(harnesses, jobs=14, harness_timeout_s=300 if tier == 'quick' else 1500,
                                        wall_timeout_s=600 if tier == 'quick' else 2700, tag='C19', stubbing=True)
        except Exception as e:   # noqa
            box['exc'] = e
    th = threading.Thread(target=kani_job)
    th.start()

    # meanwhile: the boundary vectors of every selected harness through the real build (written-out samples; the replay path is exercised on every run)
    native_bad = []
    try:
        native.build()
        n_vec = 0
        for h in harnesses:
            for s in probe_scenarios(h):
                bad, obs = evaluate(s)
                n_vec += 1
                if bad:
                    native_bad.append((h, s))
                elif len(ctx.samples) < 7 and s['kind'] in ('tot_vec', 'rt_vec', 'frame', 'tot_char') and n_vec % 7 == 0:
                    ctx.samples.append({'case': s, 'observed_on_native_build': obs, 'violated': None})
        ctx.translator_validated += n_vec
        ctx.queries['unsat'] += n_vec - len(native_bad)
        ctx.queries['sat'] += len(native_bad)
        ctx.extra['native_boundary_vectors'] = n_vec
    except Exception as e:   # noqa
        ctx.inconclusive.append('native replay crate unavailable: %s' % str(e)[-500:])
    # engine M: how a frame is read off the stream (read_n_bytes / read_network_message) for every split of the stream into reads - runs while Kani works
    try:
        from exec import Inconclusive, Unmodelled
        import cluster
        import C19_stream
        try:
            C19_stream.check(ctx, cluster.load()[0])
        except (Inconclusive, Unmodelled) as e:
            ctx.inconclusive.append('C19 stream slice: %s: %s' % (type(e).__name__, str(e)[:300]))
        # engine M: an undecodable serialized message costs the receiving actor nothing (one message-loop iteration, both runtimes in the thorough tier)
        import C19_drop
        try:
            C19_drop.check(ctx, tier)
        except (Inconclusive, Unmodelled) as e:
            ctx.inconclusive.append('C19 drop slice: %s: %s' % (type(e).__name__, str(e)[:300]))
        # engine M: the configured frame limit reaches the sessions the node server opens (both ways of opening a connection) + native end-to-end observation
        import C19_limit
        try:
            C19_limit.check(ctx, cluster.load()[0])
            res = C19_limit.run_native()
            ctx.translator_validated += len(res)
            ctx.extra['limit_native'] = res
            badl = [r for r in res if r['violated']]
            if badl:
                rec = {'name': 'limit.native_battery', 'group': 'C19.limit', 'solver_s': 0.0, 'status': 'cex'}
                ctx.obligations.append(rec)
                ctx.handle_cex(rec['name'], 'C19.limit.native', None, lambda _m: {'replayed': True, 'detail': 'real node with a small frame limit, external transport: %s' % badl, 'replay': {'which': 'limit'}}, rec)
        except (Inconclusive, Unmodelled) as e:
            ctx.inconclusive.append('C19 limit slice: %s: %s' % (type(e).__name__, str(e)[:300]))
        except RuntimeError as e:
            ctx.inconclusive.append('C19 limit native scenario unavailable: %s' % str(e)[-300:])
        # engine M: job metadata of serialized factory messages
        import C19_jobmeta
        try:
            C19_jobmeta.check(ctx, tier)
        except (Inconclusive, Unmodelled) as e:
            ctx.inconclusive.append('C19 job metadata slice: %s: %s' % (type(e).__name__, str(e)[:300]))
        # engine M: the decoder / encoder generated by #[derive(RactorClusterMessage)] for a probe enum with every variant shape
        import C19_derive
        try:
            C19_derive.check(ctx, tier)
        except (Inconclusive, Unmodelled) as e:
            ctx.inconclusive.append('C19 derive slice: %s: %s' % (type(e).__name__, str(e)[:300]))
    except ImportError as e:
        ctx.inconclusive.append('C19 stream slice unavailable: %s' % e)
    th.join()
    if 'exc' in box:
        raise box['exc']
    results, meta = box['res']
    ctx.extra['kani'] = {k: meta.get(k) for k in ('cmd', 'rustflags', 'kani', 'cbmc', 'build_s', 'wall_s', 'harness_timeout_s', 'mem_limit_kb_per_process')}
    ctx.extra['checker_cmd'] = meta['cmd']
    failed = kanirun.record(ctx, results, meta, group='wire_codec')
    ctx.samples.append({'harness_source': ['/verif/kani/vk/src/frame.rs', '/verif/kani/vk/src/codec.rs'], 'selected': harnesses,
                        'frame_harness_text': kanirun.harness_source('frame', harnesses)})
    for name in harnesses[:4]:
        ctx.samples.append(results[name].as_dict())
    ctx.extra['harness_results'] = [results[h].as_dict() for h in harnesses]

    for hr, rec in failed:
        key = 'frame_length' if hr.name.startswith('frame::') else 'codec.' + SPEC[hr.name][0]
        ctx.handle_cex(hr.name, key, None, lambda _m, hr=hr: concretise_and_replay(ctx, hr), rec)
    flagged = {hr.name for hr, _ in failed}
    for h, s in native_bad:
        if h in flagged:
            continue
        # the real build violates the oracle on a boundary vector of a harness Kani did not flag: replayed ground truth decides
        flagged.add(h)
        rec = {'name': 'native.' + h, 'group': 'wire_codec', 'solver_s': 0.0, 'status': 'cex'}
        s = dict(s, source='deterministic boundary vector')
        ctx.handle_cex(rec['name'], 'codec.native', None, lambda _m, s=s: replay_both(s), rec)
        ctx.obligations.append(rec)


def replay_file(path):
    d = json.load(open(path))
    rp = d.get('replay') or {}
    if rp.get('which') in ('derive_decode', 'derive_roundtrip', 'derive_battery'):
        import C19_derive_replay
        if rp['which'] == 'derive_decode':
            bad, out = C19_derive_replay.evaluate(rp['kind'], rp['tag'], rp['args'])
            for t in list(C19_derive_replay.KINDS) + ['Nope']:
                bad += C19_derive_replay.evaluate(rp['kind'], t, rp['args'])[0]
        else:
            bad, _n = C19_derive_replay.battery()
        print('native generated decoder / encoder:', bad)
        return 1 if bad else 0
    if rp.get('which') == 'limit' or rp.get('scenario') == 'frame_limit':
        import C19_limit
        r = C19_limit.replay()
        print(r['detail'])
        return 1 if r['replayed'] else 0
    if rp.get('which') == 'drop':
        import C19_drop_replay
        r = C19_drop_replay.replay(rp['decoder'], rp.get('runtime'))
        print(r['detail'])
        return 1 if r['replayed'] else 0
    if rp.get('which') == 'jobmeta':
        import C19_jobmeta_replay
        bad, _n = C19_jobmeta_replay.battery()
        if rp.get('meta') is not None:
            bad += C19_jobmeta_replay.evaluate(rp['meta'])[0]
        print('native job metadata decoding:', bad)
        return 1 if bad else 0
    if rp.get('which') == 'reader_actor':
        import C19_stream_replay
        r = C19_stream_replay.replay_reader()
        print(r['detail'])
        return 1 if r['replayed'] else 0
    if rp.get('which') == 'stream':
        import C19_stream_replay
        r = C19_stream_replay.replay(rp['want'], tuple(rp['reads']))
        print(r['detail'])
        return 1 if r['replayed'] else 0
    if 'kind' not in rp:
        print('unknown replay scenario')
        return 2
    scn = {k: v for k, v in rp.items() if k not in ('violated', 'violated_release', 'observed')}
    bad, obs = evaluate(scn)
    print('native replay of', json.dumps(scn), '->', json.dumps(obs), 'violated:', bad)
    return 1 if bad else 0
