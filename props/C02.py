"""C02 - Mailbox delivers accepted messages once, in order (concurrent slice + the TypeId gate)."""
import os
import z3

import conc
import mailbox as mb
import models_std
from exec import Inconclusive, State, Outcome
from values import *


def run(ctx):
    prog, info = mb.load()
    for fn in (mb.SEND, mb.SEND_SERIALIZED, 'ActorProperties::send_message::<TMessage>', 'ActorProperties::try_admit_message', '<MessageAdmission as Drop>::drop',
               mb.SET_STATUS, mb.PORTS_DROP, 'ActorProperties::get_status'):
        b = prog.find_fn(fn)
        if b is None:
            raise Inconclusive('function not found in dump: ' + fn)
        ctx.encoded(prog, b)
    quick = ctx.tier == 'quick'
    ctx.bounds.update({
        'memory_model': 'sequential consistency at the granularity of the modelled operations',
        'schedules': 'R round-robin rounds (every schedule with at most R-1 context switches, and every schedule expressible as R passes)',
        'outside': 'more rounds / threads / messages than instantiated; CAS retries beyond the unroll bound; queue capacity of the model; tokio channel internals '
                   '(FIFO + "send fails iff receiver closed" contract trusted)'})
    ctx.assumptions += ['tokio unbounded mpsc: send fails returning the same value iff the receiver is closed/dropped, otherwise appends (FIFO)',
                        'the exiting actor is represented by ActorProperties::set_status(Stopping) followed by the real <ActorPortSet as Drop>::drop body (close + flush)',
                        'user Message::box_message/from_boxed are opaque wrappers of the same message token']
    # name, senders, msgs, drainers, stoppers, rounds, unroll, spurious
    if quick:
        insts = [('s2x1_stop_r2', 2, 1, 0, 1, 2, 2, False), ('s1x2_stop_r2', 1, 2, 0, 1, 2, 2, False), ('s2x1_nostop_r2', 2, 1, 0, 0, 2, 2, False), ('s1x1_d1_r2', 1, 1, 1, 0, 2, 2, False), ('s2x1_d1_r2', 2, 1, 1, 0, 2, 2, False), ('s2x1_stop_r2_ser', 2, 1, 0, 1, 2, 2, False)]
    else:
        insts = [('s2x1_stop_r2', 2, 1, 0, 1, 2, 2, False), ('s1x2_stop_r2', 1, 2, 0, 1, 2, 2, False), ('s2x1_nostop_r2', 2, 1, 0, 0, 2, 2, False),
                 ('s2x2_nostop_r2', 2, 2, 0, 0, 2, 2, False), ('s2x1_d1_stop_r2', 2, 1, 1, 1, 2, 2, False), ('s3x1_stop_r2', 3, 1, 0, 1, 2, 2, False),
                 ('s2x1_stop_r3_u3', 2, 1, 0, 1, 3, 3, False), ('s2x1_stop_r2_spurious', 2, 1, 0, 1, 2, 3, True), ('s2x1_stop_r2_ser', 2, 1, 0, 1, 2, 2, False), ('s1x2_stop_r2_ser', 1, 2, 0, 1, 2, 2, False)]
    if os.environ.get('VERIF_C02_INST'):
        a = os.environ['VERIF_C02_INST'].split(',')
        insts = [(os.environ['VERIF_C02_INST'],) + tuple(int(x) for x in a[:6]) + (len(a) > 6 and a[6] == '1',)]
    ctx.bounds['instances'] = [dict(zip(('name', 'senders', 'msgs', 'drainers', 'stoppers', 'rounds', 'cas_unroll', 'spurious'), i)) for i in insts]
    type_gate(ctx, prog)
    ctx.parallel(job, insts)
    # the public wrappers hand the message over once and return the mailbox's verdict unchanged
    import C02_wrappers
    import lifecycle as lc_
    C02_wrappers.check(ctx, lc_.load()[0])
    # dequeue side: one handler invocation per dequeued message (sequential, over the real process_message / handle_message of each runtime)
    import C02_dequeue
    import C02_dequeue_replay
    import lifecycle as lc
    lprog = lc.load()[0]
    dq = C02_dequeue.instances(ctx.tier)
    for rt in sorted({i[0] for i in dq}):
        for fn in ('process_message', 'handle_message'):
            b = lprog.find_fn('%s::<TActor>::%s' % (rt, fn))
            if b is None:
                raise Inconclusive('function not found in dump: %s::%s' % (rt, fn))
            ctx.encoded(lprog, b)
    ctx.bounds['dequeue'] = {'instances': [dict(zip(('runtime', 'poll_budget'), i)) for i in dq],
                             'scope': 'one process_message iteration from an arbitrary loop-head state: ports symbolic (any of Drain marker / plain message / serialized message at the head), '
                                      'callbacks opaque (Pending within the poll budget, Ok, Err, panic), kill possible at every poll; message identity = the token of the dequeued queue entry',
                             'outside': 'user from_boxed implementations that fabricate a different message (opaque: returns the same token, fails or panics)'}
    ctx.parallel(C02_dequeue.job, dq)
    try:
        res = C02_dequeue_replay.battery()
        ctx.translator_validated += len(res)
        bad = [r for r in res if r['violated']]
        ctx.extra['dequeue_native_battery'] = res
        if bad:
            rec = {'name': 'dequeue.native_battery', 'group': 'C02.dequeue', 'solver_s': 0.0, 'status': 'cex'}
            ctx.obligations.append(rec)
            ctx.handle_cex(rec['name'], 'C02.dequeue.native', None, lambda _m: {'replayed': True, 'detail': 'real actor with sender threads: %s' % bad[:3], 'replay': {'which': 'dequeue'}}, rec)
    except RuntimeError as e:
        ctx.inconclusive.append('dequeue native battery unavailable: %s' % str(e)[-300:])


def job(sub, name, ns, nm, nd, nst, R, U, spurious):
    prog, info = mb.load()
    mb.run_instance(sub, 'C02', prog, name, ns, nm, nd, nst, R, U, spurious=spurious, serialized=(ns - 1,) if name.endswith('_ser') else ())


def type_gate(ctx, prog):
    """send_message: a wrongly typed message to a local actor is rejected before any shared operation; everything else is
    delegated unchanged to send_message_unchecked"""
    body = prog.find_fn('ActorProperties::send_message::<TMessage>')
    for local in (True, False):
        I = mb.new_interp(prog, 2)
        same = z3.Bool('same_type')

        def opaque_eq(I, st, a, b):
            if isinstance(a, Opaque) and isinstance(b, Opaque) and 'typeid' in (a.tag, b.tag):
                return same
            return None
        I.hooks['opaque_eq'] = opaque_eq

        @I.model(r'^TypeId::of::<.*>$|^std::any::TypeId::of', 'TypeId::of (opaque)')
        def m_typeid(I, st, f, args, fr):
            return I.ret(st, Opaque('typeid', ident='typeid:' + f))
        delegated = []

        def unchecked(I, st, f, args, fr):
            st.emit('DELEGATED', args[1])
            delegated.append(1)
            return I.ret(st, models_std.ok(UNIT))
        import re
        I.override.append((re.compile(r'send_message_unchecked'), unchecked))
        st = State()
        pv = mb.props_value(prog, I)
        sd = prog.crate.struct('ActorProperties')
        fields = list(pv.fields)
        fields[sd['fields'].index('type_id')] = Opaque('typeid', ident='actor-type')
        if not local:
            fields[sd['fields'].index('id')] = Enum('ActorId', 'Remote', 1, (I.mk_int(1, 'u64'), I.mk_int(9, 'u64')))
        cell = st.alloc(Agg('ActorProperties', fields))
        msg = Opaque('msg', ident=77)
        outs = I.run_body(st, body, [Ref(cell, ()), msg])
        ctx.absorb(I)
        n_rej = n_del = 0
        for n, o in enumerate(outs):
            if o.kind != 'ret':
                ctx.prove('type_gate.%s.path%d.no_panic' % ('local' if local else 'remote', n), o.st.pc, z3.BoolVal(False), group='type_gate.no_panic')
                continue
            touched = [e for e in o.st.trace if e[0] in ('EV', 'OP')]
            dele = [e for e in o.st.trace if e[0] == 'DELEGATED']
            is_invalid = isinstance(o.val, Enum) and o.val.variant == 'Err' and isinstance(o.val.fields[0], Enum) and o.val.fields[0].variant == 'InvalidActorType'
            tag = 'type_gate.%s.path%d' % ('local' if local else 'remote', n)
            if is_invalid:
                n_rej += 1
                ctx.prove(tag + '.rejected_only_when_local_and_wrong_type', o.st.pc, z3.And(z3.BoolVal(local), z3.Not(same)), group='type_gate.reject_condition', key='C02.type_gate', on_cex=lambda m, local=local, same=same: cex_typegate(m, local, same),
                          sample={'function': body.name, 'claim': 'Err(InvalidActorType) only for a local actor with a different TypeId'})
                ctx.prove(tag + '.rejected_without_touching_the_actor', o.st.pc, z3.BoolVal(len(touched) == 0 and len(dele) == 0), group='type_gate.no_side_effect', key='C02.type_gate', on_cex=lambda m, local=local, same=same: cex_typegate(m, local, same))
            else:
                n_del += 1
                ctx.prove(tag + '.delegated_iff_type_ok_or_remote', o.st.pc, z3.Or(z3.BoolVal(not local), same), group='type_gate.accept_condition', key='C02.type_gate', on_cex=lambda m, local=local, same=same: cex_typegate(m, local, same))
                ctx.prove(tag + '.delegates_the_same_message_once', o.st.pc, z3.BoolVal(len(dele) == 1 and dele[0][1] is msg), group='type_gate.delegation', key='C02.type_gate', on_cex=lambda m, local=local, same=same: cex_typegate(m, local, same))
        if local:
            ctx.note_witness('type_gate.local.reject_path_exists', n_rej > 0)
        ctx.note_witness('type_gate.%s.delegate_path_exists' % ('local' if local else 'remote'), n_del > 0)


def native_typegate(local, wrong):
    import native
    out, _, rc, err = native.run('typegate', remote=0 if local else 1, wrong=1 if wrong else 0)
    if rc != 0:
        raise RuntimeError('native typegate failed: ' + err[-300:])
    return {k: int(v) for k, v in out.items()}


def cex_typegate(model, local, same):
    """replay: the concrete (local, type matches?) case on the real build; expected: reject (3, untouched) iff local and wrong type"""
    wrong = not z3.is_true(model.eval(same, model_completion=True))
    obs = native_typegate(local, wrong)
    expect_reject = local and wrong
    if expect_reject:
        bad = not (obs['result'] == 3 and obs['queued'] == 0 and obs['word_changed'] == 0)
    else:
        bad = not (obs['result'] == 0 and obs['queued'] == 1)
    return {'replayed': bad, 'detail': 'native send_message(local=%s, wrong_type=%s) -> %r' % (local, wrong, obs),
            'replay': {'scenario': 'typegate', 'local': local, 'wrong': wrong}}


def replay_file(path):
    import json
    import mailbox_replay
    d = json.load(open(path))
    if (d.get('replay') or {}).get('which') == 'dequeue':
        import C02_dequeue_replay
        return C02_dequeue_replay.replay_from_json(d)
    if (d.get('replay') or {}).get('scenario') == 'typegate':
        rp = d['replay']
        obs = native_typegate(rp['local'], rp['wrong'])
        print('native:', obs)
        if rp['local'] and rp['wrong']:
            return 0 if (obs['result'] == 3 and obs['queued'] == 0 and obs['word_changed'] == 0) else 1
        return 0 if (obs['result'] == 0 and obs['queued'] == 1) else 1
    return mailbox_replay.replay_from_json(d)
