"""A sequential world for ractor::pg (C11): the four DashMap indexes of `PgState` as plain ordered maps, `Arc<Mutex<ActorRelations>>` cells,
actors as opaque cells with an (arbitrary) status each, notifications recorded as events."""
import re
import z3

import mirdump
import models_std
import models_sync
import models_ctor
import models_coll
import objects
from exec import Interp, State, Outcome, Inconclusive, Unmodelled
from values import *
from models_coll import norm_coll, mk_iter

DEFAULT_SCOPE = '__default_scope__'
ALL_GROUPS = '__world_group_'
ALL_SCOPES = '__world_scope__'


def load():
    return mirdump.load('ractor', features=('cluster',))


def consts(prog):
    """the three sentinel strings, read from the source"""
    src = open(mirdump.REPO + '/ractor/src/pg.rs').read()
    out = {}
    for name in ('DEFAULT_SCOPE', 'ALL_SCOPES_NOTIFICATION', 'ALL_GROUPS_NOTIFICATION'):
        m = re.search(r'pub const %s: &str = "([^"]*)";' % name, src)
        if not m:
            raise Inconclusive('constant %s not found in pg.rs' % name)
        out[name] = m.group(1)
    return out


def new_interp(prog, loop_bound=12):
    I = Interp(prog, mode='bv', loop_bound=loop_bound)
    models_std.install(I)
    models_sync.install(I)
    models_ctor.install(I)
    models_coll.install(I)
    M = I.model

    # ---- DashMap held as a plain map value
    def mref(I, st, a):
        r = a
        while isinstance(r, Ref):
            v = I.read(st, r.cell, r.path)
            if isinstance(v, Ref):
                r = v
            else:
                break
        return r

    @M(r'^DashMap::<.*>::new$', 'DashMap::new (plain map)')
    def m_new(I, st, f, args, fr):
        return I.ret(st, Agg('HashMap', ()))

    @M(r'^DashMap::<.*>::entry$', 'DashMap::entry (sequential: the shard lock is not modelled)')
    def m_entry(I, st, f, args, fr):
        r = mref(I, st, args[0])
        m = norm_coll(I.read(st, r.cell, r.path), 'HashMap')
        outs = []
        for s2, idx in I.map_find(I, st, m, args[1]):
            if idx is None:
                outs.append(Outcome(s2, 'ret', Enum('Entry', 'Vacant', 1, (Agg('VacantEntry', (Ref(r.cell, r.path, True), args[1])),))))
            else:
                outs.append(Outcome(s2, 'ret', Enum('Entry', 'Occupied', 0, (Agg('OccupiedEntry', (Ref(r.cell, r.path, True), idx)),))))
        return outs

    @M(r'^DashMap::<.*>::get(::<.*>)?$', 'DashMap::get')
    def m_get(I, st, f, args, fr):
        r = mref(I, st, args[0])
        m = norm_coll(I.read(st, r.cell, r.path), 'HashMap')
        key = models_std.deref_val(I, st, args[1])
        return [Outcome(s2, 'ret', models_std.NONE if idx is None else models_std.some(Agg('DashRef', (Ref(r.cell, r.path, True), idx)))) for s2, idx in I.map_find(I, st, m, key)]

    @M(r'^DashMap::<.*>::iter$', 'DashMap::iter')
    def m_iter(I, st, f, args, fr):
        r = mref(I, st, args[0])
        m = norm_coll(I.read(st, r.cell, r.path), 'HashMap')
        return I.ret(st, mk_iter('list', Agg('()', [Agg('DashRef', (Ref(r.cell, r.path, True), i)) for i in range(len(m.fields))]), 0))

    def dref(I, st, a):
        v = a
        while isinstance(v, Ref):
            v = I.read(st, v.cell, v.path)
        if isinstance(v, Agg) and v.ty in ('DashRef', 'OccupiedEntry'):
            return v.fields[0], v.fields[1]
        raise Unmodelled('not a map reference: %r' % (v,))

    @M(r'^<dashmap::mapref::one::Ref(Mut)?<.*> as Deref(Mut)?>::deref(_mut)?$|(^|::)mapref::(one|multiple)::Ref(Mut|Multi)?::<.*>::(value|value_mut)$', 'dashmap Ref / RefMut / RefMulti: the value')
    def m_val(I, st, f, args, fr):
        mr, idx = dref(I, st, args[0])
        return I.ret(st, Ref(mr.cell, mr.path + (idx, 1), True))

    @M(r'(^|::)mapref::(one|multiple)::Ref(Mut|Multi)?::<.*>::key$', 'dashmap Ref::key')
    def m_key(I, st, f, args, fr):
        mr, idx = dref(I, st, args[0])
        return I.ret(st, Ref(mr.cell, mr.path + (idx, 0)))
    def release(I, st, v, ref=None):
        """a guard on an entry of the forward map `PgState.map` is released: record whether the group's listing in the scope index agrees with its membership
        at that moment (the entry lock is what serialises operations on one group: the agreement must hold whenever it is not held)"""
        try:
            mr, idx = v.fields[0], v.fields[1]
            if isinstance(mr, Ref) and mr.cell == st.ghost.get('pg_cell') and mr.path == (0,) and isinstance(idx, int):
                pg = I.read(st, mr.cell, ())
                ents = pg.fields[0].fields
                if idx < len(ents):
                    k = ents[idx].fields[0]
                    has = len(ents[idx].fields[1].fields[0].fields) > 0
                    sc, g = k.fields[0].s, k.fields[1].s
                    listed = any(e.fields[0].s == sc and any(x.s == g for x in e.fields[1].fields) for e in pg.fields[1].fields)
                    # the reverse index of every actor agrees with this group's membership at that moment as well
                    fwd = sorted(z3.simplify(x.fields[0].fields[-1].t).as_long() for x in ents[idx].fields[1].fields[0].fields if x.fields[0].variant == 'Local')
                    rev = []
                    for e in pg.fields[3].fields:
                        mx = I.read(st, e.fields[1].cell, ())
                        inner = I.read(st, st.ghost[('mutex_inner', mx.oid)], ())
                        if any(x.fields[0].s == sc and x.fields[1].s == g for x in inner.fields[0].fields) and e.fields[0].variant == 'Local':
                            rev.append(z3.simplify(e.fields[0].fields[-1].t).as_long())
                    st.emit('RELEASE', (sc, g), has, listed, fwd == sorted(rev))
        except Exception:   # noqa (shape not as expected: the invariant claim is simply not recorded for this release)
            st.emit('RELEASE', None, None, None, None)
        return I.ret(st, UNIT)
    I.type_drops['DashRef'] = release
    prev_occ = I.type_drops.get('OccupiedEntry')

    def drop_occ(I, st, v, ref):
        if v.fields and isinstance(v.fields[0], Ref):
            return release(I, st, v, ref)
        return prev_occ(I, st, v, ref) if prev_occ else I.ret(st, UNIT)
    I.type_drops['OccupiedEntry'] = drop_occ

    def default_of(I, st, f, fr):
        m = re.search(r'Entry::<.*?, (.*)>::or_default$', f)
        ty = m.group(1) if m else ''
        # the key type may itself contain commas: take what follows the first top-level comma
        depth, cut = 0, None
        inner = re.search(r'Entry::<(.*)>::or_default$', f).group(1)
        for i, c in enumerate(inner):
            if c in '<(':
                depth += 1
            elif c in '>)':
                depth -= 1
            elif c == ',' and depth == 0 and cut is None and not inner[:i].strip().startswith("'"):
                cut = i
            elif c == ',' and depth == 0 and cut is None:
                pass
        parts = []
        depth, start = 0, 0
        for i, c in enumerate(inner):
            if c in '<(':
                depth += 1
            elif c in '>)':
                depth -= 1
            elif c == ',' and depth == 0:
                parts.append(inner[start:i].strip())
                start = i + 1
        parts.append(inner[start:].strip())
        ty = parts[-1]
        if ty.startswith('Vec<'):
            return [(st, Agg('Vec', ()))]
        if ty.startswith('HashSet<'):
            return [(st, Agg('HashSet', ()))]
        if 'Mutex<ActorRelations>' in ty:
            res = []
            for o in I.call(st, '<ActorRelations as Default>::default', [], fr):
                oid = 'mx%d' % fresh_id()
                o.st.objs[oid] = objects.mutex_init()
                o.st.ghost[('mutex_inner', oid)] = o.st.alloc(o.val)
                res.append((o.st, BoxV(o.st.alloc(Obj('mutex', oid)), 'Arc')))
            return res
        if ty.endswith('GroupState'):
            return [(o.st, o.val) for o in I.call(st, '<GroupState as Default>::default', [], fr)]
        raise Unmodelled('or_default for value type ' + ty)

    @M(r'^dashmap::Entry::<.*>::or_default$', 'dashmap Entry::or_default')
    def m_or_default(I, st, f, args, fr):
        e = args[0]
        if e.variant == 'Occupied':
            mr, idx = e.fields[0].fields
            return I.ret(st, Agg('DashRef', (mr, idx)))
        mr, key = e.fields[0].fields
        outs = []
        for (s2, dv) in default_of(I, st, f, fr):
            m = norm_coll(I.read(s2, mr.cell, mr.path), 'HashMap')
            I.write(s2, mr.cell, mr.path, Agg('HashMap', m.fields + (Agg('()', (key, dv)),)))
            outs.append(Outcome(s2, 'ret', Agg('DashRef', (mr, len(m.fields)))))
        return outs

    @M(r'^(std::sync::)?Arc::<.*>::ptr_eq$', 'Arc::ptr_eq')
    def m_ptr_eq(I, st, f, args, fr):
        a, b = models_std.deref_val(I, st, args[0]) if isinstance(args[0], Ref) and not isinstance(I.read(st, args[0].cell, args[0].path), BoxV) else I.read(st, args[0].cell, args[0].path), None
        a = I.read(st, args[0].cell, args[0].path) if isinstance(args[0], Ref) else args[0]
        b = I.read(st, args[1].cell, args[1].path) if isinstance(args[1], Ref) else args[1]
        if isinstance(a, BoxV) and isinstance(b, BoxV):
            return I.ret(st, z3.BoolVal(a.cell == b.cell))
        raise Unmodelled('ptr_eq of %r and %r' % (a, b))

    @M(r'^(std|core)::slice::from_ref(::<.*>)?$', 'slice::from_ref')
    def m_from_ref(I, st, f, args, fr):
        v = models_std.deref_val(I, st, args[0])
        return I.ret(st, Ref(st.alloc(Agg('[]', (v,))), ()))

    # ---- actors
    def get_id(I, st, f, args, fr):
        v = models_std.deref_val(I, st, args[0])
        return I.ret(st, actor_id(v.fields[0].ident))
    I.override.append((re.compile(r'(^|::)ActorCell::get_id$'), get_id))

    def get_status(I, st, f, args, fr):
        v = models_std.deref_val(I, st, args[0])
        s = st.ghost['status'][v.fields[0].ident]
        st.emit('STATUS_READ', v.fields[0].ident)
        return I.ret(st, SymEnum('ActorStatus', I.cast_int(s, 'isize')))
    I.override.append((re.compile(r'(^|::)ActorCell::get_status$'), get_status))

    def send_evt(I, st, f, args, fr):
        v = models_std.deref_val(I, st, args[0])
        st.emit('NOTIFY', v.fields[0].ident, args[1])
        return I.ret(st, models_std.ok(UNIT))
    I.override.append((re.compile(r'(^|::)ActorCell::send_supervisor_evt$'), send_evt))

    def is_local(I, st, f, args, fr):
        v = models_std.deref_val(I, st, args[0])
        return I.ret(st, z3.BoolVal(v.variant == 'Local'))
    I.override.append((re.compile(r'(^|::)ActorId::is_local$'), is_local))

    def get_monitor(I, st, f, args, fr):
        return I.ret(st, Ref(st.ghost['pg_cell'], ()))
    I.override.append((re.compile(r'(^|::)get_monitor(::<.*>)?$'), get_monitor))
    return I


def actor_id(name):
    if name.startswith('remote'):
        return Enum('ActorId', 'Remote', 1, (Sc(z3.BitVecVal(9, 64), 'u64'), Sc(z3.BitVecVal(abs(hash(name)) % 1000, 64), 'u64')))
    return Enum('ActorId', 'Local', 0, (Sc(z3.BitVecVal({'a': 1, 'b': 2, 'l': 3, 'm': 4}.get(name, 7), 64), 'u64'),))


def actor(name):
    return Agg('ActorCell', (Opaque('props', ident=name),))


def key(scope, group):
    return Agg('ScopeGroupKey', (Str(scope), Str(group)))


class World:
    """concrete-shape pg state: members[(scope, group)] = [actor names], listeners[(scope, group)] = [names], world[(scope, ALL_GROUPS)] = [names];
    the reverse index and the scope index are derived (the representation invariant holds by construction)"""

    def __init__(self, prog, I, st, members, listeners, world, statuses=None, actors=('a', 'b', 'l')):
        self.prog, self.I = prog, I
        d = prog.crate.struct('PgState')
        if not d or d['fields'] != ['map', 'index', 'world_listeners', 'actor_relations']:
            raise Inconclusive('PgState fields changed: %s' % (d and d['fields']))
        gd = prog.crate.struct('GroupState')
        rd_ = prog.crate.struct('ActorRelations')
        if not gd or gd['fields'] != ['members', 'listeners'] or not rd_ or rd_['fields'] != ['memberships', 'group_monitors', 'world_monitors']:
            raise Inconclusive('GroupState / ActorRelations fields changed')
        keys = sorted(set(members) | set(listeners))
        m_entries = []
        for k in keys:
            mem = Agg('HashMap', [Agg('()', (actor_id(a), actor(a))) for a in members.get(k, [])])
            lis = Agg('Vec', [actor(a) for a in listeners.get(k, [])])
            if members.get(k) or listeners.get(k):
                m_entries.append(Agg('()', (key(*k), Agg('GroupState', (mem, lis)))))
        idx = {}
        for (s, g), mem in members.items():
            if mem:
                idx.setdefault(s, []).append(g)
        i_entries = [Agg('()', (Str(s), Agg('HashSet', [Str(g) for g in gs]))) for s, gs in sorted(idx.items())]
        w_entries = [Agg('()', (key(*k), Agg('Vec', [actor(a) for a in ls]))) for k, ls in sorted(world.items()) if ls]
        rel = {}
        for k, mem in members.items():
            for a in mem:
                rel.setdefault(a, ([], [], []))[0].append(k)
        for k, ls in listeners.items():
            for a in ls:
                rel.setdefault(a, ([], [], []))[1].append(k)
        for k, ls in world.items():
            for a in ls:
                rel.setdefault(a, ([], [], []))[2].append(k)
        r_entries = []
        self.rel_cells = {}
        for a, (ms, gm, wm) in sorted(rel.items()):
            oid = 'rel_' + a
            st.objs[oid] = objects.mutex_init()
            inner = st.alloc(Agg('ActorRelations', (Agg('HashSet', [key(*k) for k in ms]), Agg('HashSet', [key(*k) for k in gm]), Agg('HashSet', [key(*k) for k in wm]))))
            st.ghost[('mutex_inner', oid)] = inner
            arc = BoxV(st.alloc(Obj('mutex', oid)), 'Arc')
            self.rel_cells[a] = inner
            r_entries.append(Agg('()', (actor_id(a), arc)))
        pg = Agg('PgState', (Agg('HashMap', m_entries), Agg('HashMap', i_entries), Agg('HashMap', w_entries), Agg('HashMap', r_entries)))
        self.cell = st.alloc(pg)
        st.ghost['pg_cell'] = self.cell
        st.ghost['status'] = {}
        self.status = {}
        for a in actors:
            sv = I.fresh_int('status_' + a, 'u8', st) if statuses is None or statuses.get(a) is None else I.mk_int(statuses[a], 'u8')
            if statuses is None or statuses.get(a) is None:
                st.assume(z3.ULE(sv.t, 6))
            st.ghost['status'][a] = sv
            self.status[a] = sv

    def mutex_of(self, st):
        """actor name -> id of the mutex object guarding its relations record (records present in the reverse index in this state)"""
        I = self.I
        pg = I.read(st, self.cell, ())
        out = {}
        for e in pg.fields[3].fields:
            mx = I.read(st, e.fields[1].cell, ())
            name = {1: 'a', 2: 'b', 3: 'l', 4: 'm'}.get(z3.simplify(e.fields[0].fields[-1].t).as_long(), '?') if e.fields[0].variant == 'Local' else 'remote'
            out[name] = mx.oid
        return out

    def read(self, st):
        """-> dict(members, listeners, world, index, relations) with python values"""
        I = self.I
        pg = I.read(st, self.cell, ())

        def ident(cellv):
            return cellv.fields[0].ident

        def k_of(v):
            return (v.fields[0].s, v.fields[1].s)
        members, listeners = {}, {}
        for e in pg.fields[0].fields:
            k = k_of(e.fields[0])
            members[k] = sorted(ident(x.fields[1]) for x in e.fields[1].fields[0].fields)
            listeners[k] = [ident(x) for x in e.fields[1].fields[1].fields]
        index = {e.fields[0].s: sorted(x.s for x in e.fields[1].fields) for e in pg.fields[1].fields}
        world = {k_of(e.fields[0]): [ident(x) for x in e.fields[1].fields] for e in pg.fields[2].fields}
        rel = {}
        for e in pg.fields[3].fields:
            arc = e.fields[1]
            mx = I.read(st, arc.cell, ())
            inner = I.read(st, st.ghost[('mutex_inner', mx.oid)], ())
            name = {1: 'a', 2: 'b', 3: 'l', 4: 'm'}.get(z3.simplify(e.fields[0].fields[-1].t).as_long(), '?') if e.fields[0].variant == 'Local' else 'remote'
            rel[name] = tuple(sorted(k_of(x) for x in inner.fields[i].fields) for i in range(3))
        return {'members': members, 'listeners': listeners, 'world': world, 'index': index, 'relations': rel}


def invariant(s):
    """representation invariant of PgState (python view); returns dict of claims"""
    c = {}
    mem, lis, world, index, rel = s['members'], s['listeners'], s['world'], s['index'], s['relations']
    c['no_empty_group_entry'] = all(mem[k] or lis[k] for k in mem)
    c['no_empty_world_entry'] = all(world[k] for k in world)
    want_index = {}
    for (sc, g), m in mem.items():
        if m:
            want_index.setdefault(sc, []).append(g)
    c['scope_index_lists_exactly_the_groups_with_members'] = {k: sorted(v) for k, v in want_index.items()} == index
    fwd_m = sorted((a, k) for k, m in mem.items() for a in m)
    rev_m = sorted((a, k) for a, r in rel.items() for k in r[0])
    c['reverse_index_matches_memberships'] = fwd_m == rev_m
    fwd_g = sorted((a, k) for k, l_ in lis.items() for a in l_)
    rev_g = sorted((a, k) for a, r in rel.items() for k in r[1])
    c['reverse_index_matches_group_monitors'] = fwd_g == rev_g
    fwd_w = sorted((a, k) for k, l_ in world.items() for a in l_)
    rev_w = sorted((a, k) for a, r in rel.items() for k in r[2])
    c['reverse_index_matches_world_monitors'] = fwd_w == rev_w
    c['no_duplicate_listeners'] = all(len(set(l_)) == len(l_) for l_ in list(lis.values()) + list(world.values()))
    return c
