"""C20 (mirror slice): the control-message arms of `NodeSession::handle_control` that keep the local proxies in step with the peer's actors.

An authenticated session whose proxy table (`remote_actors`) holds proxies for some of the pids {7, 8} receives Spawn / Terminate / PgJoin / PgLeave for
lists over {7, 8, 9} (duplicates, unknown pids, empty lists); `RemoteActor::spawn_linked` is the environment (a fresh proxy, or a spawn error):
  * Spawn: afterwards every listed pid whose spawn did not fail has exactly one proxy; a pid that already had a proxy keeps it (no second spawn, also for a
    pid listed twice); nothing else changes
  * Terminate: the proxies of the listed pids are removed from the table and stopped, once each; unknown pids are ignored; the other proxies stay
  * PgJoin: the proxies of the listed pids (spawned if missing) are enrolled, in list order, in exactly the named scope and group; nobody is enrolled if none exists
  * PgLeave: the existing proxies of the listed pids leave exactly that scope and group; unknown pids are ignored and never spawned
Every proxy is spawned linked to the session (the supervisor argument is the session's own cell), so it stops with the session (C05)."""
import itertools
import re
import z3

import cluster as cl
import lifecycle as lc
import lifeprops as lp
import models_std
import C17 as fsm
import C17_gates as gates
from exec import State, Outcome, Inconclusive, Unmodelled
from values import *

FN = 'NodeSession::handle_control'
PIDS = (7, 8, 9)


def new_interp(prog):
    I = gates.session_interp(prog, effects=False)
    install_spawn(I)
    return I


def install_spawn(I):

    def m_spawn(I, st, f, args, fr):
        I.stats['models_used'].add('RemoteActor::spawn_linked: a future yielding a fresh proxy (or a spawn error)')
        pid = None
        for a in args:
            v = a.concrete() if isinstance(a, Sc) else None
            if v is not None and pid is None:
                pid = v      # the first integer argument is the remote pid (the node id of the probe sessions is not concrete)
        sup = models_std.deref_val(I, st, args[-1])
        st.emit('SPAWN_REQ', pid, getattr(sup, 'ident', None) or getattr(getattr(sup, 'fields', [None])[0] if isinstance(sup, Agg) and sup.fields else None, 'ident', None))
        return I.ret(st, Agg('ProxySpawnFut', (I.mk_int(pid if pid is not None else 0, 'u64'),)))
    I.override.append((re.compile(r'(^|::)RemoteActor::spawn_linked$'), m_spawn))

    @I.model(r'(^|::)ActorRef::<.*>::stop_and_wait$|(^|::)ActorCell::stop_and_wait$', 'stop_and_wait of a proxy (recorded; completes)')
    def m_stop_wait(I, st, f, args, fr):
        tgt = models_std.deref_val(I, st, args[0])
        st.emit('STOP_PROXY', getattr(tgt, 'ident', None))
        return I.ret(st, Agg('ReadyFut', (models_std.ok(UNIT),)))

    @I.model(r'(^|::)(join_scoped|leave_scoped)$', 'pg::join_scoped / leave_scoped (recorded; their own behaviour is C11)')
    def m_pg(I, st, f, args, fr):
        cells = models_std.deref_val(I, st, args[2])
        ids = []
        for c in cells.fields:
            v = c
            while isinstance(v, Agg) and v.fields:
                v = v.fields[0]
            ids.append(getattr(v, 'ident', None))
        st.emit('PG', f.rsplit('::', 1)[-1], args[0].s if isinstance(args[0], Str) else None, args[1].s if isinstance(args[1], Str) else None, tuple(ids))
        return I.ret(st, UNIT)

    @I.model(r'(^|::)ActorRef::<.*>::get_cell$', 'ActorRef::get_cell')
    def m_cell(I, st, f, args, fr):
        return I.ret(st, Agg('ActorCell', (models_std.deref_val(I, st, args[0]),)))
    prev = I.hooks.get('poll_other')

    def poll_other(I, st, v, cell, path, cx, fr, prev=prev):
        if isinstance(v, Agg) and v.ty == 'ProxySpawnFut':
            pid = v.fields[0].concrete()
            n = st.ghost.get('spawned', 0)
            s2 = st.fork()
            st.ghost['spawned'] = n + 1
            st.emit('SPAWNED', pid, 'new%d' % n)
            s2.emit('SPAWN_FAILED', pid)
            return [Outcome(st, 'ret', models_std.ready(models_std.ok(Agg('()', (Opaque('ActorRef', ident='new%d' % n), Opaque('JoinHandle')))))),
                    Outcome(s2, 'ret', models_std.ready(models_std.err(Opaque('SpawnErr'))))]
        if isinstance(v, Agg) and v.ty == 'ReadyFut':
            return [Outcome(st, 'ret', models_std.ready(v.fields[0]))]
        return prev(I, st, v, cell, path, cx, fr) if prev else None
    I.hooks['poll_other'] = poll_other


def table(I, st, prog, sc):
    post = I.read(st, sc, ())
    t = {}
    for e in cl.field(prog, post, 'NodeSessionState', 'remote_actors').fields:
        t[z3.simplify(e.fields[0].t).as_long()] = getattr(e.fields[1], 'ident', None)
    return t


def actor_msg(prog, I, pid):
    return cl.record(prog, 'Actor', 'out/control.rs', pid=I.mk_int(pid, 'u64'), name=models_std.NONE)


def check(ctx, prog):
    body = prog.find_fn(FN)
    gos = prog.find_fn('NodeSession::get_or_spawn_remote_actor')
    if body is None or gos is None:
        raise Inconclusive('handle_control / get_or_spawn_remote_actor not found')
    ctx.encoded(prog, body)
    ctx.encoded(prog, gos)
    disc = {v: idx for (v, idx, kind, fl) in cl.variants(prog, 'Msg', 'out/control.rs')}
    lists = [(), (7,), (9,), (7, 9), (9, 7), (9, 9), (7, 8, 9)] if ctx.tier == 'quick' else [tuple(x) for r in range(0, 4) for x in itertools.product(PIDS, repeat=r)]
    seen = set()
    for have in ((), (7,), (7, 8)):
        for kind in ('Spawn', 'Terminate', 'PgJoin', 'PgLeave'):
            for lst in lists:
                I = new_interp(prog)
                st0 = State()
                authed = [(lab, av) for lab, av, okk, close in fsm.auth_states(prog, I, st0) if okk]
                if not authed:
                    raise Inconclusive('no authenticated session state')
                st = st0.fork()
                pre_tab = {p: 'old%d' % p for p in have}
                ra = Agg('HashMap', [Agg('()', (I.mk_int(p, 'u64'), Opaque('ActorRef', ident=pre_tab[p]))) for p in have])
                sc = st.alloc(gates.session_state(prog, I, st, authed[0][1], remote_actors=ra))
                selfc = gates.session_self(prog, st)
                if kind == 'Spawn':
                    pl = cl.record(prog, 'Spawn', 'out/control.rs', actors=Agg('Vec', [actor_msg(prog, I, p) for p in lst]))
                elif kind == 'Terminate':
                    pl = cl.record(prog, 'Terminate', 'out/control.rs', ids=Agg('Vec', [I.mk_int(p, 'u64') for p in lst]))
                else:
                    pl = cl.record(prog, kind, 'out/control.rs', group=Str('the-group'), scope=Str('the-scope'), actors=Agg('Vec', [actor_msg(prog, I, p) for p in lst]))
                msg = cl.record(prog, 'ControlMessage', 'out/control.rs', msg=models_std.some(Enum('Msg', kind, disc[kind], (pl,))))
                st, coro = lc.make_coro(I, st, prog, FN, [Ref(selfc, ()), Ref(sc, (), True), msg, Opaque('ActorRef', ident='myself')])
                cc = st.alloc(coro)
                done = gates.drive(I, st, cc, 8)
                ctx.absorb(I)
                ctx.paths += len(done)
                for k, (s, rk, v) in enumerate(done):
                    name = 'mirror.have%s.%s.%s.path%d' % (''.join(map(str, have)) or '-', kind, ''.join(map(str, lst)) or '-', k)
                    rp = {'have': list(have), 'kind': kind, 'list': list(lst)}
                    tr = s.trace
                    failed = [e[1] for e in tr if e[0] == 'SPAWN_FAILED']
                    rp['failed'] = failed
                    cex = (lambda rp=rp: (lambda m: replay(rp)))()
                    if rk != 'ready':
                        lp.record(ctx, name, s, {'handler_completes': False}, 'C20.mirror', on_cex=cex)
                        continue
                    tab = table(I, s, prog, sc)
                    spawned = {}
                    for e in tr:
                        if e[0] == 'SPAWNED':
                            spawned.setdefault(e[1], []).append(e[2])
                    reqs = [e for e in tr if e[0] == 'SPAWN_REQ']
                    stops = [e[1] for e in tr if e[0] == 'STOP_PROXY']
                    pgs = [e for e in tr if e[0] == 'PG']
                    claims = {'proxies_are_children_of_the_session': all(e[2] == 'myself' for e in reqs),
                              'a_pid_never_gets_a_second_proxy': all(len(v_) <= 1 for v_ in spawned.values()) and not (set(spawned) & set(have))}
                    if spawned and failed:
                        seen.add('spawn_retry_or_partial')
                    if kind in ('Spawn', 'PgJoin'):
                        want = dict(pre_tab)
                        for p in lst:
                            if p not in want and p in spawned:
                                want[p] = spawned[p][0]
                        claims['every_advertised_pid_has_its_proxy_and_nothing_else_changed'] = tab == want and all(p in tab or p in failed for p in lst)
                        claims['no_proxy_is_stopped'] = not stops
                    if kind == 'Spawn':
                        claims['spawn_touches_no_group'] = not pgs
                        seen.add('spawn') if spawned else None
                    if kind == 'Terminate':
                        claims['listed_proxies_are_removed_and_stopped_once_others_stay'] = tab == {p: x for p, x in pre_tab.items() if p not in lst} and sorted(stops) == sorted(pre_tab[p] for p in set(lst) if p in pre_tab)
                        claims['terminate_spawns_nothing'] = not reqs and not pgs
                        seen.add('terminate') if stops else None
                    if kind == 'PgJoin':
                        # replay the list against the spawn outcomes in the order they happened (a pid listed twice is tried again after a failed spawn)
                        attempts = [e for e in tr if e[0] in ('SPAWNED', 'SPAWN_FAILED')]
                        cur, members, ai = dict(pre_tab), [], 0
                        for p in lst:
                            if p in cur:
                                members.append(cur[p])
                            elif ai < len(attempts) and attempts[ai][1] == p:
                                if attempts[ai][0] == 'SPAWNED':
                                    cur[p] = attempts[ai][2]
                                    members.append(cur[p])
                                ai += 1
                            else:
                                members = None
                                break
                        if members is None or ai != len(attempts):
                            members = ['<spawn attempts do not follow the list>']
                        okk = (len(pgs) == 1 and pgs[0][1:] == ('join_scoped', 'the-scope', 'the-group', tuple(members))) if members else not pgs
                        claims['listed_proxies_join_exactly_the_named_group_in_order'] = okk
                        seen.add('join') if pgs else None
                    if kind == 'PgLeave':
                        members = [pre_tab[p] for p in lst if p in pre_tab]
                        okk = (len(pgs) == 1 and pgs[0][1:] == ('leave_scoped', 'the-scope', 'the-group', tuple(members))) if members else not pgs
                        claims['existing_listed_proxies_leave_exactly_the_named_group'] = okk
                        claims['leave_spawns_and_stops_nothing'] = not reqs and not stops and tab == pre_tab
                        seen.add('leave') if pgs else None
                    lp.record(ctx, name, s, claims, 'C20.mirror', on_cex=cex)
    for w in ('spawn', 'terminate', 'join', 'leave'):
        ctx.note_witness('C20.mirror.' + w, w in seen)
    ctx.bounds['mirror'] = 'proxy table over pids {7, 8} (none / one / both present), control lists over {7, 8, 9} (quick: 7 lists incl. duplicates and unknown pids; thorough: every list up to length 3), every spawn succeeding or failing'


def replay(rp):
    import C20_mirror_replay
    return C20_mirror_replay.replay(rp)
