"""native replay for C16: the default output port with real subscriber actors on a fixed script (subscribe at different points, a converter that maps
some values to None, a subscriber that stops, a burst larger than the buffer)"""
import native


def replay(which):
    out, _, rc, err = native.run('outport', timeout=30)
    if rc != 0:
        raise RuntimeError('native outport replay failed: ' + err[-300:])
    log = [x for x in out.get('log', '').split(',') if x]
    got = {w: [int(x.split(':')[1]) for x in log if x.startswith(w + ':')] for w in 'abc'}
    bad = []
    for w, seq in got.items():
        if any(y <= x for x, y in zip(seq, seq[1:])):
            bad.append('subscriber %s: deliveries not strictly in publication order / duplicated: %s' % (w, seq))
        if any(v % 10 == 9 for v in seq):
            bad.append('subscriber %s received a value its converter maps to None: %s' % (w, seq))
    if got['a'] != [1, 2, 3, 4]:
        bad.append('subscriber a (subscribed first, stopped after 4): %s' % got['a'])
    if got['b'][:4] != [3, 4, 5, 6]:
        bad.append('subscriber b (subscribed after 2; must keep receiving after a stopped): %s' % got['b'][:6])
    if got['c'] and got['c'][0] < 100:
        bad.append('subscriber c received publications from before its subscription: %s' % got['c'][:3])
    for w in 'bc':
        if got[w][-2:] != [200, 201]:
            bad.append('subscriber %s does not keep receiving in order after lagging: %s' % (w, got[w][-4:]))
    if 'subs_after_resubscribe:2' not in log:
        bad.append('finished subscriptions are not pruned on subscribe: %s' % [x for x in log if x.startswith('subs_')])
    late = [int(x.split(':')[1]) for x in out.get('starting', '').split(',') if x.startswith('s:')]
    if late != [2, 4, 6, 8]:
        bad.append('a subscriber that was still starting when 2 and 4 were published must receive 2, 4, 6, 8: %s' % late)
    late_f = [int(x.split(':')[1]) for x in out.get('starting_filtered', '').split(',') if x.startswith('s:')]
    if late_f != [4, 6, 8]:
        bad.append('a subscriber that was still starting when 9 (filtered by its converter) and 4 were published must receive 4, 6, 8: %s' % late_f)
    inst = [x for x in out.get('instant', '').split(',') if x]
    for w in 'xy':
        seq = [int(x.split(':')[1]) for x in inst if x.startswith(w + ':')]
        if seq != [1, 2, 3, 4, 5]:
            bad.append('subscriber %s, created with spawn_instant and subscribed before its start-up task ran, must receive 1..5 once, in order: %s' % (w, seq))
    resub = [int(x.split(':')[1]) for x in out.get('resubscribe', '').split(',') if x.startswith('b:')]
    if resub != [0, 1, 2, 3, 4]:
        bad.append('a surviving subscriber must keep receiving while others stop and new ones subscribe (0..4): %s' % resub)
    return {'replayed': bool(bad), 'detail': 'native output-port script: %s ; deliveries %s ; late starter %s ; %s' % (bad, got, late, [x for x in log if x.startswith('subs_')]), 'replay': {'which': which}}
