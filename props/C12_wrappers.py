"""C12 (alias slice) - the timer methods on `ActorRef` / `DerivedActorRef` that are aliases start exactly the timer they are named after.

`ActorRef::{send_interval, send_after, exit_after, kill_after}` and `DerivedActorRef::{exit_after, kill_after}` are executed on the real MIR with the free
functions of `ractor::time` (decided by the coroutine slices of C12) as the environment. Claims per path: exactly one timer is started, it is the free function of
the same name, it gets the caller's period, the cell of the very actor the method was called on and the caller's message builder, and its handle is what the
caller gets back. (`DerivedActorRef::{send_interval, send_after}` are copies, not aliases: the coroutine slices run them directly.)"""
import re

import lifecycle as lc
import lifeprops as lp
from exec import State, Outcome, Inconclusive
from values import *

ALIASES = [('ActorRef::<TMessage>::send_interval', 'ref', True), ('ActorRef::<TMessage>::send_after', 'ref', True), ('ActorRef::<TMessage>::exit_after', 'ref', False),
           ('ActorRef::<TMessage>::kill_after', 'ref', False), ('DerivedActorRef::<TMessage>::exit_after', 'derived', False), ('DerivedActorRef::<TMessage>::kill_after', 'derived', False)]
FREE = re.compile(r'^(?:\w+::)*(send_interval|send_after|exit_after|kill_after)(::<.*>)?$')


def check(ctx, prog):
    started = set()
    for fn, kind, has_msg in ALIASES:
        body = prog.find_fn(fn)
        if body is None:
            raise Inconclusive(fn + ' not found')
        want = fn.rsplit('::', 1)[1]
        if not body.name.endswith('::' + want) or '<impl' not in body.name:
            raise Inconclusive('%s resolved to %s' % (fn, body.name))
        ctx.encoded(prog, body)
        I = lc.new_interp(prog)
        handle = Opaque('JoinHandle', ident='the-handle')

        def inner(I, st, f, args, fr):
            m = FREE.match(f)
            st.emit('TIMER_STARTED', m.group(1), tuple(args))
            return [Outcome(st, 'ret', handle)]
        I.override.append((FREE, inner))
        st = State()
        props = st.alloc(Opaque('ActorProperties', ident='the-props'))
        cell = Agg('ActorCell', (BoxV(props, 'Arc'),))
        period = Opaque('Duration', ident='the-period')
        clo = Opaque('F', ident='the-builder')
        if kind == 'ref':
            me = Agg('ActorRef', (cell, Agg('PhantomData', ())))
        else:
            dd = prog.crate.struct('DerivedActorRef')
            if not dd or sorted(dd['fields']) != ['converter', 'inner']:
                raise Inconclusive('DerivedActorRef fields changed')
            me = Agg('DerivedActorRef', [Opaque('converter', ident='converter') if k == 'converter' else cell for k in dd['fields']])
        args = [Ref(st.alloc(me), ()), period] + ([clo] if has_msg else [])
        outs = I.run_body(st, body, args)
        ctx.absorb(I)
        ctx.paths += len(outs)
        rets = [o for o in outs if o.kind == 'ret']
        for k, o in enumerate(outs):
            name = 'aliases.%s.path%d' % (fn.replace('::<TMessage>', ''), k)
            if o.kind != 'ret':
                # an unwind edge of a clone / the inner call: nothing was claimed about it
                continue
            ev = [e for e in o.st.trace if e[0] == 'TIMER_STARTED']
            one = len(ev) == 1
            a = ev[0][2] if one else ()
            claims = {'exactly_one_timer_is_started': one,
                      'it_is_the_timer_the_method_is_named_after': one and ev[0][1] == want,
                      'with_the_callers_period': one and len(a) >= 2 and a[0] is period,
                      'for_the_actor_the_method_was_called_on': one and len(a) >= 2 and isinstance(a[1], Agg) and a[1].ty == 'ActorCell' and len(a[1].fields) == 1
                      and isinstance(a[1].fields[0], BoxV) and a[1].fields[0].cell == props,
                      'with_the_callers_message_builder': (not has_msg) or (one and len(a) == 3 and a[2] is clo),
                      'and_its_handle_is_returned': o.val is handle}
            if one:
                started.add(ev[0][1])
            lp.record(ctx, name, o.st, claims, 'C12.aliases', sample={'function': fn, 'started': [e[1] for e in ev]}, on_cex=lambda m, fn=fn: replay(fn))
        if not rets:
            raise Inconclusive(fn + ' has no returning path')
    ctx.note_witness('C12.aliases.every_timer_kind_started', started == {'send_interval', 'send_after', 'exit_after', 'kill_after'})
    ctx.bounds['aliases'] = ('ActorRef::{send_interval, send_after, exit_after, kill_after} and DerivedActorRef::{exit_after, kill_after} with the free timer functions as the environment '
                             '(one step each, no loops); the converter closures of DerivedActorRef are opaque')


def replay(fn=None):
    import C12_replay
    return C12_replay.replay_alias(fn)
