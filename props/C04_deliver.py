"""C04 (delivery slice) - the terminal event reaches the supervisor's supervision port whatever the supervisor is doing.

`ActorCell::notify_supervisor` -> `SupervisionTree::notify_supervisor` -> `ActorProperties::send_supervisor_evt` are executed on the real MIR for a linked child
with the supervisor's status symbolic (every phase of its life, in particular Draining with a backlog still to work off) and its supervision port open or
already closed (symbolic):

  * the event is appended to the supervisor's port iff the port is open - independent of the supervisor's status -, exactly once;
  * nothing else of the supervisor is touched (its status, its message queue).

The lifecycle layers of C04 decide *that* the exiting actor calls notify_supervisor exactly once; this slice decides that the call is not filtered on the way."""
import z3

import lifeprops as lp
import actor_run as ar
import models_std
from exec import State, Inconclusive
from values import *


def check(ctx, prog):
    fns = {'cell': 'ActorCell::notify_supervisor', 'tree': 'SupervisionTree::notify_supervisor', 'props': 'ActorProperties::send_supervisor_evt'}
    for fn in fns.values():
        if prog.find_fn(fn) is None:
            raise Inconclusive(fn + ' not found')
        ctx.encoded(prog, prog.find_fn(fn))
    seen = set()
    for entry in ('cell', 'props'):
        for evname in ('ActorTerminated', 'ActorFailed'):
            I = ar.new_interp(prog, 1)
            st = State()
            a = ar.Actor(prog, I, st, True, 2)
            st.cells[st.ghost[('mutex_inner', 'a_supervisor')]] = models_std.some(a.sup_cell)
            sv = z3.BitVec('supervisor_status', 8)
            st.assume(z3.ULE(sv, 6))
            st.objs['sup_status'] = {'w': sv}
            closed = z3.Bool('supervisor_port_closed')
            q0 = dict(st.objs['sup_supq'])
            q0['closed'] = closed
            st.objs['sup_supq'] = q0
            len0 = q0['len']
            if evname == 'ActorTerminated':
                ev = Enum('SupervisionEvent', 'ActorTerminated', 1, (a.cell, models_std.some(Opaque('BoxedState', ident='final-state')), models_std.some(Str('done'))))
            else:
                ev = Enum('SupervisionEvent', 'ActorFailed', 2, (a.cell, Opaque('err', ident='the-error')))
            t0 = len(st.trace)
            if entry == 'cell':
                outs = I.run_body(st, prog.find_fn(fns['cell']), [Ref(st.alloc(a.cell), ()), ev])
            else:
                outs = I.run_body(st, prog.find_fn(fns['props']), [Ref(a.sup_pcell, ()), ev])
            ctx.absorb(I)
            ctx.paths += len(outs)
            for k, o in enumerate(outs):
                name = 'deliver.%s.%s.path%d' % (entry, evname, k)
                cex = lambda m: replay()
                if o.kind != 'ret':
                    lp.record(ctx, name, o.st, {'no_panic': False}, 'C04.deliver', on_cex=cex)
                    continue
                s = o.st
                q = s.objs['sup_supq']
                ops = [e for e in s.trace[t0:] if e[0] == 'OP']
                foreign = [e for e in ops if e[1] not in ('sup_supq', 'a_supervisor', 'a_monitors', 'sup_status')]
                writes_status = not z3.is_true(z3.simplify(s.objs['sup_status']['w'] == sv))
                lp.record(ctx, name, s, {'nothing_else_of_the_supervisor_is_touched': not foreign and not writes_status}, 'C04.deliver', on_cex=cex,
                          sample={'entry': fns[entry], 'event': evname, 'claim': 'queued iff the supervision port is open, for every supervisor status'})
                ctx.prove(name + '.the_event_is_queued_exactly_once_iff_the_port_is_open_whatever_the_supervisor_status', s.pc,
                          q['len'] == z3.If(closed, len0, len0 + 1), group='C04.deliver.the_event_is_queued_iff_the_port_is_open', key='C04.deliver.the_event_is_queued_iff_the_port_is_open', on_cex=cex)
                if entry == 'props':
                    okk = isinstance(o.val, Enum) and o.val.variant == 'Ok'
                    ctx.prove(name + '.ok_iff_queued', s.pc, z3.BoolVal(okk) == z3.Not(closed), group='C04.deliver.ok_iff_queued', key='C04.deliver.ok_iff_queued', on_cex=cex)
                seen.add(entry)
    ctx.note_witness('C04.deliver.explored', seen == {'cell', 'props'})
    ctx.bounds['deliver'] = ('ActorCell::notify_supervisor / SupervisionTree::notify_supervisor / ActorProperties::send_supervisor_evt for a linked child: supervisor status symbolic (0..6), '
                             'its supervision port open or closed (symbolic), ActorTerminated and ActorFailed; monitors feature off')


def replay():
    import C04_deliver_replay
    return C04_deliver_replay.replay()
