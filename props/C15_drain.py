"""C15 (drain slice): `<Factory as Actor>::handle` around draining, on MIR with real FactoryState / worker records.

From factory states (not draining / draining; 2 workers free or busy; factory queue empty or holding one job; lifecycle hooks installed) the messages
DrainRequests, Dispatch(new job), Finished(worker, key) are handled:
  * DrainRequests puts the factory into draining and calls the draining hook exactly once, before anything is stopped
  * while draining a dispatched job is refused: rejected and reported as Shutdown, neither routed nor queued
  * the factory stops itself exactly when it is draining and nothing is left (every worker idle, queue empty) - never while not draining, never with work left
  * each lifecycle hook has exactly one call site: started in post_start, draining in drain_requests, stopped in post_stop (with the actor lifecycle order
    of C01 that is the order started, draining, stopped)
"""
import re
import z3

import lifecycle as lc
import lifeprops as lp
import models_std
import C13
import C14_books as books
import C15_pool as cp
from exec import State, Outcome, Inconclusive, Unmodelled
from values import *

FN = '<Factory<TKey, TMsg, TWorkerStart, TWorker, TRouter, TQueue> as Actor>::handle'


def new_interp(prog):
    I = cp.new_interp(prog)

    @I.model(r'^<dyn (\w+::)*FactoryLifecycleHooks<.*> as (\w+::)*FactoryLifecycleHooks<.*>>::on_factory_(started|draining|stopped)$', 'user lifecycle hook (recorded; succeeds or fails)')
    def m_hook(I, st, f, args, fr):
        st.emit('HOOK', f.rsplit('on_factory_', 1)[1])
        return I.ret(st, Agg('HookFut', ()))
    prev = I.hooks.get('poll_other')

    def poll_other(I, st, v, cell, path, cx, fr, prev=prev):
        if isinstance(v, Agg) and v.ty == 'HookFut':
            s2 = st.fork()
            s2.emit('HOOK_FAILED')
            return [Outcome(st, 'ret', models_std.ready(models_std.ok(UNIT))), Outcome(s2, 'ret', models_std.ready(models_std.err(Opaque('hook-error'))))]
        return prev(I, st, v, cell, path, cx, fr) if prev else None
    I.hooks['poll_other'] = poll_other
    stop_prev = [fn for rx, fn in I.override if 'stop' in rx.pattern][-1]

    def m_stop(I, st, f, args, fr):
        tgt = models_std.deref_val(I, st, args[0])
        v = tgt
        while isinstance(v, Agg) and v.fields:
            v = v.fields[0]
        if getattr(v, 'ident', None) == 'myself':
            st.emit('STOP_SELF')
            return I.ret(st, UNIT)
        return stop_prev(I, st, f, args, fr)
    I.override.append((re.compile(r'(^|::)ActorRef::<.*>::stop$|(^|::)ActorCell::stop$'), m_stop))
    I.override.reverse()      # later entries first: the factory-specific stop wins
    I.override.sort(key=lambda e: 0 if e[1] is m_stop else 1)
    return I


def mk_state(prog, I, st, drain, busy, queue_ids):
    d = prog.crate.struct('FactoryState')
    dw = prog.crate.struct('WorkerProperties')
    fv = cp.mk_state(prog, I, st, 2, ('live', 'live', None, None), busy_live=busy)
    ff = list(fv.fields)
    ff[d['fields'].index('drain_state')] = Enum('DrainState', drain, {'NotDraining': 0, 'Draining': 1, 'Drained': 2}[drain], ())
    ff[d['fields'].index('queue')] = Agg('VecDeque', [books.mk_job(prog, C13.K[i % 2], j) for i, j in enumerate(queue_ids)])
    ff[d['fields'].index('lifecycle_hooks')] = models_std.some(BoxV(st.alloc(Opaque('hooks', ident='hooks')), 'Box'))
    ff[d['fields'].index('discard_settings')] = Enum('DiscardSettings', 'None', 0, ())
    return Agg('FactoryState', ff)


def call_sites(prog, callee_rx):
    out = set()
    for name, b in prog.bodies.items():
        for blk in b.blocks.values():
            t = blk.term
            if t is not None and t.kind == 'call' and isinstance(t.func, str) and re.search(callee_rx, t.func):
                out.add(name.split('~')[0])
    return out


def check(ctx, prog):
    body = prog.find_fn(FN)
    if body is None:
        raise Inconclusive('Factory::handle not found')
    ctx.encoded(prog, body)
    for fn in ('drain_requests', 'is_drained'):
        b = prog.find_fn('FactoryState::<TKey, TMsg, TWorker, TWorkerStart, TRouter, TQueue>::' + fn)
        if b is None:
            raise Inconclusive(fn + ' not found')
        ctx.encoded(prog, b)
    d = prog.crate.struct('FactoryState')
    dw = prog.crate.struct('WorkerProperties')
    fm = prog.crate.enum('FactoryMessage')
    if not fm:
        raise Inconclusive('FactoryMessage not found')
    disc = {v: idx for (v, idx, kind, fl) in fm['variants']}
    seen = set()
    for drain in ('NotDraining', 'Draining'):
        for busy in ((), (0,), (0, 1)):
            for queue_ids in ((), ('f0',)):
                if queue_ids and not busy:
                    continue     # a job waits in the factory queue only while no worker can take it
                msgs = [('DrainRequests', lambda I: Enum('FactoryMessage', 'DrainRequests', disc['DrainRequests'], ())),
                        ('Dispatch', lambda I: Enum('FactoryMessage', 'Dispatch', disc['Dispatch'], (books.mk_job(prog, C13.K[0], 'new'),)))]
                for w in busy:
                    msgs.append(('Finished%d' % w, lambda I, w=w: Enum('FactoryMessage', 'Finished', disc['Finished'], (I.mk_int(w, 'usize'), books.key(5)))))
                for mname, mk in msgs:
                    I = new_interp(prog)
                    st = State()
                    fc = st.alloc(mk_state(prog, I, st, drain, busy, queue_ids))
                    st, coro = lc.make_coro(I, st, prog, FN, [Ref(st.alloc(Opaque('Factory')), ()), cp.actor_ref('myself'), mk(I), Ref(fc, (), True)])
                    cc = st.alloc(coro)
                    frontier, done = [(st, 0)], []
                    while frontier:
                        s, n = frontier.pop()
                        for o in lc.poll_coro(I, s, cc):
                            if o.kind != 'ret' or o.val.variant == 'Ready':
                                done.append(o)
                            elif n < 4:
                                frontier.append((o.st, n + 1))
                            else:
                                raise Inconclusive('Factory::handle did not complete within 4 polls')
                    ctx.absorb(I)
                    ctx.paths += len(done)
                    for k, o in enumerate(done):
                        name = 'drain.%s.busy%s.q%d.%s.path%d' % (drain, ''.join(map(str, busy)) or '-', len(queue_ids), mname, k)
                        rp = {'drain': drain, 'busy': list(busy), 'queue': len(queue_ids), 'msg': mname}
                        cex = (lambda rp=rp: (lambda m: replay(rp)))()
                        if o.kind != 'ret':
                            lp.record(ctx, name, o.st, {'no_panic': False}, 'C15.drain', on_cex=cex)
                            continue
                        tr = o.st.trace
                        hooks = [e[1] for e in tr if e[0] == 'HOOK']
                        stops = [i for i, e in enumerate(tr) if e[0] == 'STOP_SELF']
                        res = o.val.fields[0]
                        if res.variant == 'Err':
                            lp.record(ctx, name, o.st, {'handler_fails_only_when_a_hook_or_a_collaborator_failed': any(e[0] in ('HOOK_FAILED', 'SPAWN_FAILED') for e in tr) or any(e[0] == 'ROUTE_ANSWER' for e in tr)}, 'C15.drain', on_cex=cex)
                            continue
                        fa = I.read(o.st, fc, ())
                        ds = fa.fields[d['fields'].index('drain_state')].variant
                        qlen = len(fa.fields[d['fields'].index('queue')].fields)
                        free = all(len(e.fields[1].fields[dw['fields'].index('curr_jobs')].fields) == 0 and len(e.fields[1].fields[dw['fields'].index('message_queue')].fields) == 0
                                   for e in fa.fields[d['fields'].index('pool')].fields)
                        idle = free and qlen == 0
                        claims = {'factory_stops_itself_iff_draining_and_nothing_is_left': bool(stops) == (ds != 'NotDraining' and idle) and len(stops) <= 1,
                                  'drained_is_recorded_only_when_nothing_is_left': (ds != 'Drained') or idle,
                                  'draining_is_never_left': drain == 'NotDraining' or ds != 'NotDraining'}
                        if mname == 'DrainRequests':
                            claims['drain_request_enters_draining'] = ds in ('Draining', 'Drained')
                            claims['draining_hook_called_once_before_the_stop'] = hooks == ['draining'] and (not stops or [i for i, e in enumerate(tr) if e[0] == 'HOOK'][0] < stops[0])
                            seen.add('drain_request')
                        else:
                            claims['no_lifecycle_hook_outside_its_event'] = not hooks
                        if mname == 'Dispatch' and drain == 'Draining':
                            _h, discarded, rejected = C13.fates(tr)
                            routed = [e for e in tr if e[0] in ('ROUTED', 'ROUTE_ANSWER')]
                            claims['job_dispatched_while_draining_is_refused'] = 'new' in rejected and not routed and qlen == len(queue_ids) and [x for x in discarded if x[1] == 'new' and x[0] in ('Shutdown', 'TtlExpired')] != []
                            seen.add('refused')
                        if stops:
                            seen.add('stopped')
                        if drain == 'Draining' and not stops:
                            seen.add('still_draining')
                        lp.record(ctx, name, o.st, claims, 'C15.drain', on_cex=cex)
    # one call site per hook
    sites = {h: call_sites(prog, r'FactoryLifecycleHooks<.*>>::on_factory_%s$' % h) for h in ('started', 'draining', 'stopped')}
    want = {'started': 'post_start', 'draining': 'drain_requests', 'stopped': 'post_stop'}
    for h, s in sites.items():
        okk = len(s) == 1 and want[h] in next(iter(s))
        ctx.obligations.append({'name': 'drain.hook_%s_called_only_from_%s' % (h, want[h]), 'group': 'C15.drain.hook_call_sites', 'status': 'proved' if okk else 'cex', 'solver_s': 0.0, 'detail': sorted(s)})
        if not okk:
            rec = ctx.obligations[-1]
            ctx.handle_cex(rec['name'], 'C15.drain.hook_call_sites', None, lambda _m, h=h, s=s: {'replayed': True, 'detail': 'hook %s is called from %s' % (h, sorted(s)), 'replay': {'which': 'drain_sites'}}, rec)
    for w in ('drain_request', 'refused', 'stopped', 'still_draining'):
        ctx.note_witness('C15.drain.' + w, w in seen)
    ctx.bounds['drain'] = 'Factory::handle for DrainRequests / Dispatch / Finished from states not draining / draining, 2 workers with 0..2 busy, factory queue empty or one job; hooks succeed or fail; router / queue by contract'


def replay(rp):
    import C15_drain_replay
    return C15_drain_replay.replay(rp)
