"""native replay for C10"""
import random
import native

HOOKED = ('registry.entry', 'registry.insert', 'registry.remove', 'registry.get', 'pidreg.entry', 'pidreg.insert', 'pidreg.remove', 'pidreg.get',
          'status.fetch_max', 'status.load', 'wait_handler.notify_waiters', 'wait_handler.notify_one')


def run_native(roles, seq):
    out, lines, rc, err = native.run('registry', roles='+'.join(roles), schedule=seq if seq else ['99'], timeout=60)
    if rc != 0:
        raise RuntimeError('native registry replay failed: ' + err[-400:])
    obs = {'threads': {}, 'final': out.get('final'), 'holder': out.get('holder_pid'), 'log': [x for x in out.get('log', '').split(',') if x]}
    for k, v in out.items():
        if k.startswith('thread'):
            obs['threads'][int(k[6:])] = v
    return obs


def concrete_oracle(roles, obs):
    bad = []
    holder = obs['holder']
    oks = [(t, v.split(':')[1]) for t, v in obs['threads'].items() if roles[t] == 'spawner' and v.startswith('ok:')]
    errs = [(t, v) for t, v in obs['threads'].items() if roles[t] == 'spawner' and v.startswith('err:')]
    for t, v in errs:
        if v != 'err:1':
            bad.append('spawn.ok_or_already_registered')
    if 'exiter' not in roles:
        if len(oks) != 1:
            bad.append('exactly_one_spawn_succeeds')
    else:
        if len(oks) > 1:
            bad.append('at_most_one_spawn_succeeds')
        if obs['final'] == holder:
            bad.append('holder_released')
    for t, pid in oks:
        if obs['final'] != pid:
            bad.append('spawn.winner_stays_registered')
    # lookups
    log = obs['log']
    for t, v in obs['threads'].items():
        if roles[t] != 'looker' or not v.startswith('found:'):
            continue
        pid = v.split(':')[1]
        if pid == holder:
            gi = [i for i, e in enumerate(log) if e.startswith('%d:registry.get' % t)]
            ni = [i for i, e in enumerate(log) if e.split(':', 1)[1].startswith('wait_handler.notify_waiters')]
            if gi and ni and gi[0] > ni[0]:
                bad.append('lookup_never_returns_an_actor_whose_waiters_were_released')
        elif pid not in [p for _, p in oks]:
            bad.append('lookup_returns_holder_or_a_successful_spawn')
    return sorted(set(bad))


def replay(scenario, roles, sched, expected_bad, tries=30):
    seq = ['%d:%s' % (t, lbl) for (_, t, _, lbl, _) in sched if lbl in HOOKED]
    obs = run_native(roles, seq)
    bad = concrete_oracle(roles, obs)
    used = seq
    if not bad:
        rnd = random.Random(3)
        for k in range(tries):
            s2 = list(seq)
            rnd.shuffle(s2)
            obs = run_native(roles, s2)
            bad = concrete_oracle(roles, obs)
            if bad:
                used = s2
                break
    if not bad:
        # the mutated tree may have no hook points left in the racy region: free-running stress attempts (threads released by a barrier)
        for k in range(int(__import__('os').environ.get('VERIF_STRESS_RUNS', '400'))):
            obs = run_native(roles, [])
            bad = concrete_oracle(roles, obs)
            if bad:
                used = ['free-run attempt %d' % k]
                break
    return {'replayed': bool(bad), 'detail': 'native run: violated %s (solver said %s); threads=%s final=%s holder=%s' % (bad, expected_bad, obs['threads'], obs['final'], obs['holder']),
            'replay': {'scenario': 'registry', 'roles': roles, 'schedule': used, 'violated': bad, 'model_schedule': [(t, lbl) for (_, t, _, lbl, _) in sched]}}


def replay_from_json(d):
    rp = d['replay']
    if rp['schedule'] and str(rp['schedule'][0]).startswith('free-run'):
        bad, obs = [], None
        for k in range(1000):
            obs = run_native(rp['roles'], [])
            bad = concrete_oracle(rp['roles'], obs)
            if bad:
                break
    else:
        obs = run_native(rp['roles'], rp['schedule'])
        bad = concrete_oracle(rp['roles'], obs)
    print('native run:', obs)
    print('violated:', bad)
    return 1 if bad else 0
