"""native replay for the C06 wrapper slice: the public wait wrappers on real actors"""
import native


def battery():
    out, _l, rc, err = native.run('wait_wrappers', timeout=60)
    if rc != 0:
        raise RuntimeError('native wait_wrappers failed: ' + err[-300:])
    d = {k: v.split('/') for k, v in out.items()}
    bad = []

    def want(case, res, at_return=None, later=None, handled=None):
        v = d.get(case)
        if not v:
            bad.append('%s: no result' % case)
            return
        if v[0] != res or (at_return is not None and v[1] != str(at_return)) or (later is not None and v[2] != str(later)) or (handled is not None and v[3] != str(handled)):
            bad.append('%s: %s (expected result %s, status at return %s, later %s, handled %s)' % (case, v, res, at_return, later, handled))
    want('wait_timeout', 'timeout', 2, 2, 1)             # a wait that times out reports the timeout and has no effect on the actor
    want('stop_and_wait', 'ok', 6)                       # Ok only once Stopped
    want('stop_and_wait_timeout', 'timeout', None, 6)    # timed out now; the stop itself still completes
    want('kill_and_wait', 'ok', 6)
    want('drain_and_wait', 'ok', 6, 6, 2)                # the queued messages were handled first
    if d.get('stop_and_wait_dead', ['hang'])[0] == 'hang':
        bad.append('stop_and_wait on a stopped actor hangs')
    return bad, 6


def replay(op=None):
    bad, n = battery()
    return {'replayed': bool(bad), 'detail': 'native wait wrappers on real actors: %s' % (bad or 'as expected'), 'replay': {'which': 'wrappers'}}
