"""native replay for the C19 derive slice: the real generated decoder / encoder of the probe enum (built from the same source and the same derive crate)"""
import native

KINDS = {'Unit': 'cast', 'One': 'cast', 'Two': 'cast', 'Named': 'cast', 'Ask': 'call', 'AskWith': 'call', 'PortFirst': 'call', 'NamedAsk': 'call'}
NFIELDS = {'Unit': 0, 'One': 1, 'Two': 2, 'Named': 2, 'Ask': 0, 'AskWith': 1, 'PortFirst': 1, 'NamedAsk': 1}


def run_decode(kind, tag, data):
    out, _l, rc, err = native.run('derive_decode', kind=kind, tag=tag, args=list(data), timeout=30)
    if rc != 0:
        raise RuntimeError('native derive_decode failed: ' + err[-300:])
    return dict(out)


def parse_records(data, n):
    """the buffer as n (8-byte big-endian length, data) records with nothing left over, or None"""
    ptr, recs = 0, []
    for _ in range(n):
        if ptr + 8 > len(data):
            return None
        ln = int.from_bytes(bytes(data[ptr:ptr + 8]), 'big')
        if ptr + 8 + ln > len(data):
            return None
        recs.append(list(data[ptr + 8:ptr + 8 + ln]))
        ptr += 8 + ln
    return recs if ptr == len(data) else None


def evaluate(kind, tag, data):
    out = run_decode(kind, tag, data)
    bad = []
    if out.get('result') == 'panicked':
        bad.append('the generated decoder panicked')
    elif out.get('result') == 'ok':
        name = out.get('value', '').split('/')[0]
        if name != tag:
            bad.append('decoded %s from the tag %r' % (name, tag))
        elif KINDS.get(name) != kind:
            bad.append('decoded the %s variant %s from a %s message' % (KINDS.get(name), name, kind))
        elif parse_records(data, NFIELDS[name]) is None:
            bad.append('decoded %s although the buffer is not exactly %d length-prefixed records' % (name, NFIELDS[name]))
    return bad, out


def replay_decode(m, kind, L, bs, o):
    import z3
    data = []
    for b in bs:
        v = m.eval(b.t, model_completion=True) if m is not None else None
        data.append(v.as_long() if v is not None and z3.is_bv_value(v) else 0)
    tag = 'Nope'
    if m is not None:
        for d in m.decls():
            if d.name().startswith('tag_is_') and z3.is_true(m[d]):
                tag = d.name()[len('tag_is_'):]
    tries = [(kind, tag, data)]
    # the neighbourhood of the counterexample: every tag with this buffer, and the buffer shortened / extended by one byte
    for t in list(KINDS) + ['Nope']:
        tries.append((kind, t, data))
    tries.append((kind, tag, data[:-1]))
    tries.append((kind, tag, data + [0]))
    bad, obs = [], []
    for (k, t, d) in tries:
        b, out = evaluate(k, t, d)
        if b:
            bad.append('%s %s %s: %s' % (k, t, d, b))
            obs.append(out)
    return {'replayed': bool(bad), 'detail': 'native generated decoder: %s' % (bad[:4] or 'no violation on the counterexample and its neighbourhood (%d inputs)' % len(tries)),
            'replay': {'which': 'derive_decode', 'kind': kind, 'tag': tag, 'args': data}}


def replay_roundtrip(v=None):
    out, _l, rc, err = native.run('derive_roundtrip', timeout=30)
    if rc != 0:
        raise RuntimeError('native derive_roundtrip failed: ' + err[-300:])
    bad = [x for x in out.get('bad', '').split(',') if x]
    return {'replayed': bool(bad), 'detail': 'native encode then decode of %s probe values: changed %s' % (out.get('values'), bad), 'replay': {'which': 'derive_roundtrip'}}


def battery():
    """fixed inputs through the real decoder (translator validation: the same inputs the symbolic run covers)"""
    bad = []
    n = 0
    one = [0, 0, 0, 0, 0, 0, 0, 8] + [1, 2, 3, 4, 5, 6, 7, 8]
    cases = [('cast', 'Unit', []), ('cast', 'Unit', [0]), ('cast', 'One', one), ('cast', 'One', one[:-1]), ('cast', 'One', one + [0]), ('call', 'One', one), ('cast', 'PortFirst', one),
             ('call', 'PortFirst', one), ('cast', 'Nope', []), ('reply', 'One', one), ('cast', 'One', [0, 0, 0, 0, 0, 0, 0, 3, 1, 2, 3]), ('cast', 'One', [255] * 8 + [1] * 8),
             ('cast', 'Two', [0, 0, 0, 0, 0, 0, 0, 4, 0, 0, 0, 7, 0, 0, 0, 0, 0, 0, 0, 2, 255, 254]), ('call', 'Ask', []), ('call', 'Ask', [1])]
    want = ['ok', 'err', 'ok', 'err', 'err', 'err', 'err', 'ok', 'err', 'err', 'err', 'err', 'err', 'ok', 'err']
    for (k, t, d), w in zip(cases, want):
        b, out = evaluate(k, t, d)
        n += 1
        if b or out.get('result') != w:
            bad.append('%s %s %s -> %s (expected %s) %s' % (k, t, d, out, w, b))
    r = replay_roundtrip()
    if r['replayed']:
        bad.append(r['detail'])
    return bad, n + 1
