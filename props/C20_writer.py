"""C20 (writer slice) - every frame handed to a session's write task reaches the transport, once, in order.

`net::session::run_write_task` (the task between a session's outbound queue and the byte stream: it batches what is queued, writes the batch, flushes) is executed
on the real MIR with 1..3 frames queued, `encode_network_message` recorded (which frame was appended to the batch buffer), the encoded size of a frame symbolic and
`write_all` / `flush` as the environment (succeed or fail). Claims per path:

  * every frame taken out of the queue is encoded into the batch, exactly once, in queue order, before the write that follows - nothing that was dequeued is dropped;
  * every batch that was encoded is written and flushed (in that order) unless the transport failed, and after a transport failure nothing more is dequeued."""
import re
import z3

import lifecycle as lc
import lifeprops as lp
import cluster as cl
import C17_gates as gates
import models_std
import objects
from exec import State, Outcome, Inconclusive
from values import *

FN = 'run_write_task'


def check(ctx, prog):
    body = prog.find_fn(FN)
    if body is None:
        raise Inconclusive('run_write_task not found')
    ctx.encoded(prog, body)
    seen = set()
    for k in (1, 2, 3):
        I = gates.session_interp(prog, effects=False)
        I.loop_bound = 8

        def encode(I, st, f, args, fr):
            m = models_std.deref_val(I, st, args[0])
            ident = getattr(m, 'ident', None)
            if isinstance(m, Opaque) and m.tag == 'received' and m.info is not None:
                ident = z3.simplify(m.info).as_long()      # a frame taken with try_recv carries the queue entry's token
            st.emit('ENCODED', ident)
            return I.ret(st, UNIT)
        I.override.append((re.compile(r'(^|::)encode_network_message$'), encode))

        def io(name):
            def fn(I, st, f, args, fr):
                st.emit('IO', name)
                return I.ret(st, Opaque('iofut', info={'n': fresh_id(), 'op': name}))
            return fn
        I.override.append((re.compile(r'ActorWriteHalf::write_all$'), io('write_all')))
        I.override.append((re.compile(r'ActorWriteHalf::flush$'), io('flush')))
        prev = I.hooks.get('poll_other')

        def poll_other(I, st, v, cell, path, cx, fr, prev=prev):
            if isinstance(v, Opaque) and v.tag == 'iofut':
                s2 = st.fork()
                st.emit('IO_RESULT', v.info['op'], 'ok')
                s2.emit('IO_RESULT', v.info['op'], 'err')
                return [Outcome(st, 'ret', models_std.ready(models_std.ok(UNIT))), Outcome(s2, 'ret', models_std.ready(models_std.err(Opaque('io-error'))))]
            return prev(I, st, v, cell, path, cx, fr) if prev else None
        I.hooks['poll_other'] = poll_other

        @I.model(r'Vec::<u8>::len$|Vec::<.*>::len$', 'sizes (symbolic: a size-dependent decision is explored both ways)')
        def m_len(I, st, f, args, fr):
            return I.ret(st, I.fresh_int('size', 'usize', st))
        # the encoded size of a frame (prost-generated crate code) is symbolic as well
        I.override.append((re.compile(r'(^|::)encoded_len$|Message>::encoded_len$'), lambda I, st, f, args, fr: I.ret(st, I.fresh_int('frame_size', 'usize', st))))

        def chan_value(I, st, o, idterm):
            n = z3.simplify(idterm).as_long() if z3.is_bv_value(z3.simplify(idterm)) else None
            return [(st, Opaque('NetworkMessage', ident=n))]
        I.hooks['chan_value'] = chan_value
        st = State()
        q = objects.chan_init(4)
        q['len'] = z3.BitVecVal(k, 8)
        for i in range(k):
            q['c%d' % i] = z3.BitVecVal(10 + i, objects.ID_BITS)
        q['closed'] = z3.BoolVal(True)        # all senders gone once the queue is empty: the task ends after the backlog
        st.objs['outq'] = q
        st, coro = lc.make_coro(I, st, prog, FN, [Opaque('ActorWriteHalf', ident='the-stream'), Obj('chan', 'outq', 'rx'), Opaque('ActorRef', ident='session')])
        cc = st.alloc(coro)
        done = gates.drive(I, st, cc, 12)
        ctx.absorb(I)
        ctx.paths += len(done)
        for j, (s, kind, v) in enumerate(done):
            name = 'writer.q%d.path%d' % (k, j)
            tr = s.trace
            taken = [(i, z3.simplify(e[2]).as_long()) for i, e in enumerate(tr) if e[0] in ('RECV', 'FLUSHED') and e[1] == 'outq']
            enc = [(i, e[1]) for i, e in enumerate(tr) if e[0] == 'ENCODED']
            io_res = [(i, e[1], e[2]) for i, e in enumerate(tr) if e[0] == 'IO_RESULT']
            failed = next((i for i, op, r in io_res if r == 'err'), None)
            claims = {'the_task_ends': kind == 'ready',
                      'every_dequeued_frame_is_encoded_once_in_queue_order': [x for _, x in enc] == [x for _, x in taken],
                      'nothing_is_dequeued_after_a_transport_failure': failed is None or not [i for i, _ in taken if i > failed]}
            # each encoded frame is followed by a write (and, if that succeeds, a flush) before anything else is dequeued by recv()
            ok_order = True
            for (i, _x) in enc:
                nxt_w = next((t for t, op, r in io_res if t > i and op == 'write_all'), None)
                if nxt_w is None:
                    ok_order = False
            claims['every_encoded_batch_is_written'] = ok_order
            if failed is None:
                claims['the_whole_backlog_reaches_the_transport'] = [x for _, x in taken] == [10 + i for i in range(k)] and sum(1 for _, op, r in io_res if op == 'flush') >= 1
                seen.add('all_written')
            else:
                seen.add('transport_failed')
            lp.record(ctx, name, s, claims, 'C20.writer', sample={'queued': k, 'taken': [x for _, x in taken], 'encoded': [x for _, x in enc], 'io': [(op, r) for _, op, r in io_res]} if j < 2 else None,
                      on_cex=lambda m: replay())
    ctx.note_witness('C20.writer.backlog_written', 'all_written' in seen)
    ctx.note_witness('C20.writer.transport_failure_explored', 'transport_failed' in seen)
    ctx.bounds['writer'] = 'run_write_task with 1..3 frames queued and the senders gone afterwards; encode recorded, frame / buffer sizes symbolic, write_all and flush succeed or fail'


def replay():
    import C20_writer_replay
    return C20_writer_replay.replay()
