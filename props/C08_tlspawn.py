"""C08 (thread-local spawn hand-over) - a thread-local spawn that is cancelled leaves no start task behind.

The caller's `ThreadLocalActorSpawner::spawn` and the spawner thread's loop hand the start task over through a one-shot reply port; the task handle travels
inside an abort-on-drop guard so that whichever side still holds it when the spawn is abandoned aborts the task. Both pieces are executed on the real MIR:

  * spawner loop (`ThreadLocalActorSpawner::new`, the async block run on the spawner thread): for a request whose reply port is open the start task is spawned
    and its handle delivered (no abort); for a request whose caller is gone (reply receiver dropped - the spawn future was dropped while the request was queued)
    the start task is aborted, never left detached;
  * caller (`ThreadLocalActorSpawner::spawn`): dropped while it waits for the start task's result it aborts the task; once the result arrived nothing is aborted.

What an aborted start task leaves behind is the cancelled-start battery of C08 (the start coroutine dropped at each of its suspension points)."""
import re
import z3

import lifecycle as lc
import lifeprops as lp
import actor_run as ar
import models_std
import objects
from exec import State, Outcome, Inconclusive, Unmodelled
from values import *

LOOP = r'thread_local::<impl at [^>]*>::new::\{closure#0\}::\{closure#0\}$'
SPAWN = 'ThreadLocalActorSpawner::spawn'


def new_interp(prog):
    I = ar.new_interp(prog, 1, 'ThreadLocalActorRuntime')
    I.override[:] = [(rx, fn) for (rx, fn) in I.override if 'ThreadLocalActorSpawner::spawn' not in rx.pattern]

    @I.model(r'JoinHandle::<.*>::abort$|(^|::)JoinHandle::abort$', 'JoinHandle::abort')
    def m_abort(I, st, f, args, fr):
        h = models_std.deref_val(I, st, args[0])
        st.emit('ABORT', h.fields[0] if isinstance(h, Agg) and h.fields else h)
        return I.ret(st, UNIT)
    return I


def find_loop(prog):
    for n, b in prog.bodies.items():
        if re.search(LOOP, n):
            return b if not isinstance(b, str) else prog.find_fn(n)
    return None


def spawn_ids(tr):
    return [e[1] for e in tr if e[0] == 'SPAWN']


def check_loop(ctx, prog):
    body = find_loop(prog)
    if body is None:
        raise Inconclusive('spawner loop body not found in the dump')
    ctx.encoded(prog, body)
    seen = set()
    for caller_gone in (False, True):
        I = new_interp(prog)
        st = State()
        st.objs['spawnq'] = objects.chan_init(4)
        q = dict(st.objs['spawnq'])
        q['len'] = z3.BitVecVal(1, 8)
        q['c0'] = z3.BitVecVal(7, objects.ID_BITS)
        st.objs['spawnq'] = q
        st.objs['reply'] = objects.oneshot_init()
        if caller_gone:
            r0 = dict(st.objs['reply'])
            r0['rxclosed'] = z3.BoolVal(True)
            st.objs['reply'] = r0
        sd = prog.crate.struct('SpawnArgs')
        rd = prog.crate.struct('RpcReplyPort')
        if not sd or not rd:
            raise Inconclusive('SpawnArgs / RpcReplyPort not found')
        rp = {'port': Obj('oneshot', 'reply', 'tx'), 'timeout': models_std.NONE}
        if sorted(rd['fields']) != sorted(rp):
            raise Inconclusive('RpcReplyPort fields changed: %s' % rd['fields'])
        sa = {'builder': Opaque('builder', ident='the-builder'), 'reply': Agg('RpcReplyPort', [rp[k] for k in rd['fields']]), 'name': models_std.NONE}
        if sorted(sd['fields']) != sorted(sa):
            raise Inconclusive('SpawnArgs fields changed: %s' % sd['fields'])

        def chan_value(I, st, o, idterm, sa=sa, sd=sd):
            return [(st, Agg('SpawnArgs', [sa[k] for k in sd['fields']]))]
        I.hooks['chan_value'] = chan_value
        prev = I.hooks.get('call_opaque')

        def call_opaque(I, st, v, args, fr):
            if isinstance(v, Opaque) and v.tag == 'builder':
                st.emit('BUILDER_RUN')
                return I.ret(st, Opaque('startfut', ident='the-start-future'))
            return prev(I, st, v, args, fr) if prev else None
        I.hooks['call_opaque'] = call_opaque
        st, coro = make_loop_coro(I, st, prog, body)
        cc = st.alloc(coro)
        outs = lc.poll_coro(I, st, cc)
        ctx.absorb(I)
        ctx.paths += len(outs)
        for k, o in enumerate(outs):
            name = 'tlspawn.loop.%s.path%d' % ('caller_gone' if caller_gone else 'caller_waiting', k)
            tr = o.st.trace
            spawned = spawn_ids(tr)
            aborted = [e for e in tr if e[0] == 'ABORT']
            delivered = z3.is_true(z3.simplify(o.st.objs['reply']['st'] == 1))
            claims = {'no_panic': o.kind == 'ret', 'the_builder_runs_once_and_its_future_becomes_one_task': len(spawned) == 1 and sum(1 for e in tr if e[0] == 'BUILDER_RUN') == 1}
            if caller_gone:
                claims['a_start_task_whose_caller_is_gone_is_aborted_not_detached'] = len(aborted) == 1 and not delivered
            else:
                claims['the_handle_is_delivered_and_nothing_is_aborted'] = delivered and not aborted
            lp.record(ctx, name, o.st, claims, 'C08.tlspawn', sample={'caller_gone': caller_gone, 'spawned': len(spawned), 'aborted': len(aborted), 'delivered': delivered}, on_cex=lambda m: replay())
            seen.add(caller_gone)
    ctx.note_witness('C08.tlspawn.loop_explored', seen == {False, True})


def make_loop_coro(I, st, prog, body):
    """the spawner loop is an async block: its coroutine is built by the enclosing closure; construct it directly with its one capture (the request receiver)"""
    co = Coro(body.name, 0, [Obj('chan', 'spawnq', 'rx')], {})
    return st, co


def replay():
    import C08_tlspawn_replay
    return C08_tlspawn_replay.replay()


def check_caller(ctx, prog):
    """`ThreadLocalActorSpawner::spawn`, polled by hand: request queued (pending) -> guard received, start task awaited (pending) -> result. The coroutine is
    dropped at each of the two suspension points."""
    body = prog.find_fn(SPAWN)
    if body is None:
        raise Inconclusive(SPAWN + ' not found')
    ctx.encoded(prog, body)
    gd = prog.crate.struct('AbortOnDropHandle')
    if not gd or gd['fields'] != ['handle']:
        raise Inconclusive('AbortOnDropHandle fields changed: %s' % (gd and gd['fields']))
    I = new_interp(prog)
    ready = {'now': False}

    def poll_joinhandle(I, st, v, cell, path, cx, fr):
        if not ready['now']:
            st.emit('START_TASK_PENDING')
            return [Outcome(st, 'ret', models_std.PENDING)]
        st.emit('START_TASK_DONE')
        return [Outcome(st, 'ret', models_std.ready(models_std.ok(models_std.ok(Agg('JoinHandle', (I.mk_int(99, 'usize'),))))))]
    I.hooks['poll_joinhandle'] = poll_joinhandle

    def chan_value(I, st, o, idterm):
        # what the spawner thread puts into the reply port: the guard around the start task's handle (C08_c moved the guard: accept both shapes)
        inner = Agg('JoinHandle', (I.mk_int(42, 'usize'),))
        return [(st, Agg('AbortOnDropHandle', (models_std.some(inner),)))]
    I.hooks['chan_value'] = chan_value
    st = State()
    st.objs['spawnq'] = objects.chan_init(4)
    sp = st.alloc(Agg('ThreadLocalActorSpawner', (Obj('chan', 'spawnq', 'tx'),)))
    st, coro = lc.make_coro(I, st, prog, SPAWN, [Ref(sp, ()), Opaque('builder', ident='the-builder'), models_std.NONE])
    cc = st.alloc(coro)

    def aborted(s):
        return [e for e in s.trace if e[0] == 'ABORT']

    def dropped_at(s, label, want_abort):
        s2 = s.fork()
        outs = I.drop_value(s2, I.read(s2, cc, ()), Ref(cc, (), True))
        for k, o in enumerate(outs):
            claims = {'no_panic': o.kind == 'ret'}
            if want_abort:
                claims['dropping_the_spawn_while_the_start_task_runs_aborts_it'] = len(aborted(o.st)) == 1
            else:
                claims['nothing_to_abort_before_the_guard_arrived'] = not aborted(o.st)
            lp.record(ctx, 'tlspawn.caller.dropped_%s.path%d' % (label, k), o.st, claims, 'C08.tlspawn', on_cex=lambda m: replay())
    # poll 1: the request is queued, the reply is awaited
    outs = [o for o in lc.poll_coro(I, st, cc)]
    ctx.paths += len(outs)
    n_ok = 0
    for o in outs:
        if o.kind != 'ret' or not (isinstance(o.val, Enum) and o.val.variant == 'Pending'):
            continue
        s = o.st
        queued = z3.is_true(z3.simplify(s.objs['spawnq']['len'] == 1))
        lp.record(ctx, 'tlspawn.caller.poll1', s, {'the_request_is_queued_once': queued}, 'C08.tlspawn', on_cex=lambda m: replay())
        dropped_at(s, 'while_queued', False)
        # the spawner thread answers: the reply port becomes full
        oid = next((k for k in s.objs if k.startswith('os')), None)
        if oid is None:
            raise Inconclusive('reply one-shot not found in the state')
        r = dict(s.objs[oid])
        r['st'] = z3.BitVecVal(1, 2)
        r['val'] = z3.BitVecVal(5, objects.ID_BITS)
        s.objs[oid] = r
        for o2 in lc.poll_coro(I, s, cc):
            if o2.kind != 'ret' or not (isinstance(o2.val, Enum) and o2.val.variant == 'Pending'):
                lp.record(ctx, 'tlspawn.caller.poll2', o2.st, {'the_start_task_is_awaited': False}, 'C08.tlspawn', on_cex=lambda m: replay())
                continue
            s2 = o2.st
            dropped_at(s2, 'while_the_start_task_runs', True)
            ready['now'] = True
            for o3 in lc.poll_coro(I, s2.fork(), cc):
                okk = o3.kind == 'ret' and isinstance(o3.val, Enum) and o3.val.variant == 'Ready'
                lp.record(ctx, 'tlspawn.caller.poll3', o3.st, {'the_result_is_returned_and_nothing_is_aborted': okk and not aborted(o3.st)}, 'C08.tlspawn', on_cex=lambda m: replay())
                n_ok += 1 if okk else 0
            ready['now'] = False
    ctx.absorb(I)
    ctx.note_witness('C08.tlspawn.caller_completes', n_ok > 0)


def check(ctx, prog):
    check_loop(ctx, prog)
    check_caller(ctx, prog)
    ctx.bounds['tlspawn'] = ('the spawner loop for one queued request (reply receiver alive / dropped) and ThreadLocalActorSpawner::spawn over its three polls with a drop at each suspension '
                             'point; tokio spawn_local / JoinHandle::abort / one-shot contracts; the tokio_unstable named-spawn branch and the async-std / wasm spawners are outside')
