"""C03 (request slice) - what "kill() / stop() has returned" means: the selection checks of C03 assume that the corresponding one-shot port is full at every
later poll. This slice discharges that assumption on the real senders: `ActorProperties::send_stop`, `ActorProperties::send_signal` and the public
`ActorCell::stop` / `ActorCell::kill`, from every pre-state (actor status symbolic - every lifecycle phase incl. Draining -, port still unused or already used,
receiver alive or gone, reason given or not):

  * when the call returns the port has been used: either this call put its request into the one-shot (the exact StopMessage / Signal::Kill), or an earlier call
    had already used it, or the receiver is gone (the actor has exited);
  * the outcome does not depend on the actor's status; nothing but the port (its mutex and the one-shot) is touched;
  * Ok is returned iff this call's request was placed."""
import re
import z3

import lifecycle as lc
import lifeprops as lp
import actor_run as ar
import models_std
import objects
from exec import State, Outcome, Inconclusive
from values import *

FNS = {'send_stop': ('ActorProperties::send_stop', 'stop'), 'send_signal': ('ActorProperties::send_signal', 'signal'),
       'stop': ('ActorCell::stop', 'stop'), 'kill': ('ActorCell::kill', 'signal')}


def check(ctx, prog):
    seen = set()
    for op, (fn, port) in FNS.items():
        body = prog.find_fn(fn)
        if body is None:
            raise Inconclusive(fn + ' not found')
        ctx.encoded(prog, body)
        for present in (True, False):
            for with_reason in ((True, False) if port == 'stop' else (False,)):
                I = ar.new_interp(prog, 1)
                sent = []

                def ident(I, st, o, v, sent=sent):
                    sent.append(v)
                    return 5
                I.hooks['oneshot_ident'] = ident
                st = State()
                a = ar.Actor(prog, I, st, False, 2)
                status = z3.BitVec('status0', 8)
                st.assume(z3.ULE(status, 5))
                st.objs['a_status'] = {'w': status}
                tx = 'a_stoptx' if port == 'stop' else 'a_sigtx'
                mx = 'a_stopmx' if port == 'stop' else 'a_sigmx'
                rxgone = z3.Bool('receiver_gone')
                o0 = dict(st.objs[tx])
                o0['rxclosed'] = rxgone
                st.objs[tx] = o0
                if not present:
                    st.cells[st.ghost[('mutex_inner', mx)]] = models_std.NONE
                t0 = len(st.trace)
                if op in ('send_stop', 'send_signal'):
                    this = Ref(a.pcell, ())
                else:
                    this = Ref(st.alloc(a.cell), ())
                if port == 'stop':
                    args = [this, models_std.some(Str('the-reason')) if with_reason else models_std.NONE]
                elif op == 'send_signal':
                    args = [this, Enum('Signal', 'Kill', 0, ())]
                else:
                    args = [this]
                outs = I.run_body(st, body, args)
                ctx.absorb(I)
                ctx.paths += len(outs)
                for k, o in enumerate(outs):
                    name = 'request.%s.%s.%s.path%d' % (op, 'unused' if present else 'used', 'reason' if with_reason else 'plain', k)
                    cex = lambda m, op=op: replay(op)
                    if o.kind != 'ret':
                        lp.record(ctx, name, o.st, {'no_panic': False}, 'C03.request', on_cex=cex)
                        continue
                    s = o.st
                    inner = s.cells[s.ghost[('mutex_inner', mx)]]
                    taken = isinstance(inner, Enum) and inner.variant == 'None'
                    ob = s.objs[tx]
                    ops = [e for e in s.trace[t0:] if e[0] == 'OP']
                    foreign = [e for e in ops if e[1] not in (tx, mx) and not (e[1] == 'a_status' and str(e[2]).startswith('load'))]    # reading the status is harmless: the outcome claims below quantify over it
                    sends = [e for e in ops if e[1] == tx and e[2] == 'send']
                    claims = {'the_port_has_been_used_when_the_call_returns': taken,
                              'nothing_but_the_port_is_touched': not foreign and z3.is_true(z3.simplify(s.objs['a_status']['w'] == status)),
                              'at_most_one_request_is_placed': len(sends) <= (1 if present else 0)}
                    lp.record(ctx, name, s, claims, 'C03.request', on_cex=cex,
                              sample={'function': fn, 'port': port, 'port_unused_before': present, 'claim': 'after the call the port is used; request placed iff unused and receiver alive, for every status'})
                    # placed iff (unused before and the receiver is alive), whatever the status
                    placed = z3.And(ob['st'] == 1, ob['val'] == 5) if sends else z3.BoolVal(False)
                    want = z3.And(z3.BoolVal(present), z3.Not(rxgone))
                    ctx.prove(name + '.request_placed_iff_port_unused_and_receiver_alive', s.pc, placed == want, group='C03.request.request_placed_iff_port_unused_and_receiver_alive',
                              key='C03.request.request_placed_iff_port_unused_and_receiver_alive', on_cex=cex)
                    if sends:
                        v = sent[-1] if sent else None
                        if port == 'stop':
                            good = isinstance(v, Enum) and ((with_reason and v.variant == 'Reason' and isinstance(v.fields[0], Str) and v.fields[0].s == 'the-reason') or (not with_reason and v.variant == 'Stop'))
                        else:
                            good = isinstance(v, Enum) and v.variant == 'Kill'
                        lp.record(ctx, name, s, {'the_request_carries_the_given_reason_or_kill': bool(good)}, 'C03.request', on_cex=cex)
                        seen.add(op + '.placed')
                    if op in ('send_stop', 'send_signal'):
                        okk = isinstance(o.val, Enum) and o.val.variant == 'Ok'
                        ctx.prove(name + '.ok_iff_placed', s.pc, z3.BoolVal(okk) == want, group='C03.request.ok_iff_placed', key='C03.request.ok_iff_placed', on_cex=cex)
                        if not okk:
                            seen.add(op + '.refused')
    for w in ('send_stop.placed', 'send_signal.placed', 'stop.placed', 'kill.placed', 'send_stop.refused', 'send_signal.refused'):
        ctx.note_witness('C03.request.' + w, w in seen)
    ctx.bounds['request'] = ('send_stop / send_signal / ActorCell::stop / ActorCell::kill from every pre-state: status byte symbolic (0..5), port unused or used, receiver alive or gone (symbolic), '
                             'reason given or not; std Mutex and tokio oneshot contracts trusted; two requests racing for the port are serialised by its mutex (lock held across take())')


def replay(op):
    import C03_request_replay
    return C03_request_replay.replay('kill' if op in ('kill', 'send_signal') else 'stop')
