"""common runner for the lifecycle properties C01 / C04 / C08 (and the dispatch part of C03)"""
import os
import z3

import lifecycle as lc
import lifetrace as lt
import lifeoracles as lo
import actor_run as ar
from exec import Inconclusive
from values import *


def record(ctx, name, st, claims, group_prefix, sample=None, on_cex=None):
    n_bad = 0
    for cname, val in claims.items():
        okk = bool(val)
        ctx.prove('%s.%s' % (name, cname), st.pc, z3.BoolVal(okk), group='%s.%s' % (group_prefix, cname), key='%s.%s' % (group_prefix, cname),
                  sample=sample if okk else None, on_cex=on_cex)
        n_bad += 0 if okk else 1
    return n_bad


def instances(tier):
    # runtime, poll budget, with supervisor
    if tier == 'quick':
        # both loop twins on every change: the thread-local runtime (thread_local/inner.rs) duplicates start / processing_loop / process_message / handle_message
        return [('ActorRuntime', 1, True), ('ThreadLocalActorRuntime', 1, True)]
    return [('ActorRuntime', 1, True), ('ActorRuntime', 2, True), ('ActorRuntime', 1, False), ('ThreadLocalActorRuntime', 1, True)]


def explore(ctx, prog, runtime, budget, with_sup, cancel_points=False):
    # the loop runs while the actor is Running / Upgrading / Draining: whatever it reads about its own status is any of those (a status-dependent reaction
    # cannot hide behind a constant fixture)
    I1, a1, pm = lt.explore_process_message(prog, runtime, budget, loop_status=(2, 4))
    ctx.absorb(I1)
    S = lt.classes_of(pm)
    I, a, res = lt.explore_lifecycle(prog, S, runtime, budget, with_sup, cancel_points=cancel_points, kill_reason=lt.kill_reason_of(pm))
    ctx.absorb(I)
    ctx.paths += len(pm) + len(res)
    ctx.extra.setdefault('explorations', []).append({'runtime': runtime, 'poll_budget': budget, 'supervisor': with_sup, 'process_message_paths': len(pm),
                                                     'process_message_classes': [list(c) for c in S], 'lifecycle_paths': len(res),
                                                     'incomplete_paths_poll_budget': sum(1 for r in res if r['kind'] == 'budget')})
    return I1, a1, pm, S, I, a, res


def encoded(ctx, prog, runtime):
    for fn in ('start', 'processing_loop', 'process_message', 'handle_message', 'handle_supervision_message', 'do_pre_start', 'do_post_start', 'do_post_stop', 'handle_signal'):
        b = prog.find_fn('%s::<TActor>::%s' % (runtime, fn))
        if b is None:
            raise Inconclusive('function not found in dump: %s::%s' % (runtime, fn))
        ctx.encoded(prog, b)
    for fn in ('ActorLifecycleGuard::cleanup', 'ActorLifecycleGuard::finish', '<ActorLifecycleGuard as Drop>::drop', 'ActorPortSet::run_with_signal', 'ActorPortSet::listen_in_priority',
               'ActorCell::set_status', 'SupervisionTree::notify_supervisor', 'SupervisionTree::link'):
        b = prog.find_fn(fn)
        if b is None:
            raise Inconclusive('function not found in dump: ' + fn)
        ctx.encoded(prog, b)


COMMON_BOUNDS = {
    'layers': 'L1: one process_message iteration from an arbitrary loop-head state (real MIR incl. tokio select! expansion); L2: start + spawned task + processing_loop (real MIR) '
              'with process_message replaced by a nondeterministic choice among the outcome classes L1 produced (recomputed every run), at most 2 continuing iterations',
    'ports': 'contents of the four ports are arbitrary (symbolic) before every poll: covers any behaviour of senders, stoppers, killers, children between two polls',
    'callbacks': 'opaque: every poll returns Pending (within the poll budget), Ready(Ok), Ready(Err) or panics',
    'outside': 'more Pending polls per callback than the budget; more than 2 handled items per run (each iteration is independent of the previous ones: L1 starts from an arbitrary state); '
               'async-std / wasm back ends; the async-trait feature (quick tier); user code that blocks the executor',
}
COMMON_ASSUMPTIONS = [
    'futures::FutureExt::catch_unwind turns an unwinding poll of the wrapped future into Ready(Err(payload)); TryFutureExt::map_err, tracing::Instrument are transparent',
    'tokio::spawn runs the given future as a separate task (driven by the harness poll by poll); poll_budget_available is Ready',
    'registry / pid registry / pg calls are recorded as effects (their behaviour is checked in C10 / C11); <ActorPortSet as Drop>::drop is summarised as "closes and flushes the four '
    'queues" inside L2 and checked on its own in C08',
    'tokio oneshot / mpsc / Notify / std Mutex / HashMap contracts as in DESIGN.md 3.1',
]


def kill_preemption(ctx, name, st, key, on_cex=None):
    """C01 / C03: a kill that is waiting when the actor task is polled pre-empts every callback - in such a poll no callback starts and none runs on to its
    end (the signal port is looked at before the callback future is polled). Every callback start / end event that follows a poll-start marker must lie on a
    path on which no kill was waiting at that marker."""
    cur = None
    n = 0
    for e in st.trace:
        if e[0] == 'PORTS':
            cur = e[2]
        elif e[0] == 'CB' and e[1] in ('start', 'end') and cur is not None and not z3.is_false(cur):
            n += 1
            ctx.prove('%s.%s_%s_not_in_a_poll_that_began_with_a_kill_waiting.%d' % (name, e[2], e[1], n), st.pc, z3.Not(cur),
                      group='%s.a_waiting_kill_preempts_every_callback' % key, key=key + '.a_waiting_kill_preempts_every_callback', on_cex=on_cex)
    return n


def kill_look_before_every_callback(ctx, name, st, key, skip=(), on_cex=None):
    """C01 / C03: the first poll of every callback is immediately preceded by a look at the kill port - no other shared operation, and in particular no dequeue,
    lies between the two. That is what bounds "once kill() has returned no further callback starts" to the few instructions between that look and the callback's
    first instruction: a kill that arrives anywhere earlier (e.g. between the loop picking up a stop request and post_stop) is seen by that look."""
    tr = st.trace
    bad = []
    n = 0
    for i, e in enumerate(tr):
        if e[0] == 'CB' and e[1] == 'start' and e[2] not in skip:
            n += 1
            j = i - 1
            while j >= 0 and tr[j][0] not in ('OP', 'RECV', 'CB'):
                j -= 1
            okk = j >= 0 and tr[j][0] == 'OP' and tr[j][1] == 'sigq' and tr[j][2] == 'poll'
            if not okk:
                bad.append(e[2])
    if n:
        ctx.prove('%s.the_kill_port_is_looked_at_immediately_before_every_callback_starts' % name, st.pc, z3.BoolVal(not bad),
                  group='%s.the_kill_port_is_looked_at_immediately_before_every_callback_starts' % key, key=key + '.the_kill_port_is_looked_at_immediately_before_every_callback_starts', on_cex=on_cex)
    return n
