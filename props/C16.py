"""C16 - Output ports fan out in order without duplicates (default / v1 port; sequential mode over the forwarding task's coroutine).

The real per-subscriber forwarding task (`OutputPortSubscription::new`'s async block), `OutputPort::send` and `OutputPort::subscribe`
run from MIR. The broadcast receiver is the environment: every `recv` yields the next retained publication (strictly increasing
positions), `Lagged(n)` (n >= 1 positions lost, the receiver continues with a later one), `Closed`, or is pending."""
import re
import z3

import lifecycle as lc
import lifeprops as lp
import models_std
from exec import State, Outcome, Inconclusive, Unmodelled, val_key
from values import *

MAX_ITEMS = 3


def new_interp(prog):
    I = lc.new_interp(prog, poll_budget=0, loop_bound=MAX_ITEMS + 2)
    I.objinfo = {}
    I.max_paths = 100000

    @I.model(r'^tokio::spawn(::<.*>)?$', 'tokio::spawn (future driven by the harness)')
    def m_spawn(I, st, f, args, fr):
        c = st.alloc(args[0])
        st.ghost['spawned'] = st.ghost.get('spawned', ()) + (c,)
        return I.ret(st, Agg('JoinHandle', (I.mk_int(c, 'usize'),)))

    @I.model(r'(^|::)broadcast::Receiver::<.*>::recv$', 'broadcast::Receiver::recv (future; contract: retained publications in order, Lagged(n), Closed)')
    def m_recv(I, st, f, args, fr):
        return I.ret(st, Agg('BroadcastRecv', (args[0],)))

    def call_opaque(I, st, callee, args, fr):
        if callee.ident == 'converter':
            st.emit('CONVERT', args[0])
            s2 = st.fork()
            s2.emit('CONVERTED', args[0], None)
            out = Opaque('converted', ident=('converted', getattr(args[0], 'ident', None)), info=args[0])
            st.emit('CONVERTED', args[0], out)
            return [Outcome(st, 'ret', models_std.some(out)), Outcome(s2, 'ret', models_std.NONE)]
        raise Unmodelled('opaque call %r' % (callee,))
    I.hooks['call_opaque'] = call_opaque

    def cast(I, st, f, args, fr):
        okk = I.fresh_bool('cast_ok')
        st.emit('CAST', args[1], okk)
        outs = []
        for s2, succ in models_std.branch(I, st, okk):
            outs.append(Outcome(s2, 'ret', models_std.ok(UNIT) if succ else models_std.err(Enum('MessagingErr', 'SendErr', 0, (args[1],)))))
        return outs
    I.override.append((re.compile(r'(^|::)ActorRef::<.*>::cast$|<impl (\w+::)*ActorRef<.*>>::cast$'), cast))

    def get_status(I, st, f, args, fr):
        # a forwarder that looks at its subscriber's status sees an arbitrary one
        sv = I.fresh_int('subscriber_status', 'u8', st)
        st.assume(z3.ULE(sv.t, 6))
        st.emit('STATUS_READ', sv)
        return I.ret(st, SymEnum('ActorStatus', I.cast_int(sv, 'isize')))
    I.override.append((re.compile(r'(^|::)ActorCell::get_status$|(^|::)ActorRef::<.*>::get_status$'), get_status))

    @I.model(r'^<(\w+::)*ActorRef<.*> as Deref>::deref$', 'ActorRef deref')
    def m_deref(I, st, f, args, fr):
        return I.ret(st, args[0])

    prev = I.hooks.get('poll_other')

    def poll_other(I, st, v, cell, path, cx, fr):
        if not (isinstance(v, Agg) and v.ty == 'BroadcastRecv'):
            return prev(I, st, v, cell, path, cx, fr) if prev else None
        n = st.ghost.get('recv_count', 0)
        cursor = st.ghost['cursor']
        outs = []
        # pending (nothing published yet); at most one pending per receive
        if not st.ghost.get('recv_pending'):
            s0 = st.fork()
            s0.ghost['recv_pending'] = True
            s0.emit('RECV_PENDING')
            outs.append(Outcome(s0, 'ret', models_std.PENDING))
        if n >= MAX_ITEMS:
            # bound on the explored stream: the channel closes
            choices = ['closed']
        else:
            choices = ['msg', 'lagged', 'closed', 'none']
        for i, ch in enumerate(choices):
            s = st.fork() if i < len(choices) - 1 else st
            s.ghost['recv_pending'] = False
            s.ghost['recv_count'] = n + 1
            if ch == 'msg':
                m = Opaque('published', ident=('pub', n), info=cursor)
                s.emit('RECV', m, cursor)
                s.ghost['cursor'] = Sc(cursor.t + 1, 'u64')
                outs.append(Outcome(s, 'ret', models_std.ready(models_std.ok(models_std.some(m)))))
            elif ch == 'lagged':
                k = I.fresh_int('lagged_by', 'u64', s)
                s.assume(z3.And(z3.UGE(k.t, 1), z3.ULT(k.t, 1 << 32)))
                s.emit('LAGGED', k)
                s.ghost['cursor'] = Sc(cursor.t + k.t, 'u64')
                outs.append(Outcome(s, 'ret', models_std.ready(models_std.err(Enum('RecvError', 'Lagged', 1, (k,))))))
            elif ch == 'closed':
                s.emit('CLOSED')
                outs.append(Outcome(s, 'ret', models_std.ready(models_std.err(Enum('RecvError', 'Closed', 0, ())))))
            else:
                s.emit('RECV_NONE')
                outs.append(Outcome(s, 'ret', models_std.ready(models_std.ok(models_std.NONE))))
        return outs
    I.hooks['poll_other'] = poll_other
    return I


def drive(I, st, cc, max_polls):
    frontier = [(st, 0)]
    done = []
    while frontier:
        s, n = frontier.pop()
        for o in lc.poll_coro(I, s, cc):
            if o.kind != 'ret':
                done.append((o.st, o.kind, o.val))
            elif o.val.variant == 'Ready':
                done.append((o.st, 'ready', o.val.fields[0]))
            elif n + 1 < max_polls:
                frontier.append((o.st, n + 1))
            else:
                done.append((o.st, 'budget', None))
    return done


def check_forwarder(ctx, prog):
    fn = 'OutputPortSubscription::new'
    body = prog.find_fn(fn)
    if body is None:
        raise Inconclusive('OutputPortSubscription::new not found (default output port)')
    ctx.encoded(prog, body)
    rb = prog.find_fn(fn + '::{closure#0}')
    if rb is not None:
        ctx.encoded(prog, rb)
    I = new_interp(prog)
    st = State()
    start = I.fresh_int('subscribed_at', 'u64', st)
    st.assume(z3.ULT(start.t, 1 << 40))
    st.ghost['cursor'] = start
    recv = Opaque('broadcast-receiver', ident='rx')
    target = Agg('ActorRef', (Agg('ActorCell', (Opaque('props', ident='subscriber'),)), Agg('PhantomData', ())))
    args = [recv, Opaque('converter', ident='converter'), target]
    # parameters the pinned tree does not have: an arbitrary shared counter / flag each (any value)
    for (an, aty) in list(getattr(body, 'args', []))[3:]:
        oid = 'arg_' + str(an).strip('_')
        st.objs[oid] = {'w': I.fresh_int('arg_' + str(an).strip('_'), 'usize', st).t}
        args.append(BoxV(st.alloc(Obj('atomic', oid)), 'Arc') if 'Arc' in str(aty) else Obj('atomic', oid))
    outs = I.run_body(st, body, args)
    if len(outs) != 1 or outs[0].kind != 'ret':
        raise Inconclusive('OutputPortSubscription::new did not return normally')
    st = outs[0].st
    sp = st.ghost.get('spawned', ())
    if len(sp) != 1:
        raise Inconclusive('expected one forwarding task, found %d' % len(sp))
    res = drive(I, st, sp[0], 2 * MAX_ITEMS + 3)
    ctx.absorb(I)
    ctx.paths += len(res)
    seen = set()
    for k, (s, kind, v) in enumerate(res):
        name = 'forwarder.path%d' % k
        tr = [e for e in s.trace if e[0] in ('RECV', 'LAGGED', 'CLOSED', 'RECV_NONE', 'CONVERT', 'CONVERTED', 'CAST', 'RECV_PENDING')]
        status_reads = [e for e in s.trace if e[0] == 'STATUS_READ']
        cex = lambda m: replay('forwarder')
        claims = {'never_panics': kind in ('ready', 'budget')}
        # walk the trace: every received message is converted exactly once, right away; a Some result is cast exactly once, right away; nothing else is cast
        okk = True
        i = 0
        ended_by = None
        casts = []
        recvs = []
        while i < len(tr) and okk:
            e = tr[i]
            if e[0] == 'RECV_PENDING':
                i += 1
            elif e[0] == 'RECV':
                recvs.append(e)
                if not (i + 2 < len(tr) and tr[i + 1][0] == 'CONVERT' and tr[i + 1][1] is e[1] and tr[i + 2][0] == 'CONVERTED' and tr[i + 2][1] is e[1]):
                    okk = False
                    break
                conv = tr[i + 2][2]
                i += 3
                if conv is not None:
                    if not (i < len(tr) and tr[i][0] == 'CAST' and tr[i][1] is conv):
                        okk = False
                        break
                    casts.append((tr[i], e))
                    i += 1
            elif e[0] == 'LAGGED':
                seen.add('lagged')
                i += 1
            elif e[0] in ('CLOSED', 'RECV_NONE'):
                ended_by = e[0]
                i += 1
                okk = okk and i == len(tr)
            else:
                okk = False
        if status_reads and not okk:
            # a forwarder that consults the subscriber's status may drop the publication in hand when it gives up; whether giving up was justified is decided below
            okk = kind == 'ready'
        claims['each_publication_converted_once_and_cast_at_most_once_in_order'] = okk
        # positions delivered are strictly increasing (no duplicate, no reordering) and not before the subscription point
        pos = [c[1][2] for c in casts]
        for a, b in zip(pos, pos[1:]):
            ctx.prove('%s.delivery_positions_strictly_increase' % name, s.pc, z3.ULT(a.t, b.t), group='C16.forwarder.delivery_positions_strictly_increase', key='C16.forwarder', on_cex=cex)
        for a in pos[:1]:
            ctx.prove('%s.nothing_from_before_the_subscription' % name, s.pc, z3.UGE(a.t, start.t), group='C16.forwarder.nothing_from_before_the_subscription', key='C16.forwarder', on_cex=cex)
        if kind == 'ready':
            # the task ends only because the channel closed / ended, or the subscriber refused a message
            last_cast = casts[-1][0] if casts else None
            if ended_by is None:
                cond = z3.Not(last_cast[2]) if last_cast is not None and tr and tr[-1] is last_cast else z3.BoolVal(False)
                # giving up on a subscriber that can no longer take messages (Draining or later) is a dropped subscriber, not a lost subscription
                if status_reads:
                    cond = z3.Or(cond, z3.UGE(status_reads[-1][1].t, 4))
                ctx.prove(name + '.ends_only_on_close_or_refused_delivery', s.pc, cond, group='C16.forwarder.ends_only_on_close_or_refused_delivery', key='C16.forwarder', on_cex=cex)
                seen.add('ended_by_refusal')
            else:
                seen.add('ended_by_close')
        # a refused delivery ends the task at once: no receive after a failed cast
        for (c, _e) in casts[:-1]:
            ctx.prove(name + '.continues_only_after_accepted_delivery', s.pc, c[2], group='C16.forwarder.continues_only_after_accepted_delivery', key='C16.forwarder', on_cex=cex)
        if casts and tr and tr[-1] is not casts[-1][0]:
            ctx.prove(name + '.continues_only_after_accepted_delivery.last', s.pc, casts[-1][0][2], group='C16.forwarder.continues_only_after_accepted_delivery', key='C16.forwarder', on_cex=cex)
        if len(casts) >= 2:
            seen.add('two_deliveries')
        if any(e[0] == 'CONVERTED' and e[2] is None for e in tr):
            seen.add('skipped_by_converter')
        if any(tr[j][0] == 'LAGGED' and j + 1 < len(tr) for j in range(len(tr))):
            seen.add('continues_after_lag')
        lp.record(ctx, name, s, claims, 'C16.forwarder', sample={'events': [e[0] for e in tr][:16], 'outcome': kind} if k < 6 else None, on_cex=cex)
    for w in ('two_deliveries', 'skipped_by_converter', 'continues_after_lag', 'ended_by_refusal', 'ended_by_close'):
        ctx.note_witness('C16.forwarder.' + w, w in seen)


def check_send(ctx, prog):
    """OutputPort::send: synchronous (no await point exists in a plain fn), publishes Some(msg) exactly once iff there is a receiver"""
    body = prog.find_fn('OutputPort::<TMsg>::send')
    if body is None:
        raise Inconclusive('OutputPort::send not found')
    ctx.encoded(prog, body)
    I = new_interp(prog)

    @I.model(r'(^|::)broadcast::Sender::<.*>::receiver_count$', 'broadcast::Sender::receiver_count (any value)')
    def m_rc(I, st, f, args, fr):
        return I.ret(st, st.ghost['receivers'])

    @I.model(r'(^|::)broadcast::Sender::<.*>::send$', 'broadcast::Sender::send (recorded)')
    def m_bsend(I, st, f, args, fr):
        st.emit('PUBLISH', args[1])
        return I.ret(st, models_std.ok(I.mk_int(1, 'usize')))
    st = State()
    # how many receivers the broadcast channel has is a fact of the environment, whether or not the code asks for it
    st.ghost['receivers'] = I.fresh_int('receivers', 'usize', st)
    d = prog.crate.struct('OutputPort', 'port/output.rs')

    def field_value(k):
        if k == 'tx':
            return Opaque('broadcast-sender', ident='tx')
        if k == 'subscriptions':
            return Opaque('subs')
        # a field the pinned tree does not have: an arbitrary shared counter / flag (any value) - whatever bookkeeping it is meant to mirror, the claim below is
        # about the channel's real receivers
        oid = 'fld_' + k
        st.objs[oid] = {'w': I.fresh_int('field_' + k, 'usize', st).t}
        return BoxV(st.alloc(Obj('atomic', oid)), 'Arc')
    port = Agg('OutputPort', [field_value(k) for k in d['fields']])
    msg = Opaque('the-message', ident='the-message')
    outs = I.run_body(st, body, [Ref(st.alloc(port), ()), msg])
    ctx.absorb(I)
    for k, o in enumerate(outs):
        name = 'send.path%d' % k
        cex = lambda m: replay('send')
        pubs = [e for e in o.st.trace if e[0] == 'PUBLISH']
        rc = o.st.ghost.get('receivers')
        claims = {'returns_without_blocking_or_panicking': o.kind == 'ret', 'publishes_at_most_once': len(pubs) <= 1,
                  'publishes_the_message_itself': all(isinstance(p[1], Enum) and p[1].variant == 'Some' and p[1].fields[0] is msg for p in pubs)}
        lp.record(ctx, name, o.st, claims, 'C16.send', on_cex=cex)
        if rc is not None:
            # (publishing into a channel nobody listens to would be harmless: only the direction "someone listens => published" is demanded)
            ctx.prove(name + '.published_when_someone_listens', o.st.pc, z3.Implies(z3.UGT(rc.t, 0), z3.BoolVal(len(pubs) == 1)), group='C16.send.published_when_someone_listens', key='C16.send', on_cex=cex)
    ctx.note_witness('C16.send.both_branches', len(outs) >= 2)


def check_subscribe(ctx, prog):
    """OutputPort::subscribe prunes exactly the finished subscriptions and adds one task on a fresh receiver of this port"""
    body = prog.find_fn('OutputPort::<TMsg>::subscribe')
    if body is None:
        raise Inconclusive('OutputPort::subscribe not found')
    ctx.encoded(prog, body)
    d = prog.crate.struct('OutputPort', 'port/output.rs')
    for n_old in (0, 1, 2):
        I = new_interp(prog)

        @I.model(r'(^|::)broadcast::Sender::<.*>::subscribe$', 'broadcast::Sender::subscribe (fresh receiver)')
        def m_sub(I, st, f, args, fr):
            st.emit('NEW_RECEIVER', models_std.deref_val(I, st, args[0]))
            return I.ret(st, Opaque('broadcast-receiver', ident=('rx', fresh_id())))

        @I.model(r'(^|::)JoinHandle::<.*>::is_finished$', 'JoinHandle::is_finished (any)')
        def m_fin(I, st, f, args, fr):
            h = models_std.deref_val(I, st, args[0])
            key = ('finished', h.fields[0].concrete() if isinstance(h, Agg) else id(h))
            if key not in st.ghost:
                st.ghost[key] = z3.Bool('task_%s_finished' % (key[1],))
            return I.ret(st, st.ghost[key])

        @I.model(r'(^|::)RwLock::<.*>::write$', 'RwLock::write (uncontended)')
        def m_write(I, st, f, args, fr):
            r = args[0]
            return I.ret(st, models_std.ok(Agg('RwLockWriteGuard', (Ref(r.cell, r.path + (0,), True),))))

        @I.model(r'^<(std::sync::)?RwLockWriteGuard<.*> as Deref(Mut)?>::deref(_mut)?$', 'RwLockWriteGuard deref')
        def m_gderef(I, st, f, args, fr):
            g = models_std.deref_val(I, st, args[0])
            return I.ret(st, g.fields[0])
        I.type_drops['RwLockWriteGuard'] = lambda I, st, v, ref: I.ret(st, UNIT)
        @I.model(r'(^|::)JoinHandle::<.*>::abort$|(^|::)JoinHandle::abort$', 'JoinHandle::abort')
        def m_abort(I, st, f, args, fr):
            h = models_std.deref_val(I, st, args[0])
            st.emit('ABORTED', h.fields[0].concrete() if isinstance(h, Agg) else id(h))
            return I.ret(st, UNIT)
        st = State()
        sdef = prog.crate.struct('OutputPortSubscription', 'port/output.rs') or prog.crate.struct('OutputPortSubscription')
        if not sdef or 'handle' not in sdef['fields']:
            raise Inconclusive('OutputPortSubscription fields changed: %s' % (sdef and sdef['fields']))
        # fields other than the task handle (none on the pinned tree) are opaque; a status read through them yields an arbitrary status
        olds = [Agg('OutputPortSubscription', tuple(Agg('JoinHandle', (I.mk_int(1000 + i, 'usize'),)) if fld == 'handle' else Agg('ActorCell', (Opaque('props', ident='old-subscriber-%d' % i),))
                                                    for fld in sdef['fields'])) for i in range(n_old)]
        port = Agg('OutputPort', [Opaque('broadcast-sender', ident='tx') if k == 'tx' else Agg('RwLock', (Agg('Vec', olds),)) for k in d['fields']])
        pc = st.alloc(port)
        target = Agg('ActorRef', (Agg('ActorCell', (Opaque('props', ident='subscriber'),)), Agg('PhantomData', ())))
        outs = I.run_body(st, body, [Ref(pc, ()), target, Opaque('converter', ident='converter')])
        ctx.absorb(I)
        ctx.paths += len(outs)
        for k, o in enumerate(outs):
            name = 'subscribe.old%d.path%d' % (n_old, k)
            cex = lambda m: replay('subscribe')
            if o.kind != 'ret':
                lp.record(ctx, name, o.st, {'returns': False}, 'C16.subscribe', on_cex=cex)
                continue
            after = I.read(o.st, pc, ())
            subs = after.fields[d['fields'].index('subscriptions')].fields[0].fields
            kept = [x for x in subs if val_key(x) in {val_key(y) for y in olds}]
            new = [x for x in subs if val_key(x) not in {val_key(y) for y in olds}]
            rxs = [e for e in o.st.trace if e[0] == 'NEW_RECEIVER']
            claims = {'exactly_one_new_subscription_last': len(new) == 1 and subs and subs[-1] is new[0] if new else False,
                      'new_task_listens_on_a_fresh_receiver_of_this_port': len(rxs) == 1 and isinstance(rxs[0][1], Opaque) and rxs[0][1].ident == 'tx' and len(o.st.ghost.get('spawned', ())) == 1}
            lp.record(ctx, name, o.st, claims, 'C16.subscribe', on_cex=cex)
            for i, old in enumerate(olds):
                fin = o.st.ghost.get(('finished', 1000 + i))
                if fin is None:
                    lp.record(ctx, name + '.old%d' % i, o.st, {'every_old_subscription_is_examined': False}, 'C16.subscribe', on_cex=cex)
                    continue
                is_kept = any(val_key(x) == val_key(old) for x in kept)
                ctx.prove('%s.old%d_kept_iff_still_running' % (name, i), o.st.pc, z3.BoolVal(is_kept) == z3.Not(fin), group='C16.subscribe.kept_iff_still_running', key='C16.subscribe', on_cex=cex)
                was_aborted = any(e[0] == 'ABORTED' and e[1] == 1000 + i for e in o.st.trace)
                ctx.prove('%s.old%d_a_running_forwarder_is_never_aborted' % (name, i), o.st.pc, z3.Or(z3.BoolVal(not was_aborted), fin), group='C16.subscribe.a_running_forwarder_is_never_aborted', key='C16.subscribe', on_cex=cex)
    ctx.note_witness('C16.subscribe.explored', True)


_replayed = {}


def replay(which):
    import C16_replay
    if which not in _replayed:
        _replayed[which] = C16_replay.replay(which)
    return _replayed[which]


def run(ctx):
    prog, info = lc.load()
    if prog.find_fn('OutputPortSubscription::new') is None:
        raise Inconclusive('the default (v1) output port is not compiled in this feature set')
    ctx.bounds.update({'stream': 'up to %d receive results per run (publication, Lagged(n) with symbolic n >= 1, Closed, Ok(None)), one Pending poll per receive; the subscription position is symbolic' % MAX_ITEMS,
                       'subscribers': 'one forwarding task at a time: tasks share nothing but the broadcast channel (each has its own receiver, converter and target), so independence of subscribers is structural',
                       'outside': 'the v2 port beyond one batch of its fan-out task (see bounds.v2); tokio broadcast itself (retention, Lagged accounting); end-to-end order through the subscriber mailbox (C02)'})
    ctx.assumptions += ['tokio broadcast receiver contract: publications are received in publication order, each at most once; Lagged(n) skips n >= 1 positions forward; Closed once all senders are gone',
                        'the converter is an opaque pure function returning Some(converted) or None; ActorRef::cast succeeds or fails arbitrarily']
    check_forwarder(ctx, prog)
    check_send(ctx, prog)
    check_subscribe(ctx, prog)
    # the v2 port (feature output-port-v2): its own MIR dump, its own native build
    import C16_v2
    import C16_v2_replay
    try:
        C16_v2.check(ctx, ctx.tier)
    except Unmodelled as e:
        ctx.inconclusive.append('C16 v2 slice: Unmodelled: %s' % str(e)[:300])
    try:
        bad, n = C16_v2_replay.battery()
        ctx.translator_validated += n
        ctx.extra['v2_native_battery'] = {'runs': n, 'violations': bad[:5]}
        if bad:
            rec = {'name': 'v2.native_battery', 'group': 'C16.v2', 'solver_s': 0.0, 'status': 'cex'}
            ctx.obligations.append(rec)
            ctx.handle_cex(rec['name'], 'C16.v2.native', None, lambda _m: {'replayed': True, 'detail': 'real v2 port on fixed batches: %s' % bad[:3], 'replay': {'which': 'v2_battery'}}, rec)
    except RuntimeError as e:
        ctx.inconclusive.append('v2 native battery unavailable: %s' % str(e)[-300:])


def replay_file(path):
    import json
    import C16_replay
    d = json.load(open(path))
    if d['replay'].get('which') in ('v2', 'v2_battery'):
        import C16_v2_replay
        rp = d['replay']
        bad, _n = C16_v2_replay.battery()
        if rp['which'] == 'v2':
            bad += C16_v2_replay.evaluate([(i + 1, 's%d' % i) for i in range(rp['n_subs'])], C16_v2_replay.items_of(rp['shape']), rp['allow_dup'], [tuple(x) for x in rp['refuse']])
        print('native v2 port:', bad)
        return 1 if bad else 0
    r = C16_replay.replay(d['replay']['which'])
    print(r['detail'])
    return 1 if r['replayed'] else 0
