"""native replay for the C15 pool slice: one pool operation on a real FactoryState whose pool is given slot by slot; the invariant is re-evaluated on the result"""
import native


def run_native(rp):
    slots = ','.join('-' if s is None else s for s in rp['slots'])
    op = 'resize:%d' % rp['arg'] if rp['op'] == 'resize' else '%s:%s' % (rp['op'], rp['arg'][5:] if str(rp['arg']).startswith('actor') else 'stranger')
    out, _, rc, err = native.run('factory_pool', pool_size=rp['pool_size'], slots=slots, busy=rp['busy'], queued=rp.get('queued', []), op=op, timeout=30)
    if rc != 0:
        raise RuntimeError('native factory_pool failed: ' + err[-300:])
    d = dict(x.split(':', 1) for x in out['out'].split(';'))
    pool = {}
    for x in d['slots'].split('+'):
        if x:
            w, fl = x.split(':')
            pool[int(w)] = {'draining': fl[0] == '1', 'busy': fl[1] == '1', 'same_actor': fl[2] == '1'}
    n, cons = d['index'].split('/')
    return {'pool_size': int(d['pool_size']), 'pool': pool, 'index_entries': int(n), 'index_consistent': cons == '1'}


def violations(rp, obs):
    bad = []
    ps, pool = obs['pool_size'], obs['pool']
    if not all(w in pool and not pool[w]['draining'] for w in range(ps)):
        bad.append('slots_below_pool_size_hold_live_workers')
    if not all(pool[w]['draining'] and pool[w]['busy'] for w in pool if w >= ps):
        bad.append('slots_beyond_pool_size_are_empty_or_draining_and_busy: %s' % {w: v for w, v in pool.items() if w >= ps})
    if not obs['index_consistent'] or obs['index_entries'] != len(pool):
        bad.append('worker_by_actor_is_the_inverse_of_the_pool: %d entries for %d workers' % (obs['index_entries'], len(pool)))
    if rp['op'] == 'resize':
        want = rp['pool_size'] if rp['arg'] == 0 else rp['arg']
        if ps != want:
            bad.append('pool_size_is_the_requested_size')
        if sorted(w for w, v in pool.items() if not v['draining']) != list(range(ps)):
            bad.append('live_workers_are_exactly_the_requested_slots')
    else:
        if ps != rp['pool_size']:
            bad.append('pool_size_unchanged')
        if str(rp['arg']).startswith('actor'):
            w = int(rp['arg'][5:])
            if w in pool and pool[w]['same_actor']:
                bad.append('dead_worker_replaced_in_its_slot_or_retired_if_draining')
            if w not in pool and rp['slots'][w] != 'drain':
                bad.append('dead_worker_replaced_in_its_slot_or_retired_if_draining: a live worker vanished')
            if w in rp.get('queued', []) and not (w in pool and pool[w]['busy'] and not pool[w]['same_actor']):
                bad.append('job_queued_on_the_dead_worker_goes_to_its_replacement: the slot is %s' % (pool.get(w, 'gone'),))
        elif any(not v['same_actor'] for v in pool.values()):
            bad.append('death_of_an_actor_outside_the_pool_changes_nothing')
    return bad


def replay(rp):
    obs = run_native(rp)
    bad = violations(rp, obs)
    return {'replayed': bool(bad), 'detail': 'native FactoryState pool %s -> %s ; violated %s' % (rp, obs, bad), 'replay': {'which': 'pool', 'rp': rp}}
